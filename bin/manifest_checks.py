check("C15", "model_checking",
      "TLC enumerates every layout (all subsets of the candidate files up to a size bound) x request spelling x requiring file x folder name x mode of spec/darklua/Resolve.tla and model-checks the conversion theorem on the transcribed generate_require; every enumerated case plus seeded random deeper layouts is replayed into the real bundler and the real convert_require rule, and TLC judges each recorded observation against the documented resolution (trace spec ResolveTrace).",
      "Bounded: file-system subsets of at most 3 (quick) / 6 (thorough) files from the candidate pool; in-memory resources; .luaurc, roblox mode and sourcemaps outside the property. Trusted: TLC, the case renderer in harness/src/resolve.rs.",
      "TLA+ model (Resolve) enumerated by TLC; cases replayed into darklua; observations validated by a TLC trace specification",
      "DESIGN.md 4.6, 10 (C15)")
