"""Shared machinery for /verif/bin/check: TLC and harness invocation, verdict parsing,
known-findings classification, evidence writing, VIOLATION reporting.

Exit-code discipline (DESIGN.md section 7): 0 = property held on everything explored
(possibly with KNOWN-FINDING lines), 1 = at least one VIOLATION line was printed,
2 = tool error (TLC / cargo / java failure, timeout, malformed trace) -- never a verdict.
"""
import json, os, re, shutil, subprocess, sys, time, hashlib, random

VERIF = os.path.dirname(os.path.dirname(os.path.abspath(__file__)))
REPO = os.environ.get("VERIF_REPO", "/repo")
SPEC = os.path.join(VERIF, "spec")
HARNESS = os.path.join(VERIF, "harness")
WORK = os.path.join(VERIF, "work")
EVID = os.path.join(VERIF, "evidence")
TLA_JAR = "/opt/veriftools/tla/tla2tools.jar"
CM_JAR = "/opt/veriftools/tla/CommunityModules-deps.jar"
TLA_LIB = ":".join(os.path.join(SPEC, d) for d in ("darklua", "lua", "mc", "trace"))


class ToolError(Exception):
    pass


def log(*a):
    print("[check]", *a, file=sys.stderr, flush=True)


def seed():
    try:
        return int(os.environ.get("VERIF_SEED", "1"))
    except ValueError:
        return 1


def workdir(pid, clean=True):
    d = os.path.join(WORK, pid)
    if clean and os.path.isdir(d):
        shutil.rmtree(d, ignore_errors=True)
    os.makedirs(d, exist_ok=True)
    return d


# --------------------------------------------------------------------------- harness

_built = False


def build_harness():
    """Rebuild dlv (and, through the path dependency, darklua_core from /repo's working tree)."""
    global _built
    if _built:
        return
    t0 = time.time()
    env = dict(os.environ, CARGO_NET_OFFLINE="true")
    r = subprocess.run(["cargo", "build", "--offline", "--quiet"], cwd=HARNESS, env=env,
                       stdout=subprocess.PIPE, stderr=subprocess.STDOUT, text=True)
    if r.returncode != 0:
        sys.stderr.write(r.stdout[-6000:])
        raise ToolError("cargo build of the harness failed")
    log("harness built in %.1fs" % (time.time() - t0))
    # the command-line binary itself (C14 runs `darklua convert`): built from the same working tree into the harness' own
    # target directory, never into /repo
    t1 = time.time()
    r = subprocess.run(["cargo", "build", "--offline", "--quiet", "--bin", "darklua", "--manifest-path", os.path.join(REPO, "Cargo.toml"),
                        "--target-dir", os.path.join(HARNESS, "target", "cli")], cwd=HARNESS, env=env,
                       stdout=subprocess.PIPE, stderr=subprocess.STDOUT, text=True)
    if r.returncode != 0:
        sys.stderr.write(r.stdout[-4000:])
        raise ToolError("cargo build of the darklua binary failed")
    os.environ["DLV_DARKLUA_BIN"] = os.path.join(HARNESS, "target", "cli", "debug", "darklua")
    log("darklua binary built in %.1fs" % (time.time() - t1))
    _built = True


def dlv(args, timeout=3600, stdin=None, env_extra=None):
    build_harness()
    exe = os.path.join(HARNESS, "target", "debug", "dlv")
    env = dict(os.environ)
    env["RUST_MIN_STACK"] = str(512 * 1024 * 1024)
    if env_extra:
        env.update(env_extra)
    try:
        r = subprocess.run([exe] + [str(a) for a in args], stdout=subprocess.PIPE, stderr=subprocess.PIPE,
                           text=True, timeout=timeout, input=stdin, env=env)
    except subprocess.TimeoutExpired:
        raise ToolError("dlv %s timed out after %ss" % (args[0], timeout))
    if r.returncode != 0:
        sys.stderr.write(r.stderr[-6000:])
        raise ToolError("dlv %s exited with %s" % (" ".join(map(str, args[:3])), r.returncode))
    return r.stdout


# --------------------------------------------------------------------------- TLC

class TlcResult:
    def __init__(self):
        self.rc = None
        self.out = ""
        self.lines = []          # decoded PrintT string lines
        self.generated = 0
        self.distinct = 0
        self.depth = 0
        self.wall = 0.0
        self.invariant_violated = None
        self.coverage = {}

    def tagged(self, tag):
        """JSON payloads of PrintT("<tag> " \\o ToJson(..)) lines."""
        res = []
        pre = tag + " "
        for s in self.lines:
            if s.startswith(pre):
                try:
                    res.append(json.loads(s[len(pre):]))
                except json.JSONDecodeError as e:
                    raise ToolError("malformed %s line from TLC: %r (%s)" % (tag, s[:200], e))
        return res


_RAW_LINE = re.compile(r'^[A-Z][A-Z-]* \{')
_STR_LINE = re.compile(r'^"(?:[^"\\]|\\.)*"$')


def _untla(s):
    # TLC prints strings with \" and \\ escapes (and keeps other characters verbatim)
    out = []
    i = 1
    n = len(s) - 1
    while i < n:
        c = s[i]
        if c == "\\" and i + 1 < n:
            d = s[i + 1]
            out.append({"n": "\n", "t": "\t", "r": "\r", "f": "\f"}.get(d, d))
            i += 2
        else:
            out.append(c)
            i += 1
    return "".join(out)


def tlc(module, cfg=None, workers=8, timeout=1200, env=None, simulate=None, depth=None, dfs=False,
        xmx="8g", coverage=False, extra=None, metaname=None, cont=False, check_deadlock=False):
    """Run TLC on spec/<...>/<module>.tla (path relative to SPEC or absolute)."""
    path = module if os.path.isabs(module) else os.path.join(SPEC, module)
    if not path.endswith(".tla"):
        path += ".tla"
    cfgp = cfg if cfg else path[:-4] + ".cfg"
    if not os.path.isabs(cfgp):
        cfgp = os.path.join(SPEC, cfgp)
    name = metaname or os.path.basename(path)[:-4]
    meta = os.path.join(WORK, "tlc", "%s-%d-%d" % (name, os.getpid(), int(time.time() * 1000) % 1000000))
    os.makedirs(meta, exist_ok=True)
    jopts = ["-XX:+UseParallelGC", "-Xss1g" if dfs else "-Xss256m", "-Xmx" + xmx,
             "-DTLA-Library=" + TLA_LIB]
    if dfs:
        jopts.append("-Dtlc2.tool.queue.IStateQueue=StateDeque")
    cmd = ["java"] + jopts + ["-cp", ":".join([TLA_JAR, CM_JAR, os.path.join(SPEC, "lua")]), "tlc2.TLC",
                               "-workers", str(workers), "-metadir", meta, "-cleanup", "-noGenerateSpecTE",
                               "-config", cfgp]
    if not check_deadlock:
        cmd.append("-deadlock")     # -deadlock DISABLES deadlock checking
    if coverage:
        cmd += ["-coverage", "1"]
    if cont:
        cmd.append("-continue")
    if simulate:
        cmd += ["-simulate", "num=%d" % simulate]
    if depth:
        cmd += ["-depth", str(depth)]
    if extra:
        cmd += extra
    cmd.append(path)
    e = dict(os.environ)
    if env:
        e.update({k: str(v) for k, v in env.items()})
    res = TlcResult()
    t0 = time.time()
    try:
        p = subprocess.run(cmd, stdout=subprocess.PIPE, stderr=subprocess.STDOUT, text=True, timeout=timeout,
                           env=e, cwd=os.path.dirname(path), errors="replace")
    except subprocess.TimeoutExpired:
        shutil.rmtree(meta, ignore_errors=True)
        raise ToolError("TLC on %s timed out after %ss" % (name, timeout))
    finally:
        pass
    shutil.rmtree(meta, ignore_errors=True)
    res.wall = time.time() - t0
    res.rc = p.returncode
    res.out = p.stdout
    for ln in p.stdout.splitlines():
        if ln.startswith('"') and _STR_LINE.match(ln):
            res.lines.append(_untla(ln))
        elif _RAW_LINE.match(ln):
            res.lines.append(ln)      # raw line written by the Java override LuaStr!EmitLine
        m = re.match(r"^(\d+) states generated, (\d+) distinct states found", ln)
        if m:
            res.generated = int(m.group(1))
            res.distinct = int(m.group(2))
        m = re.match(r"^The depth of the complete state graph search is (\d+)", ln)
        if m:
            res.depth = int(m.group(1))
        m = re.match(r"^Error: Invariant (\S+) is violated", ln)
        if m:
            res.invariant_violated = m.group(1)
        m = re.match(r"^<(\w+) line \d+, col \d+ to line \d+, col \d+ of module (\w+)>: (\d+):(\d+)", ln)
        if m:
            res.coverage[m.group(1)] = (int(m.group(3)), int(m.group(4)))
    return res


def tlc_ok(res, what, allow_invariant=False):
    """TLC must have completed; anything else is a tool error."""
    if res.rc == 0:
        return
    if allow_invariant and res.rc == 12 and res.invariant_violated:
        return
    tail = "\n".join(res.out.splitlines()[-40:])
    sys.stderr.write(tail + "\n")
    raise ToolError("TLC failed on %s (exit %s)" % (what, res.rc))


def tlapm(module_rel, expect_min=1, timeout=900, threads=8):
    """Runs the TLA+ proof system on spec/<module_rel>.tla (a scratch copy: tlapm writes its cache next to the file).
    Returns the number of proved obligations; anything but `All N obligations proved` is a tool error."""
    import shutil, tempfile
    src = os.path.join(SPEC, module_rel + ".tla")
    d = tempfile.mkdtemp(prefix="tlapm-", dir=WORK if os.path.isdir(WORK) else None)
    try:
        shutil.copy(src, d)
        try:
            r = subprocess.run(["tlapm", "--threads", str(threads), "--cleanfp", os.path.basename(src)], cwd=d, stdout=subprocess.PIPE, stderr=subprocess.STDOUT,
                               text=True, timeout=timeout)
        except subprocess.TimeoutExpired:
            raise ToolError("tlapm timed out on %s" % module_rel)
        m = re.search(r"All (\d+) obligations? proved", r.stdout)
        if not m or int(m.group(1)) < expect_min:
            sys.stderr.write(r.stdout[-3000:] + "\n")
            raise ToolError("tlapm did not prove %s" % module_rel)
        return int(m.group(1))
    finally:
        shutil.rmtree(d, ignore_errors=True)


# --------------------------------------------------------------------------- known findings

def load_findings():
    p = os.path.join(VERIF, "known_findings.json")
    if not os.path.exists(p):
        return []
    with open(p) as f:
        return json.load(f)["findings"]


def pinned_reproducers(pid):
    """Pinned reproducers of the findings of this property, OPEN (expected to fail in the recorded way) and FIXED (regression
    inputs: a fixed entry suppresses nothing, so if the failure returns it is a violation): run on every invocation."""
    out = []
    for f in load_findings():
        if f.get("status") in ("open", "fixed") and pid in f.get("properties", []):
            for k, r in enumerate(f.get("reproducers", [f["reproducer"]] if "reproducer" in f else [])):
                r = dict(r)
                r["id"] = "kf-%s-%d" % (f["id"], k)
                out.append(r)
    return out


def _match_value(pat, val):
    if isinstance(pat, str) and pat.startswith("re:"):
        return val is not None and re.search(pat[3:], str(val)) is not None
    if isinstance(pat, list):
        return val in pat
    return pat == val


def classify(pid, sig, findings):
    """Return the OPEN finding whose trigger matches this violating case's signature, else None.
    `fixed` entries never suppress anything."""
    for f in findings:
        if f.get("status") != "open":
            continue
        if pid not in f.get("properties", [f.get("property")]):
            continue
        m = f.get("match", {})
        if all(_match_value(v, sig.get(k)) for k, v in m.items()):
            return f
    return None


# --------------------------------------------------------------------------- reporting

class Report:
    def __init__(self, pid, tier, level):
        self.pid = pid
        self.tier = tier
        self.level = level
        self.t0 = time.time()
        self.violations = []       # (sig, replay_payload)
        self.known = {}            # finding id -> [count, what]
        self.coverage = {}
        self.assumptions = []
        self.findings = load_findings()
        self.wd = os.path.join(WORK, pid)
        os.makedirs(self.wd, exist_ok=True)

    def violation(self, sig, payload):
        """A case on which an observable clause of the property fails. Classified against known findings."""
        f = classify(self.pid, sig, self.findings)
        if f is not None:
            k = self.known.setdefault(f["id"], [0, f["what"]])
            k[0] += 1
            return False
        self.violations.append((sig, payload))
        return True

    def finish(self):
        nviol = len(self.violations)
        for fid, (n, what) in sorted(self.known.items()):
            print("KNOWN-FINDING: property=%s %s: %s (%d case%s)" % (self.pid, fid, what, n, "" if n == 1 else "s"))
        shown = 0
        for i, (sig, payload) in enumerate(self.violations):
            if shown >= 20:
                break
            rp = os.path.join(self.wd, "replay-%d.json" % i)
            with open(rp, "w") as f:
                json.dump({"property": self.pid, "sig": sig, "case": payload}, f, indent=1, sort_keys=True)
            print("VIOLATION property=%s replay=%s" % (self.pid, rp))
            print("  " + json.dumps(sig, sort_keys=True)[:600])
            shown += 1
        if nviol > shown:
            print("(%d further violations not listed)" % (nviol - shown))
        ev = {
            "property_id": self.pid,
            "tier": self.tier,
            "seed": seed(),
            "level": self.level,
            "coverage": self.coverage,
            "assumptions": self.assumptions,
            "wall_s": round(time.time() - self.t0, 2),
            "violations": nviol,
        }
        ev["coverage"]["known_findings_hit"] = {k: v[0] for k, v in self.known.items()}
        os.makedirs(EVID, exist_ok=True)
        with open(os.path.join(EVID, self.pid + ".json"), "w") as f:
            json.dump(ev, f, indent=1, sort_keys=True)
        return 1 if nviol else 0


def write_ndjson(path, rows):
    with open(path, "w") as f:
        for r in rows:
            f.write(json.dumps(r, separators=(",", ":"), ensure_ascii=True))
            f.write("\n")


def read_ndjson(path):
    rows = []
    with open(path) as f:
        for ln in f:
            ln = ln.strip()
            if ln:
                rows.append(json.loads(ln))
    return rows


def sample(rows, n, rng):
    if len(rows) <= n:
        return list(rows)
    idx = sorted(rng.sample(range(len(rows)), n))
    return [rows[i] for i in idx]
