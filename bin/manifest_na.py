# NA[pid] = reason, for properties that are deliberately not claimed
