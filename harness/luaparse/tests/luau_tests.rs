use luaparse::Dialect::{Lua51, Luau};
use luaparse::{parse, parse_with_options, ParseOptions};

fn sx(src: &str) -> String {
    match parse(src.as_bytes(), Luau) {
        Ok(p) => p.to_sexp(),
        Err(e) => panic!("Luau parse failed for {:?}: {}", src, e),
    }
}

#[allow(dead_code)]
fn ex(src: &str) -> String {
    let s = sx(&format!("return {}", src));
    let inner = s.strip_prefix("[(ret ").and_then(|s| s.strip_suffix(")]"));
    inner.unwrap_or_else(|| panic!("unexpected shape {}", s)).to_string()
}

fn err(src: &str) -> String {
    match parse(src.as_bytes(), Luau) {
        Ok(p) => panic!("expected a Luau syntax error for {:?}, got {}", src, p.to_sexp()),
        Err(e) => e.message,
    }
}

/// valid Luau with the given tree; a syntax (or lexical) error in Lua 5.1 mode
fn luau_only(src: &str, expected: &str) {
    assert_eq!(sx(src), expected, "for {:?}", src);
    if let Ok(p) = parse(src.as_bytes(), Lua51) {
        panic!("Lua 5.1 mode accepted {:?}: {}", src, p.to_sexp());
    }
}

/// type syntax that must be skipped: `src` parses to `expected` and nothing else is emitted
fn skipped(src: &str, expected: &str) {
    let p = parse(src.as_bytes(), Luau).unwrap_or_else(|e| panic!("Luau parse failed for {:?}: {}", src, e));
    assert_eq!(p.to_sexp(), expected, "for {:?}", src);
    if let Ok(p) = parse(src.as_bytes(), Lua51) {
        panic!("Lua 5.1 mode accepted {:?}: {}", src, p.to_sexp());
    }
}

// ---------------------------------------------------------------- statements

#[test]
fn compound_assignment() {
    luau_only("a += 1", "[(compound + a #1)]");
    luau_only("a -= 1", "[(compound - a #1)]");
    luau_only("a *= 2", "[(compound * a #2)]");
    luau_only("a /= 2", "[(compound / a #2)]");
    luau_only("a //= 2", "[(compound // a #2)]");
    luau_only("a %= 2", "[(compound % a #2)]");
    luau_only("a ^= 2", "[(compound ^ a #2)]");
    luau_only("a ..= 'x'", "[(compound .. a \"x\")]");
    luau_only("a.b += 1", "[(compound + (. a b) #1)]");
    luau_only("a[i] -= f()", "[(compound - (index a i) (call f))]");
    luau_only("f().x += 1", "[(compound + (. (call f) x) #1)]");
    luau_only("a += b + c", "[(compound + a (+ b c))]");
    luau_only("a ..= b .. c", "[(compound .. a (.. b c))]");
    luau_only("a += 1 b -= 2", "[(compound + a #1) (compound - b #2)]");
    err("a, b += 1");
    err("a += 1, 2");
    err("f() += 1");
    err("(a) += 1");
    err("a += ");
    err("+= 1");
    err("local a += 1");
    err("a +=+= 1");
    err("a + = 1");
    err("a =+ 1 2");
}

#[test]
fn continue_statement() {
    luau_only("while a do continue end", "[(while a [continue])]");
    luau_only("while a do continue; end", "[(while a [continue])]");
    luau_only("for i = 1, 2 do if i then continue end f() end", "[(numfor i #1 #2 [(if i [continue]) (callstmt (call f))])]");
    luau_only("repeat continue until a", "[(repeat [continue] a)]");
    luau_only("for k in p do f() continue end", "[(genfor [k] [p] [(callstmt (call f)) continue])]");
    // continue is only contextual
    assert_eq!(sx("local continue = 1 continue = 2 continue()"), "[(local [continue] #1) (assign [continue] [#2]) (callstmt (call continue))]");
    assert_eq!(sx("continue.x = 1"), "[(assign [(. continue x)] [#1])]");
    assert_eq!(sx("continue, a = 1, 2"), "[(assign [continue a] [#1 #2])]");
    assert_eq!(sx("continue += 1"), "[(compound + continue #1)]");
    assert_eq!(sx("continue 'x'"), "[(callstmt (call continue \"x\"))]");
    assert_eq!(sx("while a do continue\n(f)() end"), "[(while a [(callstmt (call (call continue f)))])]");
    // ... and in Lua 5.1 it is an ordinary name
    assert!(parse(b"continue()", Lua51).is_ok());
    assert!(parse(b"while a do continue end", Lua51).is_err());
    // must be last in its block, must be in a loop
    assert!(err("while a do continue f() end").contains("last statement"));
    assert!(err("while a do continue continue end").contains("last statement"));
    assert!(err("while a do continue break end").contains("last statement"));
    assert!(err("continue").contains("inside a loop"));
    assert!(err("while a do local function f() continue end end").contains("inside a loop"));
    assert!(err("repeat until (function() continue end)()").contains("inside a loop"));
    let o = ParseOptions::syntax_only();
    assert_eq!(parse_with_options(b"continue", Luau, o).unwrap().to_sexp(), "[continue]");
    assert!(parse_with_options(b"continue", Lua51, o).is_err());
}

#[test]
fn type_declarations() {
    skipped("type A = number", "[typedecl]");
    skipped("export type A = number", "[typedecl]");
    skipped("type A<T> = {T}", "[typedecl]");
    skipped("type A<T, U...> = (T) -> U...", "[typedecl]");
    skipped("type A<T = number, U... = ...string> = T", "[typedecl]");
    skipped("type A<T... = (string, number)> = T", "[typedecl]");
    skipped("type A<T... = ()> = T", "[typedecl]");
    skipped("type A<T... = U...> = T", "[typedecl]");
    skipped("type A = B.C<D>", "[typedecl]");
    skipped("type A = typeof(f(x).y)", "[typedecl]");
    skipped("type A = typeof({ a = 1 })", "[typedecl]");
    skipped("type\nA\n=\nnumber", "[typedecl]");
    skipped("type A = number type B = string", "[typedecl typedecl]");
    skipped("type A = number local x = 1", "[typedecl (local [x] #1)]");
    skipped("type A = | number | string", "[typedecl]");
    skipped("type A = & B & C", "[typedecl]");
    skipped("type A = number? | string", "[typedecl]");
    skipped("type A = B??", "[typedecl]");
    skipped("do type A = number end", "[(do [typedecl])]");
    skipped("type function f(t) return t end", "[typedecl]");
    skipped("export type function f(t: type, ...) local x = ... return x end", "[typedecl]");
    skipped("type function f() end local y = 2", "[typedecl (local [y] #2)]");
    // `type` and `export` stay ordinary identifiers
    assert_eq!(sx("type = 1 type(x) local type = type"), "[(assign [type] [#1]) (callstmt (call type x)) (local [type] type)]");
    assert_eq!(sx("export = 1 export()"), "[(assign [export] [#1]) (callstmt (call export))]");
    assert_eq!(sx("type.x = 1"), "[(assign [(. type x)] [#1])]");
    assert_eq!(sx("local t = type(x) == 'number'"), "[(local [t] (== (call type x) \"number\"))]");
    assert!(parse(b"type = 1 type(x)", Lua51).is_ok());
    err("type");
    err("type A");
    err("type A =");
    err("type = ");
    err("type A = = number");
    err("type A B = number");
    err("type A.B = number");
    err("type A<> = number");
    err("type A<T,> = number");
    err("type A<T...,U> = number");
    err("type A<T = number, U> = number");
    err("type A<T... = number> = number");
    err("type A<1> = number");
    err("export A = number");
    err("export type");
    err("export");
    err("export function f() end");
    err("type A = number |");
    err("type A = number | & string");
    err("type A = A | B & C");
    err("type A = A? & C");
    err("type A = function");
    err("type A = 1");
    err("type A = -1");
    err("type A = ...number");
    err("type A = T...");
    err("type A = (number, string)");
    err("type A = ()");
    err("type A = a.b.c");
    err("type A = `x`");
    err("type function() end");
    err("type function f() ");
    // a break inside a type function is outside any loop
    assert!(err("while a do type function f() break end end").contains("no loop"));
}

#[test]
fn type_grammar_is_skipped() {
    for ty in [
        "number",
        "nil",
        "true",
        "false",
        "'lit'",
        "\"lit\"",
        "[[lit]]",
        "A.B",
        "A<B>",
        "A.B<C, D>",
        "A<B<C>>",
        "A<B<C<D>>>",
        "A<>",
        "A<...number>",
        "A<T...>",
        "A<(number, string)>",
        "A<()>",
        "A<(number)>",
        "A<(number)?>",
        "A<(number) -> string>",
        "A<B, (C, D), E...>",
        "typeof(x)",
        "typeof(x + 1)",
        "typeof(f(a, b){}.c)",
        "typeof(function() return 1 end)",
        "{}",
        "{number}",
        "{ number }",
        "{{number}}",
        "{ x: number }",
        "{ x: number, y: string }",
        "{ x: number; y: string; }",
        "{ x: number, }",
        "{ [string]: number }",
        "{ [number]: string, x: number }",
        "{ x: number, [string]: any }",
        "{ read x: number, write y: string }",
        "{ read [string]: number }",
        "{ read: number, write: string }",
        "{ [\"key\"]: number, ['other']: string }",
        "{ f: (number) -> string, g: { h: number? } }",
        "() -> ()",
        "() -> nil",
        "(number) -> string",
        "(number, string) -> (boolean, number)",
        "(a: number, b: string) -> ()",
        "(...number) -> ...string",
        "(number, ...any) -> T...",
        "(T...) -> T...",
        "(number) -> (string) -> boolean",
        "(number) -> string?",
        "((number) -> string)?",
        "(number) -> (string)?",
        "<T>(T) -> T",
        "<T, U...>(T, U...) -> (T, U...)",
        "<T...>() -> T...",
        "(number)",
        "(number)?",
        "((number))",
        "(number | string)?",
        "(() -> ())?",
        "number?",
        "number??",
        "number | string",
        "number | string | nil",
        "| number | string",
        "& A & B",
        "A & B & C",
        "(A | B) & C",
        "A | (B & C)",
        "number?| string",
        "{ x: number } & { y: string }",
        "(number) -> () | nil",
        "A<B> | C<D>?",
        "typeof(a)?",
        "'a' | 'b' | 'c'",
        "true | false",
        "{ | number }",
        "{| A | B}",
        "(a: number) -> (b: string) -> ()",
    ] {
        // annotation on a local
        skipped(&format!("local x: {} = nil", ty), "[(local [x] nil)]");
        // annotation on a parameter, and as a return type
        skipped(&format!("local function f(a: {}, b): {} end", ty, ty), "[(localfn f (fn [a b] []))]");
        // in a cast (binds tighter than `+`)
        skipped(&format!("local y = 1 + a :: {}", ty), "[(local [y] (+ #1 (cast a)))]");
        // in an alias followed by another statement
        skipped(&format!("type A = {} f()", ty), "[typedecl (callstmt (call f))]");
        // as generic argument
        skipped(&format!("type A = B<{}>", ty), "[typedecl]");
    }
}

#[test]
fn bad_types() {
    for ty in [
        "",
        "1",
        "-",
        "function() end",
        "{ x: }",
        "{ x: number",
        "{ [string] }",
        "{ [string]: }",
        "{ [string]: number, [number]: string }",
        "{ x: number y: string }",
        "{ number, string }",
        "{ end: number }",
        "(number, string)",
        "()",
        "(number,) -> ()",
        "(a: number)",
        "(...number)",
        "(number) ->",
        "(number) => string",
        "A<",
        "A<B",
        "A<B,>",
        "A.B.C",
        "A.",
        "A.1",
        "typeof",
        "typeof x",
        "typeof()",
        "typeof(x",
        "number |",
        "| ",
        "A | B & C",
        "A & B | C",
        "A? & B",
        "A & B?",
        "number...",
        "...number",
        "<T>",
        "<T> T",
        "<>() -> ()",
        "`a`",
        "nil.x",
        "A?.B",
    ] {
        let src = format!("local x: {} = nil", ty);
        if let Ok(p) = parse(src.as_bytes(), Luau) {
            panic!("accepted bad type {:?}: {}", ty, p.to_sexp());
        }
    }
}

#[test]
fn annotations_on_bindings() {
    skipped("local a: number, b: string = 1, 's'", "[(local [a b] #1 \"s\")]");
    skipped("local a: number", "[(local [a])]");
    skipped("for i: number = 1, 2 do end", "[(numfor i #1 #2 [])]");
    skipped("for k: string, v: number in pairs(t) do end", "[(genfor [k v] [(call pairs t)] [])]");
    skipped("for k, v: number in pairs(t) do end", "[(genfor [k v] [(call pairs t)] [])]");
    skipped("function f(a: number, b: string?) end", "[(funcstmt f (fn [a b] []))]");
    skipped("function f(...: number) end", "[(funcstmt f (fn [...] []))]");
    skipped("function f(a, ...: T...) end", "[(funcstmt f (fn [a ...] []))]");
    skipped("function f(): number end", "[(funcstmt f (fn [] []))]");
    skipped("function f(): (number, string) end", "[(funcstmt f (fn [] []))]");
    skipped("function f(): () end", "[(funcstmt f (fn [] []))]");
    skipped("function f(): ...number end", "[(funcstmt f (fn [] []))]");
    skipped("function f(): T... end", "[(funcstmt f (fn [] []))]");
    skipped("function f(): (number) -> string end", "[(funcstmt f (fn [] []))]");
    skipped("function f(): (number, ...string) end", "[(funcstmt f (fn [] []))]");
    skipped("function f(): | A | B end", "[(funcstmt f (fn [] []))]");
    skipped("function f(): (A)? return end", "[(funcstmt f (fn [] [(ret)]))]");
    skipped("function f<T>(a: T): T return a end", "[(funcstmt f (fn [a] [(ret a)]))]");
    skipped("function f<T, U...>(a: T, ...: U...): (T, U...) end", "[(funcstmt f (fn [a ...] []))]");
    skipped("function a.b:m<T>(x: T) end", "[(funcstmt a.b:m (fn [x] []))]");
    skipped("local function f<T...>(...: T...) end", "[(localfn f (fn [...] []))]");
    skipped("local f = function<T>(a: T): T return a end", "[(local [f] (fn [a] [(ret a)]))]");
    skipped("local f = function(): () end", "[(local [f] (fn [] []))]");
    // the body starts right after the return type
    skipped("function f(): number return 1 end", "[(funcstmt f (fn [] [(ret #1)]))]");
    skipped("function f(): typeof(x) (g)() end", "[(funcstmt f (fn [] [(callstmt (call (paren g)))]))]");
    err("local a: = 1");
    err("local a: number: string = 1");
    err("local a, b: = 1");
    err("for i: = 1, 2 do end");
    err("function f(a:) end");
    err("function f(a: number,) end");
    err("function f(...: ) end");
    err("function f(...: number, a) end");
    err("function f(): end");
    err("function f() -> number end");
    err("function f<>() end");
    err("function f<T,>() end");
    err("function f<T = number>() end");
    err("function f<T>");
    err("function f<T...,U>() end");
    err("function f(): (a: number) end");
    err("a: number = 1");
    err("a.b: number = 1");
}

// ---------------------------------------------------------------- expressions

#[test]
fn casts() {
    skipped("local x = a :: number", "[(local [x] (cast a))]");
    skipped("local x = (a :: any) :: number", "[(local [x] (cast (paren (cast a))))]");
    skipped("local x = a + b :: T", "[(local [x] (+ a (cast b)))]");
    skipped("local x = a :: T + b", "[(local [x] (+ (cast a) b))]");
    skipped("local x = -a :: T", "[(local [x] (neg (cast a)))]");
    skipped("local x = not a :: T", "[(local [x] (not (cast a)))]");
    skipped("local x = a ^ b :: T", "[(local [x] (^ a (cast b)))]");
    skipped("local x = a :: T ^ b", "[(local [x] (^ (cast a) b))]");
    skipped("local x = a .. b :: T .. c", "[(local [x] (.. a (.. (cast b) c)))]");
    skipped("local x = f() :: T", "[(local [x] (cast (call f)))]");
    skipped("local x = a.b.c :: T", "[(local [x] (cast (. (. a b) c)))]");
    skipped("local x = {} :: {number}", "[(local [x] (cast {}))]");
    skipped("local x = 1 :: number", "[(local [x] (cast #1))]");
    skipped("local x = 'a' :: string", "[(local [x] (cast \"a\"))]");
    skipped("local x = nil :: T?", "[(local [x] (cast nil))]");
    skipped("local x = ... :: T", "[(local [x] (cast ...))]");
    skipped("local x = function() end :: T", "[(local [x] (cast (fn [] [])))]");
    skipped("local x = a :: T == b", "[(local [x] (== (cast a) b))]");
    skipped("local x = a :: T? or b", "[(local [x] (or (cast a) b))]");
    skipped("local x = a :: A | B, c", "[(local [x] (cast a) c)]");
    skipped("f(a :: T, b :: U)", "[(callstmt (call f (cast a) (cast b)))]");
    skipped("local t = { a :: T, b = c :: U, [d :: V] = e }", "[(local [t] {(pos (cast a)) (named b (cast c)) (key (cast d) e)})]");
    skipped("x = (a :: T).b", "[(assign [x] [(. (paren (cast a)) b)])]");
    skipped("(a :: T).b = 1", "[(assign [(. (paren (cast a)) b)] [#1])]");
    skipped("(a :: T)()", "[(callstmt (call (paren (cast a))))]");
    skipped("x = a :: typeof(b :: c)", "[(assign [x] [(cast a)])]");
    skipped("x = a :: (number) -> string", "[(assign [x] [(cast a)])]");
    skipped("x = a :: T<U> < b", "[(assign [x] [(< (cast a) b)])]");
    err("x = a :: T :: U");
    err("x = a ::");
    err("x = :: T");
    err("a :: T = 1");
    err("a :: T");
    err("f() :: T");
    err("x = a :: T.b.c");
    err("local x = a :: T b");
}

#[test]
fn if_expressions() {
    luau_only("x = if a then b else c", "[(assign [x] [(ifexp a b c)])]");
    luau_only("x = if a then b elseif c then d else e", "[(assign [x] [(ifexp a b (ifexp c d e))])]");
    luau_only(
        "x = if a then b elseif c then d elseif e then f else g",
        "[(assign [x] [(ifexp a b (ifexp c d (ifexp e f g)))])]",
    );
    luau_only("x = if a then b else if c then d else e", "[(assign [x] [(ifexp a b (ifexp c d e))])]");
    luau_only("x = if a then if b then c else d else e", "[(assign [x] [(ifexp a (ifexp b c d) e)])]");
    luau_only("x = if a then b else c + 1", "[(assign [x] [(ifexp a b (+ c #1))])]");
    luau_only("x = 1 + if a then b else c", "[(assign [x] [(+ #1 (ifexp a b c))])]");
    luau_only("x = (if a then b else c) + 1", "[(assign [x] [(+ (paren (ifexp a b c)) #1)])]");
    luau_only("x = if a and b then c or d else e and f", "[(assign [x] [(ifexp (and a b) (or c d) (and e f))])]");
    luau_only("x = -if a then b else c", "[(assign [x] [(neg (ifexp a b c))])]");
    luau_only("f(if a then b else c, d)", "[(callstmt (call f (ifexp a b c) d))]");
    luau_only("x = {if a then b else c}", "[(assign [x] [{(pos (ifexp a b c))}])]");
    luau_only("return if a then b else c", "[(ret (ifexp a b c))]");
    luau_only("x = if a then b else c :: T", "[(assign [x] [(ifexp a b (cast c))])]");
    luau_only("if if a then b else c then f() end", "[(if (ifexp a b c) [(callstmt (call f))])]");
    luau_only("x = if a then function() end else nil", "[(assign [x] [(ifexp a (fn [] []) nil)])]");
    // the node layout: elseif chains nest in `c`
    let p = parse(b"x = if a then b elseif c then d else e", Luau).unwrap();
    let outer = p.nodes.iter().rev().find(|n| n.k == "ifexp").unwrap();
    assert_eq!(p.node(outer.a).unwrap().s, b"a");
    assert_eq!(p.node(outer.b).unwrap().s, b"b");
    let inner = p.node(outer.c).unwrap();
    assert_eq!(inner.k, "ifexp");
    assert_eq!(p.node(inner.c).unwrap().s, b"e");
    assert!(err("x = if a then b").contains("else"));
    err("x = if a then b end");
    err("x = if a then b else c end");
    err("x = if a then b elseif c else d");
    err("x = if a then b elseif c then d");
    err("x = if a b else c");
    err("x = if then b else c");
    err("x = if a then else c");
    err("x = if a then b else");
    err("x = if a then b else c.y.z()()[");
    err("(if a then b else c)");
    err("if a then b else c");
}

#[test]
fn interpolated_strings() {
    luau_only("x = `abc`", "[(assign [x] [(interp \"abc\")])]");
    luau_only("x = ``", "[(assign [x] [(interp)])]");
    luau_only("x = `a{b}c`", "[(assign [x] [(interp \"a\" (val b) \"c\")])]");
    luau_only("x = `{a}`", "[(assign [x] [(interp (val a))])]");
    luau_only("x = `{a}{b}`", "[(assign [x] [(interp (val a) (val b))])]");
    luau_only("x = `{a} and {b + 1}!`", "[(assign [x] [(interp (val a) \" and \" (val (+ b #1)) \"!\")])]");
    luau_only("x = `a{ {1, 2} }b`", "[(assign [x] [(interp \"a\" (val {(pos #1) (pos #2)}) \"b\")])]");
    luau_only("x = `a{`b{c}d`}e`", "[(assign [x] [(interp \"a\" (val (interp \"b\" (val c) \"d\")) \"e\")])]");
    luau_only("x = `a{f{}}b`", "[(assign [x] [(interp \"a\" (val (call f {})) \"b\")])]");
    luau_only("x = `{if a then b else c}`", "[(assign [x] [(interp (val (ifexp a b c)))])]");
    luau_only("x = `\\{{a}\\}`", "[(assign [x] [(interp \"{\" (val a) \"}\")])]");
    luau_only("x = `a\\n\\x41\\u{42}\\067{d}`", "[(assign [x] [(interp \"a\\x0aABC\" (val d))])]");
    luau_only("x = `a` .. `b`", "[(assign [x] [(.. (interp \"a\") (interp \"b\"))])]");
    luau_only("f(`a{b}`)", "[(callstmt (call f (interp \"a\" (val b))))]");
    luau_only("x = (`a{b}`):upper()", "[(assign [x] [(mcall (paren (interp \"a\" (val b))) upper)])]");
    luau_only("x = `{a :: T}`", "[(assign [x] [(interp (val (cast a)))])]");
    luau_only("x = `{function() return `{y}` end}`", "[(assign [x] [(interp (val (fn [] [(ret (interp (val y)))])))])]");
    // node layout
    let p = parse(b"x = `a{b}`", Luau).unwrap();
    let i = p.nodes.iter().find(|n| n.k == "interp").unwrap();
    assert_eq!(i.l.len(), 2);
    assert_eq!(p.node(i.l[0]).unwrap().k, "istr");
    assert_eq!(p.node(i.l[0]).unwrap().s, b"a");
    assert_eq!(p.node(i.l[1]).unwrap().k, "ival");
    // keeping empty segments
    let o = ParseOptions { keep_empty_interp_segments: true, ..ParseOptions::default() };
    assert_eq!(parse_with_options(b"x = `{a}{b}`", Luau, o).unwrap().to_sexp(), "[(assign [x] [(interp \"\" (val a) \"\" (val b) \"\")])]");
    assert_eq!(parse_with_options(b"x = ``", Luau, o).unwrap().to_sexp(), "[(assign [x] [(interp \"\")])]");
    err("x = `a{}b`");
    err("x = `{}`");
    err("x = `a{b c}d`");
    err("x = `a{b`");
    err("x = `a{b}");
    err("x = `a{b,c}d`");
    err("x = `a{{b}}`");
    err("x = `a{b = 1}`");
    err("x = `a\nb`");
    // no call sugar, no indexing of a bare interpolated string
    err("f`a`");
    err("x = f`a{b}`");
    err("x = `a`.y");
    err("x = `a`:upper()");
    err("`a`");
    err("local t: `a` = 1");
}

#[test]
fn type_instantiation() {
    skipped("x = f<<number>>(1)", "[(assign [x] [(call (tinst f) #1)])]");
    skipped("f<<number>>(1)", "[(callstmt (call (tinst f) #1))]");
    skipped("f<<number, string>>()", "[(callstmt (call (tinst f)))]");
    skipped("f<<(string, number)>>(1, 'a')", "[(callstmt (call (tinst f) #1 \"a\"))]");
    skipped("f<<A<B<C>>>>()", "[(callstmt (call (tinst f)))]");
    skipped("f<<T...>>()", "[(callstmt (call (tinst f)))]");
    skipped("f<<...number>>()", "[(callstmt (call (tinst f)))]");
    skipped("f<<>>()", "[(callstmt (call (tinst f)))]");
    skipped("a.b<<T>>()", "[(callstmt (call (tinst (. a b))))]");
    skipped("x = a:m<<T>>(1)", "[(assign [x] [(mcall a m #1)])]");
    skipped("a:m<<A<B<C>>>>()", "[(callstmt (mcall a m))]");
    skipped("local g = f<<number>>", "[(local [g] (tinst f))]");
    skipped("x = f<<T>>'s'", "[(assign [x] [(call (tinst f) \"s\")])]");
    skipped("x = f<<{ a: number }>>{}", "[(assign [x] [(call (tinst f) {})])]");
    skipped("x = f<<typeof(y)>>()", "[(assign [x] [(call (tinst f))])]");
    // ordinary comparisons are untouched
    assert_eq!(sx("x = a < b"), "[(assign [x] [(< a b)])]");
    assert_eq!(sx("x = a < b > c"), "[(assign [x] [(> (< a b) c)])]");
    err("x = f<<T>(1)");
    err("x = f<<T(1)");
    err("x = f<<1>>()");
    err("x = a:m<<T>>");
    err("f<<T>>");
    err("x = f<<T,>>()");
    assert!(parse(b"x = f<<T>>(1)", Lua51).is_err());
}

#[test]
fn attributes() {
    skipped("@native function f() end", "[(funcstmt f (fn [] []))]");
    skipped("@native\nlocal function f() end", "[(localfn f (fn [] []))]");
    skipped("@checked @native function a.b:c() end", "[(funcstmt a.b:c (fn [] []))]");
    skipped("local f = @native function() end", "[(local [f] (fn [] []))]");
    skipped("@[native] function f() end", "[(funcstmt f (fn [] []))]");
    skipped("@[native, checked] function f() end", "[(funcstmt f (fn [] []))]");
    skipped("@[deprecated{use = 'g', reason = 'old'}] function f() end", "[(funcstmt f (fn [] []))]");
    skipped("@[deprecated {use = 'g'}, native] local function f() end", "[(localfn f (fn [] []))]");
    skipped("@[a('x', 1), b 'y'] function f() end", "[(funcstmt f (fn [] []))]");
    skipped("@[a()] function f() end", "[(funcstmt f (fn [] []))]");
    skipped("f(@native function() end)", "[(callstmt (call f (fn [] [])))]");
    // attribute arguments leave no garbage nodes behind
    let p = parse(b"@[deprecated{use = 'g'}] function f() end", Luau).unwrap();
    assert_eq!(p.nodes.len(), 4); // block, fn, funcstmt, root block
    err("@native");
    err("@native local x = 1");
    err("@native x = 1");
    err("@native return");
    err("@ native function f() end");
    err("@[] function f() end");
    err("@[native function f() end");
    err("@[native,] function f() end");
    err("@1 function f() end");
    err("@@native function f() end");
    err("local f = @native 1");
    err("@native type function f() end");
}

#[test]
fn const_declarations() {
    skipped("const x = 1", "[(const [x] #1)]");
    skipped("const x: number = 1", "[(const [x] #1)]");
    skipped("const a, b = 1, 2", "[(const [a b] #1 #2)]");
    skipped("const a, b = f()", "[(const [a b] (call f))]");
    skipped("const a, b, c = 1, o:m()", "[(const [a b c] #1 (mcall o m))]");
    skipped("const a, b = ...", "[(const [a b] ...)]");
    skipped("const function f() end", "[(constfn f (fn [] []))]");
    skipped("const function f(a: number): number return a end", "[(constfn f (fn [a] [(ret a)]))]");
    skipped("const\nx = 1", "[(const [x] #1)]");
    // node layout
    let p = parse(b"const x = 1 local y = 2 const function f() end local function g() end", Luau).unwrap();
    let flags: Vec<(String, usize)> =
        p.nodes.iter().filter(|n| n.k == "local" || n.k == "localfn").map(|n| (n.k.clone(), n.c)).collect();
    assert_eq!(
        flags,
        vec![("local".to_string(), 1), ("local".to_string(), 0), ("localfn".to_string(), 1), ("localfn".to_string(), 0)]
    );
    // `const` stays an ordinary identifier
    assert_eq!(sx("local const = 4 const = 5 const()"), "[(local [const] #4) (assign [const] [#5]) (callstmt (call const))]");
    assert_eq!(sx("const.x = 1"), "[(assign [(. const x)] [#1])]");
    assert!(parse(b"const = 5", Lua51).is_ok());
    err("const x");
    err("const x, y = 1");
    err("const x = 1, 2");
    err("const x, y, z = 1, (f())");
    err("const");
    err("const = ");
    err("const 1 = 2");
    err("const x.y = 1");
    err("const function f.g() end");
    err("const function() end");
    err("const local x = 1");
}

#[test]
fn lua51_rejects_luau_syntax() {
    for src in [
        "local x: number = 1",
        "function f(a: number) end",
        "function f(): number end",
        "function f<T>() end",
        "x = a :: number",
        "x = if a then b else c",
        "x = `a`",
        "x = a // b",
        "x += 1",
        "x ..= 'a'",
        "for i = 1, 2 do continue end",
        "type A = number",
        "export type A = number",
        "type function f() end",
        "@native function f() end",
        "const x = 1",
        "const function f() end",
        "x = f<<T>>()",
        "x = 0b11",
        "x = 1_000",
        "x = a != b",
        "for i: number = 1, 2 do end",
        "function f(...: number) end",
        "x = function<T>() end",
    ] {
        if let Ok(p) = parse(src.as_bytes(), Lua51) {
            panic!("Lua 5.1 mode accepted {:?}: {}", src, p.to_sexp());
        }
        assert!(parse(src.as_bytes(), Luau).is_ok() || src.contains("!="), "Luau rejected {:?}", src);
    }
    // Luau escapes silently mean something else in Lua 5.1 (documented choice)
    let p51 = parse(b"x = '\\x41\\z  \\u{41}'", Lua51).unwrap();
    let pl = parse(b"x = '\\x41\\z  \\u{41}'", Luau).unwrap();
    assert_eq!(p51.nodes[1].s, b"x41z  u{41}");
    assert_eq!(pl.nodes[1].s, b"AA");
}

#[test]
fn a_larger_luau_program() {
    let src = r##"
--!strict
local Module = {}
Module.__index = Module

export type Module<T> = typeof(setmetatable({} :: { items: {T}, count: number }, Module))
type Callback<T...> = (T...) -> ()

local DEFAULT: number = 0x10 + 0b11 + 1_000

function Module.new<T>(items: {T}?): Module<T>
    local self = setmetatable({ items = items or {}, count = 0 }, Module)
    return self :: any
end

function Module:push<T>(item: T, ...: T): number
    table.insert(self.items, item)
    for _, extra in { ... } do
        table.insert(self.items, extra)
    end
    self.count += 1 + select("#", ...)
    return self.count
end

@native
local function sum(values: {number}): number
    local total = 0
    for i = 1, #values do
        if values[i] == nil then
            continue
        elseif values[i] < 0 then
            break
        end
        total += values[i]
    end
    return total
end

local describe = function(m: Module<any>): string
    local kind = if m.count == 0 then "empty" elseif m.count == 1 then "single" else "many"
    return `Module({kind}, {m.count} item{if m.count == 1 then "" else "s"})`
end

return { Module = Module, sum = sum, describe = describe, default = DEFAULT // 2 }
"##;
    let p = parse(src.as_bytes(), Luau).unwrap();
    let root = p.node(p.root).unwrap();
    assert_eq!(root.k, "block");
    let kinds: Vec<&str> = root.l.iter().map(|&id| p.node(id).unwrap().k.as_str()).collect();
    assert_eq!(
        kinds,
        vec!["local", "assign", "typedecl", "typedecl", "local", "funcstmt", "funcstmt", "localfn", "local", "ret"]
    );
    assert!(parse(src.as_bytes(), Lua51).is_err());
}
