use luaparse::Dialect::{Lua51, Luau};
use luaparse::{parse, parse_with_options, Dialect, ParseOptions};

fn sx(src: &str, d: Dialect) -> String {
    match parse(src.as_bytes(), d) {
        Ok(p) => p.to_sexp(),
        Err(e) => panic!("parse failed ({:?}) for {:?}: {}", d, src, e),
    }
}

/// S-expression of a single expression (parsed as `return <e>` inside the vararg main chunk).
fn ex(src: &str, d: Dialect) -> String {
    let s = sx(&format!("return {}", src), d);
    let inner = s.strip_prefix("[(ret ").and_then(|s| s.strip_suffix(")]"));
    inner.unwrap_or_else(|| panic!("unexpected shape {}", s)).to_string()
}

fn err(src: &str, d: Dialect) -> String {
    match parse(src.as_bytes(), d) {
        Ok(p) => {
            let short: String = src.chars().take(200).collect();
            let sexp: String = p.to_sexp().chars().take(300).collect();
            panic!("expected a syntax error ({:?}) for {:?}, got {}", d, short, sexp)
        }
        Err(e) => e.message,
    }
}

fn both(f: impl Fn(Dialect)) {
    f(Lua51);
    f(Luau);
}

/// same expression tree in both dialects
fn ex2(src: &str, expected: &str) {
    both(|d| assert_eq!(ex(src, d), expected, "{:?} for {:?}", d, src));
}

fn sx2(src: &str, expected: &str) {
    both(|d| assert_eq!(sx(src, d), expected, "{:?} for {:?}", d, src));
}

fn err2(src: &str) {
    both(|d| {
        err(src, d);
    });
}

/// valid Luau, syntax error in Lua 5.1
#[allow(dead_code)]
fn luau_only(src: &str, expected: &str) {
    assert_eq!(sx(src, Luau), expected, "for {:?}", src);
    err(src, Lua51);
}

// ---------------------------------------------------------------- precedence

#[test]
fn arithmetic_precedence() {
    ex2("a+b*c", "(+ a (* b c))");
    ex2("a*b+c", "(+ (* a b) c)");
    ex2("a+b-c", "(- (+ a b) c)");
    ex2("a-b-c", "(- (- a b) c)");
    ex2("a/b/c", "(/ (/ a b) c)");
    ex2("a*b/c%d", "(% (/ (* a b) c) d)");
    ex2("a+b%c", "(+ a (% b c))");
    ex2("(a+b)*c", "(* (paren (+ a b)) c)");
}

#[test]
fn power_and_unary() {
    ex2("a^b^c", "(^ a (^ b c))");
    ex2("a^b^c^d", "(^ a (^ b (^ c d)))");
    ex2("-a^b", "(neg (^ a b))");
    ex2("-x^2", "(neg (^ x #2))");
    ex2("2^-3", "(^ #2 (neg #3))");
    ex2("2^-3^2", "(^ #2 (neg (^ #3 #2)))");
    ex2("a^b*c", "(* (^ a b) c)");
    ex2("a*b^c", "(* a (^ b c))");
    ex2("-a*b", "(* (neg a) b)");
    ex2("-a+b", "(+ (neg a) b)");
    ex2("- -a", "(neg (neg a))");
    ex2("not not a", "(not (not a))");
    ex2("-#a", "(neg (len a))");
    ex2("#a^2", "(len (^ a #2))");
    ex2("not a^b", "(not (^ a b))");
    ex2("-a..b", "(.. (neg a) b)");
    ex2("#t + 1", "(+ (len t) #1)");
    ex2("a^-b^c", "(^ a (neg (^ b c)))");
    ex2("a^not b", "(^ a (not b))");
    ex2("2^3^2*2", "(* (^ #2 (^ #3 #2)) #2)");
}

#[test]
fn concat_is_right_associative() {
    ex2("a..b..c", "(.. a (.. b c))");
    ex2("a..b..c..d", "(.. a (.. b (.. c d)))");
    ex2("a..b+c..d", "(.. a (.. (+ b c) d))");
    ex2("a+b..c", "(.. (+ a b) c)");
    ex2("a..b==c", "(== (.. a b) c)");
    ex2("a==b..c", "(== a (.. b c))");
    ex2("1 .. 2", "(.. #1 #2)");
    ex2("a..b^c..d", "(.. a (.. (^ b c) d))");
    ex2("a..-b..c", "(.. a (.. (neg b) c))");
    both(|d| {
        err("return 1..2", d);
    });
}

#[test]
fn comparison_and_logic() {
    ex2("not a == b", "(== (not a) b)");
    ex2("a<b<c", "(< (< a b) c)");
    ex2("a==b~=c", "(~= (== a b) c)");
    ex2("a<b==c>d", "(> (== (< a b) c) d)");
    ex2("a<=b>=c", "(>= (<= a b) c)");
    ex2("a+1<b*2", "(< (+ a #1) (* b #2))");
    ex2("a or b and c", "(or a (and b c))");
    ex2("a and b or c", "(or (and a b) c)");
    ex2("a or b or c", "(or (or a b) c)");
    ex2("a and b and c", "(and (and a b) c)");
    ex2("a == b and c == d", "(and (== a b) (== c d))");
    ex2("not a and b", "(and (not a) b)");
    ex2("a or not b", "(or a (not b))");
    ex2("a < b or c", "(or (< a b) c)");
    ex2("a .. b < c .. d", "(< (.. a b) (.. c d))");
    ex2("a and b == c or d", "(or (and a (== b c)) d)");
}

#[test]
fn floor_division_luau() {
    assert_eq!(ex("a//b", Luau), "(// a b)");
    assert_eq!(ex("a//b//c", Luau), "(// (// a b) c)");
    assert_eq!(ex("a+b//c", Luau), "(+ a (// b c))");
    assert_eq!(ex("a//b*c", Luau), "(* (// a b) c)");
    assert_eq!(ex("-a//b", Luau), "(// (neg a) b)");
    assert_eq!(ex("a//b^c", Luau), "(// a (^ b c))");
    err("return a//b", Lua51);
}

#[test]
fn long_operator_chains_do_not_hit_the_depth_limit() {
    both(|d| {
        let n = 3000;
        let concat = vec!["a"; n].join("..");
        let s = ex(&concat, d);
        assert!(s.starts_with("(.. a (.. a (.. a"));
        let add = vec!["a"; n].join("+");
        assert!(ex(&add, d).starts_with("(+ (+ (+"));
        let and = vec!["a"; n].join(" and ");
        assert!(ex(&and, d).starts_with("(and (and"));
        let pow = vec!["a"; n].join("^");
        assert!(ex(&pow, d).starts_with("(^ a (^ a"));
        let calls = format!("f{}", "()".repeat(n));
        assert!(ex(&calls, d).starts_with("(call (call"));
        let fields = format!("f{}", ".x".repeat(n));
        assert!(ex(&fields, d).starts_with("(. (. "));
    });
}

// ---------------------------------------------------------------- simple expressions

#[test]
fn literals() {
    ex2("nil", "nil");
    ex2("true", "true");
    ex2("false", "false");
    ex2("...", "...");
    ex2("1", "#1");
    ex2("0x1F", "#0x1F");
    ex2("1e3", "#1e3");
    ex2("'a'", "\"a\"");
    ex2("[[a]]", "\"a\"");
    ex2("'\\0\\255'", "\"\\x00\\xff\"");
    ex2("-1", "(neg #1)");
    ex2("(1)", "(paren #1)");
    ex2("((a))", "(paren (paren a))");
    ex2("(...)", "(paren ...)");
    ex2("(f())", "(paren (call f))");
}

#[test]
fn number_values_in_nodes() {
    both(|d| {
        let p = parse(b"return 0x10, 1.5, 1e400", d).unwrap();
        let nums: Vec<(Vec<u8>, f64)> = p.nodes.iter().filter(|n| n.k == "num").map(|n| (n.s.clone(), n.num)).collect();
        assert_eq!(
            nums,
            vec![(b"0x10".to_vec(), 16.0), (b"1.5".to_vec(), 1.5), (b"1e400".to_vec(), f64::INFINITY)]
        );
    });
}

#[test]
fn tables() {
    ex2("{}", "{}");
    ex2("{1, 2}", "{(pos #1) (pos #2)}");
    ex2("{1, 2,}", "{(pos #1) (pos #2)}");
    ex2("{1; 2;}", "{(pos #1) (pos #2)}");
    ex2("{a = 1, b = 2}", "{(named a #1) (named b #2)}");
    ex2("{[1] = 2, [k] = v}", "{(key #1 #2) (key k v)}");
    ex2("{a, b = 1, [c] = 2; d}", "{(pos a) (named b #1) (key c #2) (pos d)}");
    ex2("{a == b}", "{(pos (== a b))}");
    ex2("{f()}", "{(pos (call f))}");
    ex2("{...}", "{(pos ...)}");
    ex2("{{}, {{}}}", "{(pos {}) (pos {(pos {})})}");
    ex2("{[ [[k]] ] = 1}", "{(key \"k\" #1)}");
    ex2("{function() end}", "{(pos (fn [] []))}");
    ex2("{x = function() end, y = 2}", "{(named x (fn [] [])) (named y #2)}");
    err2("return {,}");
    err2("return {1,,2}");
    err2("return {;}");
    err2("return {a = }");
    err2("return {[1] 2}");
    err2("return {[1]}");
    err2("return {1 2}");
    err2("return {");
    err2("return {1");
    err2("return {1,");
    err2("return {a.b = 1}");
    err2("return {end = 1}");
}

#[test]
fn function_expressions() {
    ex2("function() end", "(fn [] [])");
    ex2("function(a) end", "(fn [a] [])");
    ex2("function(a, b) return a end", "(fn [a b] [(ret a)])");
    ex2("function(...) return ... end", "(fn [...] [(ret ...)])");
    ex2("function(a, ...) end", "(fn [a ...] [])");
    err2("return function(a,) end");
    err2("return function(..., a) end");
    err2("return function(a b) end");
    err2("return function(1) end");
    err2("return function() ");
    err2("return function end");
    err2("return function f() end");
    err2("return function(a, a.b) end");
    err2("return function(end) end");
}

#[test]
fn vararg_scope() {
    sx2("return ...", "[(ret ...)]");
    both(|d| {
        assert!(err("function f() return ... end", d).contains("outside a vararg function"));
        assert!(err("function f(...) return function() return ... end end", d).contains("outside a vararg function"));
    });
    sx2("function f(...) local a = ... end", "[(funcstmt f (fn [...] [(local [a] ...)]))]");
    let o = ParseOptions::syntax_only();
    both(|d| {
        assert!(parse_with_options(b"function f() return ... end", d, o).is_ok());
    });
}

// ---------------------------------------------------------------- prefix expressions / calls

#[test]
fn calls_and_indexing() {
    ex2("f()", "(call f)");
    ex2("f(a, b)", "(call f a b)");
    ex2("f(a)(b)", "(call (call f a) b)");
    ex2("f'str'", "(call f \"str\")");
    ex2("f\"str\"", "(call f \"str\")");
    ex2("f[[str]]", "(call f \"str\")");
    ex2("f{}", "(call f {})");
    ex2("f{1}", "(call f {(pos #1)})");
    ex2("f{}{}", "(call (call f {}) {})");
    ex2("f'a''b'", "(call (call f \"a\") \"b\")");
    ex2("o:m()", "(mcall o m)");
    ex2("o:m(1, 2)", "(mcall o m #1 #2)");
    ex2("o:m'str'", "(mcall o m \"str\")");
    ex2("o:m{}", "(mcall o m {})");
    ex2("a.b.c", "(. (. a b) c)");
    ex2("a[1][2]", "(index (index a #1) #2)");
    ex2("a.b[c].d", "(. (index (. a b) c) d)");
    ex2("a.b:c(d).e[f]()", "(call (index (. (mcall (. a b) c d) e) f))");
    ex2("a:b():c()", "(mcall (mcall a b) c)");
    ex2("(a).b", "(. (paren a) b)");
    ex2("(f)()", "(call (paren f))");
    ex2("('x'):rep(3)", "(mcall (paren \"x\") rep #3)");
    ex2("({}).x", "(. (paren {}) x)");
    ex2("a[ [[k]] ]", "(index a \"k\")");
    ex2("f(...)", "(call f ...)");
    ex2("f(function() end)", "(call f (fn [] []))");
    ex2("a.b'x'", "(call (. a b) \"x\")");
}

#[test]
fn long_string_call_edge() {
    // `t[[[x]]]` lexes as t, "[x", `]`: a string call followed by a stray `]`
    err2("return t[[[x]]]");
    ex2("t[[ [x] ]]", "(call t \" [x] \")");
}

#[test]
fn invalid_prefix_expressions() {
    err2("return 'x':rep(3)");
    err2("return 'x'.y");
    err2("return {}.x");
    err2("return 1.x");
    err2("return nil()");
    err2("return a.1");
    err2("return a.");
    err2("return a:");
    err2("return a:b");
    err2("return a:b.c");
    err2("return a.end");
    err2("return a:end()");
    err2("return a[");
    err2("return a[1");
    err2("return a[]");
    err2("return f(");
    err2("return f(a,)");
    err2("return f(,a)");
    err2("return ()");
    err2("return (a");
    err2("return (a,b)");
    err2("return a b");
    err2("return +a");
    err2("return a +");
    err2("return a == ");
    err2("return not");
    err2("return a..");
    err2("return *");
    err2("return function");
    err2("return a = b");
    err2("return 1 2");
    err2("return a, ");
    err2("return , a");
    err2("return a ~ b");
    err2("return a ! b");
}

#[test]
fn call_on_new_line_is_a_call() {
    sx2("f\n(g)()", "[(callstmt (call (call f g)))]");
    sx2("local a = f\n(g).x()", "[(local [a] (call (. (call f g) x)))]");
    sx2("a = b\n(c or d):m()", "[(assign [a] [(mcall (call b (or c d)) m)])]");
}

#[test]
fn ambiguous_call_option() {
    let o = ParseOptions { reject_ambiguous_call: true, ..ParseOptions::default() };
    both(|d| {
        assert!(parse_with_options(b"f\n(g)()", d, o).unwrap_err().message.contains("ambiguous"));
        assert!(parse_with_options(b"local x = f\n(g)()", d, o).unwrap_err().message.contains("ambiguous"));
        assert!(parse_with_options(b"x = [[a\nb]]\n(g)()", d, o).is_ok()); // a string is not a prefix expression
        assert!(parse_with_options(b"x = f[[a\nb]]\n(g)()", d, o).is_err());
        assert!(parse_with_options(b"x = f[[a\nb]](g)()", d, o).is_ok());
        assert!(parse_with_options(b"f(g)()\nf(\ng\n)(\n)", d, o).is_ok());
        assert!(parse_with_options(b"f(g)\n;(h)()", d, o).is_ok());
        assert!(parse_with_options(b"o:m\n()", d, o).is_err());
        assert!(parse_with_options(b"f\n'x'\nf\n{}", d, o).is_ok());
    });
}

// ---------------------------------------------------------------- statements

#[test]
fn locals_and_assignment() {
    sx2("local a", "[(local [a])]");
    sx2("local a, b, c", "[(local [a b c])]");
    sx2("local a = 1", "[(local [a] #1)]");
    sx2("local a, b = 1, 2, 3", "[(local [a b] #1 #2 #3)]");
    sx2("local a, b = f()", "[(local [a b] (call f))]");
    sx2("a = 1", "[(assign [a] [#1])]");
    sx2("a, b = b, a", "[(assign [a b] [b a])]");
    sx2("a.b, c[1], d = 1, 2", "[(assign [(. a b) (index c #1) d] [#1 #2])]");
    sx2("f().x = 1", "[(assign [(. (call f) x)] [#1])]");
    sx2("f()[1] = 1", "[(assign [(index (call f) #1)] [#1])]");
    sx2("(a).b = 1", "[(assign [(. (paren a) b)] [#1])]");
    sx2("a.b.c = f()", "[(assign [(. (. a b) c)] [(call f)])]");
    sx2("o:m().x = 1", "[(assign [(. (mcall o m) x)] [#1])]");
    err2("local");
    err2("local a,");
    err2("local a =");
    err2("local a = 1,");
    err2("local 1");
    err2("local a.b = 1");
    err2("local a[1] = 1");
    err2("local (a) = 1");
    err2("local end");
    err2("local function");
    err2("local function a.b() end");
    err2("local function a:b() end");
    err2("a");
    err2("a.b");
    err2("a[1]");
    err2("(a)");
    err2("(a) = 1");
    err2("f() = 1");
    err2("a, f() = 1, 2");
    err2("f(), a = 1, 2");
    err2("a, (b) = 1, 2");
    err2("o:m() = 1");
    err2("a = ");
    err2("a, = 1");
    err2("a b = 1");
    err2("1 = a");
    err2("'x' = a");
    err2("a = 1 = 2");
    err2("nil");
    err2("1");
    err2("'s'");
    err2("{}");
    err2("-a");
    err2("a + b");
    err2("a == b");
    err2("...");
    err2("function() end");
    err2("(f())");
    err2("(function() end)");
    err2("a, b");
    err2("a, b()");
}

#[test]
fn call_statements() {
    sx2("f()", "[(callstmt (call f))]");
    sx2("f'x'", "[(callstmt (call f \"x\"))]");
    sx2("f{}", "[(callstmt (call f {}))]");
    sx2("o:m()", "[(callstmt (mcall o m))]");
    sx2("a.b.c()", "[(callstmt (call (. (. a b) c)))]");
    sx2("(f)()", "[(callstmt (call (paren f)))]");
    sx2("(function() end)()", "[(callstmt (call (paren (fn [] []))))]");
    sx2("f()()", "[(callstmt (call (call f)))]");
    sx2("f() g()", "[(callstmt (call f)) (callstmt (call g))]");
    sx2("f();g()", "[(callstmt (call f)) (callstmt (call g))]");
    sx2("f() ; g() ;", "[(callstmt (call f)) (callstmt (call g))]");
    sx2("a = 1 b = 2", "[(assign [a] [#1]) (assign [b] [#2])]");
    sx2("a = b c()", "[(assign [a] [b]) (callstmt (call c))]");
    sx2("a = f\n'x'", "[(assign [a] [(call f \"x\")])]");
}

#[test]
fn semicolons() {
    sx2("", "[]");
    sx2("  -- only a comment\n", "[]");
    err2(";");
    err2(";;");
    err2("f();;");
    err2("; f()");
    err2("do ; end");
    sx2("do f(); end", "[(do [(callstmt (call f))])]");
    sx2("return;", "[(ret)]");
    sx2("return 1;", "[(ret #1)]");
    err2("return;;");
    err2("return 1;;");
}

#[test]
fn blocks_and_control_flow() {
    sx2("do end", "[(do [])]");
    sx2("do do end end", "[(do [(do [])])]");
    sx2("do local a = 1 end", "[(do [(local [a] #1)])]");
    sx2("while a do f() end", "[(while a [(callstmt (call f))])]");
    sx2("while true do end", "[(while true [])]");
    sx2("repeat f() until a", "[(repeat [(callstmt (call f))] a)]");
    sx2("repeat until a == b", "[(repeat [] (== a b))]");
    sx2("repeat local x = f() until x", "[(repeat [(local [x] (call f))] x)]");
    sx2("if a then end", "[(if a [])]");
    sx2("if a then f() end", "[(if a [(callstmt (call f))])]");
    sx2("if a then else end", "[(if a [] else [])]");
    sx2("if a then f() else g() end", "[(if a [(callstmt (call f))] else [(callstmt (call g))])]");
    sx2("if a then elseif b then end", "[(if a [] b [])]");
    sx2("if a then elseif b then elseif c then else end", "[(if a [] b [] c [] else [])]");
    sx2("if a then if b then end end", "[(if a [(if b [])])]");
    sx2("if a then else if b then end end", "[(if a [] else [(if b [])])]");
    err2("do");
    err2("do end end");
    err2("end");
    err2("while a do");
    err2("while a end");
    err2("while do end");
    err2("while a then end");
    err2("repeat until");
    err2("repeat f()");
    err2("repeat end");
    err2("until a");
    err2("if a then");
    err2("if a end");
    err2("if then end");
    err2("if a do end");
    err2("if a then else else end");
    err2("if a then else elseif b then end");
    err2("if a then elseif end");
    err2("if a then elseif b end");
    err2("else");
    err2("elseif a then");
    err2("then");
    err2("if a then end end");
    err2("do until a");
    err2("repeat do until a");
}

#[test]
fn for_loops() {
    sx2("for i = 1, 2 do end", "[(numfor i #1 #2 [])]");
    sx2("for i = 1, 2, 3 do f(i) end", "[(numfor i #1 #2 #3 [(callstmt (call f i))])]");
    sx2("for i = a+1, #t, -1 do end", "[(numfor i (+ a #1) (len t) (neg #1) [])]");
    sx2("for k in pairs(t) do end", "[(genfor [k] [(call pairs t)] [])]");
    sx2("for k, v in pairs(t) do end", "[(genfor [k v] [(call pairs t)] [])]");
    sx2("for a, b, c in f, s, i do end", "[(genfor [a b c] [f s i] [])]");
    sx2("for k, v in next, t do f() end", "[(genfor [k v] [next t] [(callstmt (call f))])]");
    err2("for i = 1 do end");
    err2("for i = 1, 2, 3, 4 do end");
    err2("for i = 1, 2 end");
    err2("for i = 1, 2 do");
    err2("for i, j = 1, 2 do end");
    err2("for i do end");
    err2("for i in do end");
    err2("for in x do end");
    err2("for = 1, 2 do end");
    err2("for a.b = 1, 2 do end");
    err2("for a.b in x do end");
    err2("for i = 1, 2, do end");
    err2("for i = , 2 do end");
    err2("for a, in x do end");
    err2("for a in x, do end");
    err2("for 1 = 1, 2 do end");
    err2("for");
}

#[test]
fn function_statements() {
    sx2("function f() end", "[(funcstmt f (fn [] []))]");
    sx2("function f(a, b) return a + b end", "[(funcstmt f (fn [a b] [(ret (+ a b))]))]");
    sx2("function a.b() end", "[(funcstmt a.b (fn [] []))]");
    sx2("function a.b.c(x) end", "[(funcstmt a.b.c (fn [x] []))]");
    sx2("function a:m() end", "[(funcstmt a:m (fn [] []))]");
    sx2("function a.b:m(x, ...) end", "[(funcstmt a.b:m (fn [x ...] []))]");
    sx2("local function f() end", "[(localfn f (fn [] []))]");
    sx2("local function f(...) return f(...) end", "[(localfn f (fn [...] [(ret (call f ...))]))]");
    // implicit self is not added
    both(|d| {
        let p = parse(b"function a.b:m(x) end", d).unwrap();
        let f = p.nodes.iter().find(|n| n.k == "funcstmt").unwrap();
        assert_eq!(f.ns, vec![b"a".to_vec(), b"b".to_vec()]);
        assert_eq!(f.s, b"m");
        let func = p.node(f.a).unwrap();
        assert_eq!(func.k, "fn");
        assert_eq!(func.ns, vec![b"x".to_vec()]);
        assert_eq!(func.c, 0);
        assert_eq!(p.node(func.b).unwrap().k, "block");
    });
    err2("function() end");
    err2("function f end");
    err2("function f()");
    err2("function f( end");
    err2("function a:b.c() end");
    err2("function a:b:c() end");
    err2("function a.() end");
    err2("function a[1]() end");
    err2("function a.b.() end");
    err2("function 1() end");
    err2("function (a)() end");
    err2("function f() end end");
    err2("function a.end() end");
}

#[test]
fn return_must_be_last() {
    sx2("return", "[(ret)]");
    sx2("return 1, 2", "[(ret #1 #2)]");
    sx2("return f()", "[(ret (call f))]");
    sx2("do return end", "[(do [(ret)])]");
    sx2("do return end f()", "[(do [(ret)]) (callstmt (call f))]");
    sx2("if a then return 1 else return 2 end", "[(if a [(ret #1)] else [(ret #2)])]");
    sx2("if a then return elseif b then return; end", "[(if a [(ret)] b [(ret)])]");
    sx2("repeat return until a", "[(repeat [(ret)] a)]");
    sx2("function f() return end", "[(funcstmt f (fn [] [(ret)]))]");
    sx2("f() return 1", "[(callstmt (call f)) (ret #1)]");
    both(|d| {
        assert!(err("return 1 f()", d).contains("last statement"));
        assert!(err("return; f()", d).contains("last statement"));
        err("return return", d);
        assert!(err("do return 1 local x end", d).contains("last statement"));
        assert!(err("function f() return 1 print(2) end", d).contains("last statement"));
        assert!(err("return 1 return 2", d).contains("last statement"));
        assert!(err("if a then return 1 x = 2 end", d).contains("last statement"));
    });
    // `return f` newline `()` is one statement
    sx2("return f\n()", "[(ret (call f))]");
}

#[test]
fn break_rules() {
    sx2("while a do break end", "[(while a [break])]");
    sx2("while a do break; end", "[(while a [break])]");
    sx2("while a do f() break end", "[(while a [(callstmt (call f)) break])]");
    sx2("repeat break until a", "[(repeat [break] a)]");
    sx2("for i = 1, 2 do break end", "[(numfor i #1 #2 [break])]");
    sx2("for k in p do if k then break end end", "[(genfor [k] [p] [(if k [break])])]");
    sx2("while a do do break end f() end", "[(while a [(do [break]) (callstmt (call f))])]");
    both(|d| {
        assert!(err("while a do break f() end", d).contains("last statement"));
        assert!(err("while a do break break end", d).contains("last statement"));
        assert!(err("while a do break; f() end", d).contains("last statement"));
        assert!(err("while a do break return end", d).contains("last statement"));
        assert!(err("break", d).contains("no loop"));
        assert!(err("do break end", d).contains("no loop"));
        assert!(err("if a then break end", d).contains("no loop"));
        assert!(err("while a do local function f() break end end", d).contains("no loop"));
        assert!(err("while a do f(function() break end) end", d).contains("no loop"));
        // the `until` condition is outside the loop body
        assert!(err("repeat until (function() break end)()", d).contains("no loop"));
    });
    let o = ParseOptions::syntax_only();
    both(|d| {
        assert_eq!(parse_with_options(b"break", d, o).unwrap().to_sexp(), "[break]");
        assert!(parse_with_options(b"break f()", d, o).is_err());
    });
}

#[test]
fn comments_are_trivia() {
    sx2("--[[ x ]] local --[==[ y ]==] a --z\n = --[[]] 1", "[(local [a] #1)]");
    sx2("f( -- c\n a --[[ b ]], b)", "[(callstmt (call f a b))]");
    sx2("--[[ unterminated ]] return", "[(ret)]");
}

#[test]
fn eof_expected() {
    err2("f() end");
    err2("f() )");
    err2("f() }");
    err2("f() ]");
    err2("return 1 end");
    err2("x = 1 until");
}

// ---------------------------------------------------------------- depth

#[test]
fn deep_nesting_is_an_error_not_a_crash() {
    both(|d| {
        for (open, close) in [("(", ")"), ("{", "}"), ("f(", ")"), ("a[", "]")] {
            let src = format!("return {}1{}", open.repeat(100_000), close.repeat(100_000));
            assert!(err(&src, d).contains("too many syntax levels"), "{}", open);
            let src = format!("return {}", open.repeat(100_000));
            err(&src, d);
        }
        for pre in ["- ", "not ", "#", "- - not "] {
            let src = format!("return {}1", pre.repeat(100_000));
            assert!(err(&src, d).contains("too many syntax levels"));
        }
        let src = format!("{}{}", "do ".repeat(100_000), "end ".repeat(100_000));
        assert!(err(&src, d).contains("too many syntax levels"));
        let src = "while a do ".repeat(100_000);
        err(&src, d);
        let src = "if a then ".repeat(100_000);
        err(&src, d);
        let src = "if a then else ".repeat(100_000);
        err(&src, d);
        let src = "function f() ".repeat(100_000);
        err(&src, d);
        let src = format!("return {}", "function() return ".repeat(100_000));
        err(&src, d);
        let src = format!("x = {}", "{ a = ".repeat(100_000));
        err(&src, d);
        let src = format!("x = {}", "a .. (".repeat(100_000));
        err(&src, d);
        let src = format!("x = {}", "a ^ -".repeat(100_000));
        err(&src, d);
        let src = "repeat ".repeat(100_000);
        err(&src, d);
        let src = "for i = 1, 2 do ".repeat(100_000);
        err(&src, d);
    });
    // Luau-only recursion paths
    for unit in [
        "local x: {",
        "local x: (",
        "local x: A<",
        "local x: () -> ",
        "local x: typeof(",
        "type A = {",
        "x = if a then ",
        "x = if a then b else ",
        "x = `{",
        "x = `a{`b{",
        "x = f<<",
        "x = a :: {",
        "x = a :: typeof(a :: typeof(",
        "local x: |",
        "local x: (A) -> (B) -> ",
        "local x: <T>(",
    ] {
        let src = unit.repeat(50_000);
        err(&src, Luau);
    }
    // moderately deep input parses fine
    both(|d| {
        let src = format!("return {}1{}", "(".repeat(150), ")".repeat(150));
        assert!(parse(src.as_bytes(), d).is_ok());
        let src = format!("{}{}", "do ".repeat(150), "end ".repeat(150));
        assert!(parse(src.as_bytes(), d).is_ok());
    });
}
