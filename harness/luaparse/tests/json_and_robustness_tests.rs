use luaparse::Dialect::{Lua51, Luau};
use luaparse::{json, lex, parse, parse_with_options, Dialect, Node, ParseOptions, Program};

// ---------------------------------------------------------------- JSON output

#[test]
fn json_records_are_uniform() {
    let src = b"local a = {1, 'x', [k] = f(...)} function a.b:c(d, ...) return -d end";
    for d in [Lua51, Luau] {
        let p = parse(src, d).unwrap();
        let v = p.to_json();
        assert_eq!(v["root"].as_u64().unwrap() as usize, p.root);
        let nodes = v["nodes"].as_array().unwrap();
        assert_eq!(nodes.len(), p.nodes.len());
        for n in nodes {
            let o = n.as_object().unwrap();
            let mut keys: Vec<&str> = o.keys().map(|k| k.as_str()).collect();
            keys.sort();
            assert_eq!(keys, vec!["a", "b", "c", "hi", "k", "l", "lo", "m", "ns", "s"]);
            assert!(o["k"].is_string());
            assert!(o["a"].is_u64() && o["b"].is_u64() && o["c"].is_u64());
            assert!(o["s"].is_string());
            assert!(o["l"].is_array() && o["m"].is_array() && o["ns"].is_array());
            assert!(o["hi"].is_i64() && o["lo"].is_i64());
        }
        // the text form parses back to the same value
        let text = p.to_json_string();
        assert!(text.is_ascii());
        let back: serde_json::Value = serde_json::from_str(&text).unwrap();
        assert_eq!(back, v);
        // key order of the text form
        let first = text.lines().nth(1).unwrap();
        let order: Vec<usize> =
            ["\"k\":", "\"a\":", "\"b\":", "\"c\":", "\"s\":", "\"l\":", "\"m\":", "\"ns\":", "\"hi\":", "\"lo\":"]
                .iter()
                .map(|k| first.find(k).unwrap())
                .collect();
        assert!(order.windows(2).all(|w| w[0] < w[1]));
    }
}

#[test]
fn json_ids_are_one_based_and_children_precede_parents() {
    let p = parse(b"local x = 1 + 2", Lua51).unwrap();
    assert_eq!(p.root, p.nodes.len());
    assert_eq!(p.node(0), None);
    assert_eq!(p.node(1).unwrap().k, "num");
    for (i, n) in p.nodes.iter().enumerate() {
        let id = i + 1;
        for child in [n.a, n.b].iter().chain(n.l.iter()).chain(n.m.iter()) {
            assert!(*child < id, "child {} of node {} ({})", child, id, n.k);
        }
        if n.k == "ifexp" || n.k == "if" {
            assert!(n.c < id);
        }
    }
    let root = p.node(p.root).unwrap();
    assert_eq!(root.k, "block");
}

#[test]
fn json_every_node_is_reachable_from_the_root() {
    // discarded constructs (types, attributes, contextual keywords) leave no orphans
    let src = "type A = typeof(f(1, 2)) local x: typeof(g{}) = 1 :: typeof(h) \
               @[deprecated{use='x'}] function f() end for i = 1, 2 do continue end const c = 1 \
               type function tf(a) return a + 1 end export type B = number";
    let p = parse(src.as_bytes(), Luau).unwrap();
    let mut seen = vec![false; p.nodes.len() + 1];
    let mut stack = vec![p.root];
    while let Some(id) = stack.pop() {
        if id == 0 || seen[id] {
            continue;
        }
        seen[id] = true;
        let n = p.node(id).unwrap();
        stack.extend([n.a, n.b]);
        if matches!(n.k.as_str(), "ifexp" | "if") {
            stack.push(n.c);
        }
        stack.extend(n.l.iter().copied());
        stack.extend(n.m.iter().copied());
    }
    for id in 1..=p.nodes.len() {
        assert!(seen[id], "node {} ({}) is unreachable", id, p.node(id).unwrap().k);
    }
}

#[test]
fn json_string_escaping_is_latin1_u00xx() {
    let p = parse(b"x = '\\0\\31 ~\\127\\128\\255\"\\\\\xc3\xa9'", Lua51).unwrap();
    let s = p.nodes.iter().find(|n| n.k == "str").unwrap();
    assert_eq!(s.s, b"\x00\x1f ~\x7f\x80\xff\"\\\xc3\xa9");
    let text = p.to_json_string();
    assert!(text.contains(r#""s":"\u0000\u001f ~\u007f\u0080\u00ff\u0022\u005c\u00c3\u00a9""#), "{}", text);
    // Value form: byte n is the character U+00nn
    let v = p.to_json();
    let js = v["nodes"][1]["s"].as_str().unwrap().to_string();
    let chars: Vec<u32> = js.chars().map(|c| c as u32).collect();
    assert_eq!(chars, vec![0, 0x1f, 0x20, 0x7e, 0x7f, 0x80, 0xff, 0x22, 0x5c, 0xc3, 0xa9]);
    // names go through the same path
    let mut n = Node::new("var");
    n.s = b"a\"b".to_vec();
    n.ns = vec![b"\xff".to_vec(), b"ok".to_vec()];
    let prog = Program { root: 1, nodes: vec![n] };
    let text = prog.to_json_string();
    assert!(text.contains(r#""s":"a\u0022b""#));
    assert!(text.contains(r#""ns":["\u00ff","ok"]"#));
    let back: serde_json::Value = serde_json::from_str(&text).unwrap();
    assert_eq!(back, prog.to_json());
}

#[test]
fn json_number_halves() {
    assert_eq!(json::hi_lo(0.0), (0, 0));
    assert_eq!(json::hi_lo(1.0), (0x3ff00000, 0));
    assert_eq!(json::hi_lo(-0.0), (i32::MIN, 0));
    assert_eq!(json::hi_lo(-1.0), (0xbff00000u32 as i32, 0));
    assert_eq!(json::hi_lo(0.1), (0x3fb99999, 0x9999999au32 as i32));
    assert_eq!(json::hi_lo(f64::INFINITY), (0x7ff00000, 0));
    assert_eq!(json::hi_lo(f64::MAX), (0x7fefffff, -1));
    assert_eq!(json::hi_lo(f64::from_bits(1)), (0, 1));
    // all NaNs are canonicalised
    assert_eq!(json::hi_lo(f64::NAN), (0x7ff80000, 0));
    assert_eq!(json::hi_lo(-f64::NAN), (0x7ff80000, 0));
    assert_eq!(json::hi_lo(f64::from_bits(0x7ff0_0000_0000_0001)), (0x7ff80000, 0));
    assert_eq!(json::hi_lo(f64::from_bits(0xfff8_dead_beef_0001)), (0x7ff80000, 0));

    let p = parse(b"return 0.1, 1e999, 0xffffffff, 3", Luau).unwrap();
    let v = p.to_json();
    let nums: Vec<(i64, i64, String)> = v["nodes"]
        .as_array()
        .unwrap()
        .iter()
        .filter(|n| n["k"] == "num")
        .map(|n| (n["hi"].as_i64().unwrap(), n["lo"].as_i64().unwrap(), n["s"].as_str().unwrap().to_string()))
        .collect();
    assert_eq!(
        nums,
        vec![
            (0x3fb99999, -1717986918, "0.1".to_string()),
            (0x7ff00000, 0, "1e999".to_string()),
            (0x41efffff, 0xffe00000u32 as i32 as i64, "0xffffffff".to_string()),
            (0x40080000, 0, "3".to_string()),
        ]
    );
    // non-number nodes carry 0/0
    assert!(v["nodes"].as_array().unwrap().iter().filter(|n| n["k"] != "num").all(|n| n["hi"] == 0 && n["lo"] == 0));
}

// ---------------------------------------------------------------- robustness

struct Lcg(u64);

impl Lcg {
    fn next(&mut self) -> u32 {
        self.0 = self.0.wrapping_mul(6364136223846793005).wrapping_add(1442695040888963407);
        (self.0 >> 33) as u32
    }
    fn below(&mut self, n: usize) -> usize {
        (self.next() as usize) % n
    }
}

fn exercise(src: &[u8]) {
    for d in [Lua51, Luau] {
        let _ = lex(src, d);
        if let Ok(p) = parse(src, d) {
            // whatever parses must serialise
            let text = p.to_json_string();
            assert!(text.is_ascii());
            let _ = p.to_sexp();
        }
        let _ = parse_with_options(src, d, ParseOptions::syntax_only());
        let _ = luaparse::parse_number_literal(src, d);
        let _ = luaparse::decode_short_string(src, d);
    }
}

#[test]
fn no_panic_on_random_bytes() {
    let mut rng = Lcg(0x5eed_1234_abcd_ef01);
    for _ in 0..4000 {
        let len = rng.below(64);
        let bytes: Vec<u8> = (0..len).map(|_| rng.next() as u8).collect();
        exercise(&bytes);
    }
    // ASCII-heavy noise gets deeper into the lexer
    for _ in 0..4000 {
        let len = rng.below(80);
        let bytes: Vec<u8> = (0..len).map(|_| (0x20 + rng.below(0x5f)) as u8).collect();
        exercise(&bytes);
    }
}

const FRAGMENTS: [&str; 96] = [
    "local", "function", "end", "if", "then", "else", "elseif", "while", "do", "for", "in", "repeat", "until",
    "return", "break", "continue", "type", "export", "const", "typeof", "nil", "true", "false", "and", "or", "not",
    "a", "b", "f", "x", "1", "2.5", "0x1F", "0b1", "1e3", "3..", "'s'", "\"t\"", "[[l]]", "[==[", "]==]", "`i", "{", "}",
    "`", "\\", "(", ")", "[", "]", "<", ">", "<<", ">>", "=", "==", "~=", "<=", ">=", "+", "-", "*", "/", "//", "%",
    "^", "#", "..", "...", ".", ":", "::", ",", ";", "->", "+=", "..=", "?", "|", "&", "@", "@[", "--", "--[[", "]]",
    "\n", " ", "\r", "\t", "read", "'", "\"", "\\z", "\\u{", "\\x4", "_",
];

#[test]
fn no_panic_on_token_soup() {
    let mut rng = Lcg(42);
    for _ in 0..6000 {
        let n = rng.below(30);
        let mut s = String::new();
        for _ in 0..n {
            s.push_str(FRAGMENTS[rng.below(FRAGMENTS.len())]);
            if rng.below(3) != 0 {
                s.push(' ');
            }
        }
        exercise(s.as_bytes());
    }
}

const SAMPLES: [&str; 4] = [
    "local t = { a = 1, [2] = 'two', three, f = function(x, ...) return x .. [[\nlong]] end }\n\
     for i = 1, #t, 2 do if t[i] then t[i] = -t[i] ^ 2 elseif not t then break else t:m 'x' end end\n\
     repeat local x = (f or g){ ... } until x == nil --[==[ done ]==]\n\
     function a.b.c:d(...) return ... end -- tail\n\
     while true do do return \"\\65\\n\\\"\", 0x10, 1e-3, .5 end end",
    "--!strict\nexport type T<A, B... = ...any> = ({ read x: A, [string]: (B...) -> A? } | typeof(y)) & Z.W<A>\n\
     local function f<U>(a: U, ...: number): (U, ...string) return a :: any, `n={a}{ {1} } \\{ {if a then 1 else 2} \\u{48}` end\n\
     @native @[deprecated{use='g'}] function g() for i: number = 1, 2 do if i then continue end x //= 2 x ..= 'a' end end\n\
     const k: number, l = f<<number, (string)>>(1), 0b1_0 type function tf(t) return t end\n\
     local v = if a then b elseif c then d else e",
    "x = 'unterminated\\\n continued' y = \"\\x41\\z   \\u{1F600}\" z = [=[ a ]] b ]=] w = a.b['c'].d(1)(2):e{}\n",
    "a, b.c, d[1] = 1, 2, 3; (f)(); local function r() return r() end; goto = 1",
];

#[test]
fn no_panic_on_truncations_and_mutations() {
    for s in SAMPLES.iter() {
        let bytes = s.as_bytes();
        // the samples themselves are valid in at least one dialect
        assert!(parse(bytes, Luau).is_ok() || parse(bytes, Lua51).is_ok(), "sample does not parse: {}", s);
        for cut in 0..=bytes.len() {
            exercise(&bytes[..cut]);
            exercise(&bytes[cut..]);
        }
        // single-byte deletions and substitutions
        let mut rng = Lcg(7);
        for i in 0..bytes.len() {
            let mut v = bytes.to_vec();
            v.remove(i);
            exercise(&v);
            let mut v = bytes.to_vec();
            v[i] = rng.next() as u8;
            exercise(&v);
            let mut v = bytes.to_vec();
            let punct: &[u8] = b"(){}[]`'\"\\\n-=<>.:";
            v[i] = punct[rng.below(punct.len())];
            exercise(&v);
        }
    }
}

#[test]
fn first_and_third_samples_are_lua51() {
    assert!(parse(SAMPLES[0].as_bytes(), Lua51).is_ok());
    assert!(parse(SAMPLES[0].as_bytes(), Luau).is_ok());
    assert!(parse(SAMPLES[3].as_bytes(), Lua51).is_ok());
    assert!(parse(SAMPLES[1].as_bytes(), Lua51).is_err());
}

#[test]
fn errors_carry_position() {
    for d in [Lua51, Luau] {
        let e = parse(b"local x = 1\nlocal y = = 2", d).unwrap_err();
        assert_eq!(e.line, 2);
        assert_eq!(e.offset, 22);
        assert!(e.to_string().contains("line 2"));
        let e = parse(b"x = 'abc", d).unwrap_err();
        assert!(e.message.contains("unfinished"));
        let e = parse(b"\n\nx = 3x", d).unwrap_err();
        assert_eq!(e.line, 3);
        assert!(e.message.contains("malformed number"));
        let e = lex(b"a\nb $", d).unwrap_err();
        assert_eq!((e.offset, e.line), (4, 2));
        assert!(e.to_string().contains("byte 4"));
    }
}

// ---------------------------------------------------------------- optional corpus check

fn collect(dir: &std::path::Path, out: &mut Vec<std::path::PathBuf>) {
    if let Ok(rd) = std::fs::read_dir(dir) {
        for e in rd.flatten() {
            let p = e.path();
            if p.is_dir() {
                collect(&p, out);
            } else if matches!(p.extension().and_then(|e| e.to_str()), Some("lua") | Some("luau")) {
                out.push(p);
            }
        }
    }
}

/// Input-only sanity check over Lua sources shipped with the tool under test (skipped when
/// the directories do not exist). Files listed in `EXPECTED_FAILURES` are known not to be
/// valid Luau for a documented reason.
#[test]
fn corpus_parses_in_luau_mode() {
    const EXPECTED_FAILURES: [(&str, &str); 1] =
        [("tests/fuzzed_test_cases/a.lua", "'continue' statement must be inside a loop")];
    let mut files = Vec::new();
    for dir in ["/repo/tests/test_cases", "/repo/tests/fuzzed_test_cases", "/repo/bench_content"] {
        collect(std::path::Path::new(dir), &mut files);
    }
    files.sort();
    let mut failures = Vec::new();
    for f in &files {
        let src = match std::fs::read(f) {
            Ok(s) => s,
            Err(_) => continue,
        };
        if let Err(e) = parse(&src, Dialect::Luau) {
            let name = f.to_string_lossy().to_string();
            let expected = EXPECTED_FAILURES.iter().any(|(n, m)| name.ends_with(n) && e.message.contains(m));
            if !expected {
                failures.push(format!("{}: {}", name, e));
            }
        }
        // with the context checks disabled everything must parse
        if let Err(e) = parse_with_options(&src, Dialect::Luau, ParseOptions::syntax_only()) {
            failures.push(format!("{} (syntax_only): {}", f.display(), e));
        }
    }
    assert!(failures.is_empty(), "corpus failures:\n{}", failures.join("\n"));
}
