use luaparse::Dialect::{Lua51, Luau};
use luaparse::{decode_short_string, lex, parse_number_literal, Dialect, TokKind, Token};

fn toks(src: &[u8], d: Dialect) -> Vec<Token> {
    let (mut t, _) = lex(src, d).unwrap_or_else(|e| panic!("lex failed for {:?}: {}", String::from_utf8_lossy(src), e));
    assert_eq!(t.last().map(|t| t.kind), Some(TokKind::Eof));
    t.pop();
    t
}

/// lexeme texts, space separated
fn texts(src: &str, d: Dialect) -> String {
    toks(src.as_bytes(), d)
        .iter()
        .map(|t| String::from_utf8_lossy(&t.text).to_string())
        .collect::<Vec<_>>()
        .join(" ")
}

fn lex_err(src: &[u8], d: Dialect) -> String {
    match lex(src, d) {
        Ok((t, _)) => panic!("expected lex error for {:?}, got {} tokens", String::from_utf8_lossy(src), t.len()),
        Err(e) => e.message,
    }
}

fn both(f: impl Fn(Dialect)) {
    f(Lua51);
    f(Luau);
}

fn one_string(src: &[u8], d: Dialect) -> Vec<u8> {
    let t = toks(src, d);
    assert_eq!(t.len(), 1, "expected a single token for {:?}", String::from_utf8_lossy(src));
    assert_eq!(t[0].kind, TokKind::String);
    t[0].str_value.clone().unwrap()
}

fn num(text: &str, d: Dialect) -> Option<f64> {
    parse_number_literal(text.as_bytes(), d)
}

// ---------------------------------------------------------------- basic tokens

#[test]
fn names_keywords_kinds() {
    both(|d| {
        let t = toks(b"local x_1 = nil and _y", d);
        let kinds: Vec<TokKind> = t.iter().map(|t| t.kind).collect();
        assert_eq!(
            kinds,
            vec![TokKind::Keyword, TokKind::Name, TokKind::Symbol, TokKind::Keyword, TokKind::Keyword, TokKind::Name]
        );
        assert_eq!(t[1].text, b"x_1");
        assert_eq!((t[1].start, t[1].end), (6, 9));
    });
    // contextual Luau keywords are plain names for the lexer
    let t = toks(b"continue type export typeof const", Luau);
    assert!(t.iter().all(|t| t.kind == TokKind::Name));
}

#[test]
fn all_keywords() {
    for k in luaparse::lexer::KEYWORDS.iter() {
        both(|d| {
            let t = toks(k.as_bytes(), d);
            assert_eq!(t[0].kind, TokKind::Keyword, "{}", k);
        });
    }
    both(|d| {
        let t = toks(b"endx andy Nil", d);
        assert!(t.iter().all(|t| t.kind == TokKind::Name));
    });
}

#[test]
fn symbols_maximal_munch_common() {
    both(|d| {
        assert_eq!(texts("a...b", d), "a ... b");
        assert_eq!(texts("a..b", d), "a .. b");
        assert_eq!(texts("a.b", d), "a . b");
        assert_eq!(texts("....", d), "... .");
        assert_eq!(texts(".....", d), "... ..");
        assert_eq!(texts("== ~= <= >= < > =", d), "== ~= <= >= < > =");
        assert_eq!(texts("===", d), "== =");
        assert_eq!(texts("<<", d), "< <");
        assert_eq!(texts(">>", d), "> >");
        assert_eq!(texts(">>=", d), "> >=");
        assert_eq!(texts("a<=b", d), "a <= b");
        assert_eq!(texts("( ) { } [ ] ; : , # + - * / % ^", d), "( ) { } [ ] ; : , # + - * / % ^");
    });
}

#[test]
fn symbols_luau_only() {
    assert_eq!(texts("a::b", Luau), "a :: b");
    assert_eq!(texts("a:::b", Luau), "a :: : b");
    assert_eq!(texts("a//b", Luau), "a // b");
    assert_eq!(texts("a//=b", Luau), "a //= b");
    assert_eq!(texts("a->b", Luau), "a -> b");
    assert_eq!(texts("+= -= *= /= %= ^= ..=", Luau), "+= -= *= /= %= ^= ..=");
    assert_eq!(texts("a..=b", Luau), "a ..= b");
    assert_eq!(texts("a...=b", Luau), "a ... = b");
    assert_eq!(texts("? & | @", Luau), "? & | @");
    assert_eq!(texts("T?|U&V", Luau), "T ? | U & V");
    assert_eq!(texts("f<<T>>(x)", Luau), "f < < T > > ( x )");
}

#[test]
fn symbols_lua51_split_luau_operators() {
    assert_eq!(texts("a::b", Lua51), "a : : b");
    assert_eq!(texts("a//b", Lua51), "a / / b");
    assert_eq!(texts("a+=b", Lua51), "a + = b");
    assert_eq!(texts("a..=b", Lua51), "a .. = b");
    assert_eq!(texts("a->b", Lua51), "a - > b");
    for s in ["?", "&", "|", "@", "`x`", "!", "~", "$", "\\"] {
        lex_err(s.as_bytes(), Lua51);
    }
    for s in ["!", "~", "$", "\\", "a != b"] {
        lex_err(s.as_bytes(), Luau);
    }
}

#[test]
fn non_ascii_and_nul_outside_strings() {
    both(|d| {
        lex_err(b"x = \xc3\xa9", d);
        lex_err(b"\xff", d);
        lex_err(b"x = 1 \0 y = 2", d);
    });
    // inside strings and comments bytes are free (NUL only in Lua 5.1)
    both(|d| {
        assert_eq!(one_string(b"'\xc3\xa9\xff'", d), b"\xc3\xa9\xff");
        let (t, c) = lex(b"--\xff\xfe\nx", d).unwrap();
        assert_eq!(t.len(), 2);
        assert_eq!(c.len(), 1);
    });
    assert_eq!(one_string(b"'a\0b'", Lua51), b"a\0b");
    assert_eq!(one_string(b"[[a\0b]]", Lua51), b"a\0b");
    assert!(lex(b"-- \0\nx", Lua51).is_ok());
    lex_err(b"'a\0b'", Luau);
    lex_err(b"[[a\0b]]", Luau);
    lex_err(b"-- \0\nx", Luau);
    lex_err(b"--[[ \0 ]]x", Luau);
}

#[test]
fn line_rule_counts_lf_only() {
    both(|d| {
        let t = toks(b"a\nb\r\nc\rd\n\re", d);
        let lines: Vec<usize> = t.iter().map(|t| t.line).collect();
        // LF bytes before: a:0 b:1 c:2 d:2 e:3
        assert_eq!(lines, vec![1, 2, 3, 3, 4]);
    });
    let e = lex(b"a\n\n  $", Lua51).unwrap_err();
    assert_eq!((e.offset, e.line), (5, 3));
}

#[test]
fn whitespace_set() {
    both(|d| {
        assert_eq!(texts("a\t\x0b\x0c\r\n b", d), "a b");
    });
}

// ---------------------------------------------------------------- numerals

#[test]
fn decimal_numerals() {
    both(|d| {
        assert_eq!(num("0", d), Some(0.0));
        assert_eq!(num("3", d), Some(3.0));
        assert_eq!(num("3.", d), Some(3.0));
        assert_eq!(num(".5", d), Some(0.5));
        assert_eq!(num("3.25", d), Some(3.25));
        assert_eq!(num("1e3", d), Some(1000.0));
        assert_eq!(num("1E3", d), Some(1000.0));
        assert_eq!(num("1e+3", d), Some(1000.0));
        assert_eq!(num("1.e3", d), Some(1000.0));
        assert_eq!(num(".5e1", d), Some(5.0));
        assert_eq!(num("25e-1", d), Some(2.5));
        assert_eq!(num("007", d), Some(7.0));
        assert_eq!(num("1e999", d), Some(f64::INFINITY));
        assert_eq!(num("1e-999", d), Some(0.0));
        assert_eq!(num("1e0000000000000000000001", d), Some(10.0));
        // correctly rounded
        assert_eq!(num("0.1", d), Some(0.1));
        assert_eq!(num("9007199254740993", d), Some(9007199254740992.0));
        assert_eq!(num("9007199254740993.0000000000000000000000000000001", d), Some(9007199254740994.0));
        assert_eq!(num("1.7976931348623157e308", d), Some(f64::MAX));
        assert_eq!(num("4.9406564584124654e-324", d), Some(f64::from_bits(1)));
        assert_eq!(num("2.2250738585072011e-308", d), Some(f64::from_bits(0x000f_ffff_ffff_ffff)));
    });
}

#[test]
fn malformed_numerals() {
    both(|d| {
        for s in [
            "1..2", "1.2.3", "3x", "0x", "0X", "3e", "3e+", "3E-", "1e5x", "1.5e", "0xg", "0x1g", "1.and",
            "3.e", "0x1p4", "0x.1", "12abc", "1_", ".5.", "0x1e+5x",
        ] {
            if d == Luau && s == "1_" {
                continue; // valid in Luau
            }
            // the whole text is one numeral-like run: the lexer must report an error
            let msg = lex_err(s.as_bytes(), d);
            assert!(msg.contains("malformed number"), "{} -> {}", s, msg);
        }
    });
    both(|d| {
        assert_eq!(num("", d), None);
        assert_eq!(num(".", d), None);
        assert_eq!(num("x1", d), None);
        assert_eq!(num("-1", d), None);
        assert_eq!(num(" 1", d), None);
        assert_eq!(num("1 ", d), None);
        assert_eq!(num("1e5x", d), None);
    });
}

#[test]
fn numeral_run_boundaries() {
    both(|d| {
        // exponent sign is only absorbed right after the digit run
        assert_eq!(texts("1e+5", d), "1e+5");
        assert_eq!(texts("0xE+5", d), "0xE + 5");
        assert_eq!(texts("0x1E+5", d), "0x1E + 5");
        assert_eq!(texts("1+2", d), "1 + 2");
        assert_eq!(texts("1 .. 2", d), "1 .. 2");
        assert_eq!(texts("1-2", d), "1 - 2");
        assert_eq!(texts("a.5", d), "a .5");
        assert_eq!(texts("x=.5", d), "x = .5");
        assert_eq!(texts("1,2", d), "1 , 2");
        // a '.' after the exponent / hex digits starts a new numeral (the parser rejects it)
        assert_eq!(texts("1e1.5", d), "1e1 .5");
        assert_eq!(texts("1e+5.2", d), "1e+5 .2");
        assert_eq!(texts("0x1.8", d), "0x1 .8");
    });
    both(|d| {
        lex_err(b"1..2", d);
        lex_err(b"x = 1..", d);
        lex_err(b"1.and x", d);
        lex_err(b"3do", d);
    });
}

#[test]
fn hex_numerals() {
    both(|d| {
        assert_eq!(num("0x10", d), Some(16.0));
        assert_eq!(num("0X1f", d), Some(31.0));
        assert_eq!(num("0xABCDEF", d), Some(11259375.0));
        assert_eq!(num("0x0", d), Some(0.0));
        assert_eq!(num("0xffffffffffffffff", d), Some(18446744073709551616.0));
        assert_eq!(num("0x7fffffffffffffff", d), Some(9223372036854775808.0));
        assert_eq!(num("0x20000000000001", d), Some(9007199254740992.0)); // 2^53+1 rounds to even
        assert_eq!(num("0x20000000000003", d), Some(9007199254740996.0));
    });
    // beyond 64 bits: Lua 5.1 (C99 strtod) rounds correctly, Luau saturates at 2^64
    assert_eq!(num("0x10000000000000000", Lua51), Some(18446744073709551616.0));
    assert_eq!(num("0x100000000000000000", Lua51), Some(295147905179352825856.0));
    assert_eq!(num("0x100000000000000000000000000000000000001", Lua51), Some(2f64.powi(152)));
    assert_eq!(num("0x10000000000000000", Luau), Some(18446744073709551616.0));
    assert_eq!(num("0x100000000000000000", Luau), Some(18446744073709551616.0));
    let huge = format!("0x1{}", "0".repeat(300));
    assert_eq!(num(&huge, Lua51), Some(f64::INFINITY));
}

#[test]
fn luau_binary_and_underscores() {
    assert_eq!(num("0b101", Luau), Some(5.0));
    assert_eq!(num("0B1111_0000", Luau), Some(240.0));
    assert_eq!(num("1_000_000", Luau), Some(1e6));
    assert_eq!(num("1_", Luau), Some(1.0));
    assert_eq!(num("1__0", Luau), Some(10.0));
    assert_eq!(num("0x_ff", Luau), Some(255.0));
    assert_eq!(num("0xff_", Luau), Some(255.0));
    assert_eq!(num("1_.5", Luau), Some(1.5));
    assert_eq!(num("1e1_0", Luau), Some(1e10));
    assert_eq!(num("0_x10", Luau), Some(16.0)); // underscores are stripped before classification
    assert_eq!(num(&format!("0b{}", "1".repeat(64)), Luau), Some(18446744073709551616.0));
    assert_eq!(num(&format!("0b1{}", "0".repeat(64)), Luau), Some(18446744073709551616.0)); // saturates
    for s in ["0b", "0b2", "0b102", "0b_", "0x_", "0b1.0", "0b1e1", "_1"] {
        assert_eq!(num(s, Luau), None, "{}", s);
    }
    // `_1` is a name, not a number
    assert_eq!(toks(b"_1", Luau)[0].kind, TokKind::Name);
    // Lua 5.1 has none of that
    for s in ["0b101", "1_000", "0x_ff", "1_"] {
        assert_eq!(num(s, Lua51), None, "{}", s);
        lex_err(s.as_bytes(), Lua51);
    }
}

#[test]
fn number_token_fields() {
    both(|d| {
        let t = toks(b"x = 0x1F", d);
        assert_eq!(t[2].kind, TokKind::Number);
        assert_eq!(t[2].text, b"0x1F");
        assert_eq!(t[2].num_value, Some(31.0));
        assert_eq!(t[2].str_value, None);
    });
}

// ---------------------------------------------------------------- short strings

#[test]
fn simple_escapes() {
    both(|d| {
        assert_eq!(one_string(br#""\a\b\f\n\r\t\v\\\"\'""#, d), b"\x07\x08\x0c\n\r\t\x0b\\\"'");
        assert_eq!(one_string(br#"'\a\b\f\n\r\t\v\\\"\''"#, d), b"\x07\x08\x0c\n\r\t\x0b\\\"'");
        assert_eq!(one_string(br#""it's""#, d), b"it's");
        assert_eq!(one_string(br#"'say "hi"'"#, d), b"say \"hi\"");
        assert_eq!(one_string(br#""""#, d), b"");
    });
}

#[test]
fn decimal_escapes() {
    both(|d| {
        assert_eq!(one_string(br#""\0""#, d), b"\0");
        assert_eq!(one_string(br#""\65""#, d), b"A");
        assert_eq!(one_string(br#""\065""#, d), b"A");
        assert_eq!(one_string(br#""\0651""#, d), b"A1");
        assert_eq!(one_string(br#""\255""#, d), b"\xff");
        assert_eq!(one_string(br#""\1a""#, d), b"\x01a");
        assert_eq!(one_string(br#""\12\13""#, d), b"\x0c\x0d");
        assert!(lex_err(br#""\256""#, d).contains("too large"));
        assert!(lex_err(br#""\999""#, d).contains("too large"));
    });
}

#[test]
fn line_continuation_escapes() {
    both(|d| {
        assert_eq!(one_string(b"'a\\\nb'", d), b"a\nb");
        assert_eq!(one_string(b"'a\\\rb'", d), b"a\nb");
        assert_eq!(one_string(b"'a\\\r\nb'", d), b"a\nb");
        assert_eq!(one_string(b"'a\\\n\\\nb'", d), b"a\n\nb");
    });
    // LF CR is one line break for llex.c; Luau leaves a raw CR behind (error)
    assert_eq!(one_string(b"'a\\\n\rb'", Lua51), b"a\nb");
    lex_err(b"'a\\\n\rb'", Luau);
    // CR LF CR: the pair then a raw CR
    both(|d| {
        lex_err(b"'a\\\r\n\rb'", d);
    });
}

#[test]
fn unknown_escapes_yield_the_character() {
    both(|d| {
        assert_eq!(one_string(br#""\q\%\/\ ""#, d), b"q%/ ");
        assert_eq!(one_string(b"'\\\xff'", d), b"\xff");
    });
    // Lua 5.1 has no \x \z \u: the letter itself
    assert_eq!(one_string(br#""\x41""#, Lua51), b"x41");
    assert_eq!(one_string(br#""\z  a""#, Lua51), b"z  a");
    assert_eq!(one_string(br#""\u{41}""#, Lua51), b"u{41}");
}

#[test]
fn luau_hex_escape() {
    assert_eq!(one_string(br#""\x41\x7a\xFf\x00""#, Luau), b"Az\xff\0");
    assert_eq!(one_string(br#""\x414""#, Luau), b"A4");
    for s in [&br#""\x4""#[..], br#""\x""#, br#""\xg0""#, br#""\x4g""#] {
        lex_err(s, Luau);
    }
}

#[test]
fn luau_z_escape() {
    assert_eq!(one_string(b"\"a\\z   b\"", Luau), b"ab");
    assert_eq!(one_string(b"\"a\\z\n\r\n\t \x0b\x0c b\"", Luau), b"ab");
    assert_eq!(one_string(b"\"a\\zb\"", Luau), b"ab");
    assert_eq!(one_string(b"\"a\\z\"", Luau), b"a");
    lex_err(b"\"a\\z  \n", Luau);
}

#[test]
fn luau_unicode_escape() {
    assert_eq!(one_string(br#""\u{41}""#, Luau), b"A");
    assert_eq!(one_string(br#""\u{0}""#, Luau), b"\0");
    assert_eq!(one_string(br#""\u{7f}""#, Luau), b"\x7f");
    assert_eq!(one_string(br#""\u{80}""#, Luau), b"\xc2\x80");
    assert_eq!(one_string(br#""\u{e9}""#, Luau), "é".as_bytes());
    assert_eq!(one_string(br#""\u{7FF}""#, Luau), b"\xdf\xbf");
    assert_eq!(one_string(br#""\u{800}""#, Luau), b"\xe0\xa0\x80");
    assert_eq!(one_string(br#""\u{20AC}""#, Luau), "€".as_bytes());
    assert_eq!(one_string(br#""\u{FFFF}""#, Luau), b"\xef\xbf\xbf");
    assert_eq!(one_string(br#""\u{10000}""#, Luau), b"\xf0\x90\x80\x80");
    assert_eq!(one_string(br#""\u{1F600}""#, Luau), "😀".as_bytes());
    assert_eq!(one_string(br#""\u{10FFFF}""#, Luau), b"\xf4\x8f\xbf\xbf");
    assert_eq!(one_string(br#""\u{0000041}""#, Luau), b"A");
    // surrogates: plain 3-byte encodings
    assert_eq!(one_string(br#""\u{D800}""#, Luau), b"\xed\xa0\x80");
    assert_eq!(one_string(br#""\u{DFFF}""#, Luau), b"\xed\xbf\xbf");
    for s in [
        &br#""\u{110000}""#[..],
        br#""\u{}""#,
        br#""\u41""#,
        br#""\u{41""#,
        br#""\u{4g}""#,
        br#""\u""#,
        br#""\u{ 41}""#,
        br#""\u{FFFFFFFFF}""#,
    ] {
        lex_err(s, Luau);
    }
}

#[test]
fn broken_short_strings() {
    both(|d| {
        assert!(lex_err(b"'abc", d).contains("unfinished"));
        assert!(lex_err(b"\"abc", d).contains("unfinished"));
        assert!(lex_err(b"'abc\n'", d).contains("unfinished"));
        assert!(lex_err(b"'abc\r'", d).contains("unfinished"));
        assert!(lex_err(b"'abc\\", d).contains("unfinished"));
        assert!(lex_err(b"'abc\\'", d).contains("unfinished"));
        assert!(lex_err(b"\"abc'", d).contains("unfinished"));
        lex_err(b"x = 'a' 'b", d);
    });
}

#[test]
fn decode_short_string_api() {
    both(|d| {
        assert_eq!(decode_short_string(br#""a\nb""#, d), Some(b"a\nb".to_vec()));
        assert_eq!(decode_short_string(br#"'a\'b'"#, d), Some(b"a'b".to_vec()));
        assert_eq!(decode_short_string(br#""""#, d), Some(vec![]));
        assert_eq!(decode_short_string(br#""a"#, d), None);
        assert_eq!(decode_short_string(br#""a"b""#, d), None);
        assert_eq!(decode_short_string(br#""a" "#, d), None);
        assert_eq!(decode_short_string(br#"a"#, d), None);
        assert_eq!(decode_short_string(br#"[[a]]"#, d), None);
        assert_eq!(decode_short_string(b"", d), None);
        assert_eq!(decode_short_string(b"\"", d), None);
        assert_eq!(decode_short_string(br#""\300""#, d), None);
    });
    assert_eq!(decode_short_string(br#""\x41""#, Luau), Some(b"A".to_vec()));
    assert_eq!(decode_short_string(br#""\x41""#, Lua51), Some(b"x41".to_vec()));
    assert_eq!(decode_short_string(b"`a`", Luau), None);
}

// ---------------------------------------------------------------- long brackets

#[test]
fn long_strings_basic() {
    both(|d| {
        assert_eq!(one_string(b"[[abc]]", d), b"abc");
        assert_eq!(one_string(b"[[]]", d), b"");
        assert_eq!(one_string(b"[=[abc]=]", d), b"abc");
        assert_eq!(one_string(b"[==[ ]] ]==]", d), b" ]] ");
        assert_eq!(one_string(b"[==[ ]=] ]==]", d), b" ]=] ");
        assert_eq!(one_string(b"[=[ ]==] ]=]", d), b" ]==] ");
        assert_eq!(one_string(b"[=[]]=]", d), b"]");
        assert_eq!(one_string(b"[=[a]]=]", d), b"a]");
        assert_eq!(one_string(b"[[a]=]]", d), b"a]=");
        assert_eq!(one_string(b"[[a\\nb]]", d), b"a\\nb"); // no escapes
        assert_eq!(one_string(b"[[a'\"b]]", d), b"a'\"b");
        assert_eq!(one_string(b"[====[x]====]", d), b"x");
        assert_eq!(one_string(b"[[ [[ nested ]]", d), b" [[ nested ");
        assert_eq!(one_string(b"[[\xff\xfe]]", d), b"\xff\xfe");
    });
}

#[test]
fn long_string_closing_edge_cases() {
    both(|d| {
        // `[[a]]]` = string "a" then `]`
        let t = toks(b"[[a]]]", d);
        assert_eq!(t.len(), 2);
        assert_eq!(t[0].str_value.as_deref(), Some(&b"a"[..]));
        assert_eq!(t[1].text, b"]");
        // t[[[x]]] = t, string "[x", ]
        let t = toks(b"t[[[x]]]", d);
        assert_eq!(t.len(), 3);
        assert_eq!(t[0].text, b"t");
        assert_eq!(t[1].kind, TokKind::String);
        assert_eq!(t[1].str_value.as_deref(), Some(&b"[x"[..]));
        assert_eq!(t[1].text, b"[[[x]]");
        assert_eq!(t[2].text, b"]");
        // a[ [[x]] ]
        assert_eq!(toks(b"a[ [[x]] ]", d).len(), 4);
        // `[=[ ]=` `]` never closes
        assert!(lex_err(b"[=[ ]= ]", d).contains("unfinished"));
        assert!(lex_err(b"[[abc", d).contains("unfinished"));
        assert!(lex_err(b"[[abc]", d).contains("unfinished"));
        assert!(lex_err(b"[==[abc]=]", d).contains("unfinished"));
        assert!(lex_err(b"[=", d).contains("invalid long string delimiter"));
        assert!(lex_err(b"[==x", d).contains("invalid long string delimiter"));
        assert!(lex_err(b"a = [=]", d).contains("invalid long string delimiter"));
        // plain `[`
        assert_eq!(texts("a[1]", d), "a [ 1 ]");
        assert_eq!(texts("[", d), "[");
    });
}

#[test]
fn long_string_first_newline() {
    both(|d| {
        assert_eq!(one_string(b"[[\nabc]]", d), b"abc");
        assert_eq!(one_string(b"[[\r\nabc]]", d), b"abc");
        assert_eq!(one_string(b"[[\n\nabc]]", d), b"\nabc");
        assert_eq!(one_string(b"[[\n]]", d), b"");
        assert_eq!(one_string(b"[==[\nabc]==]", d), b"abc");
        assert_eq!(one_string(b"[[ \nabc]]", d), b" \nabc");
        assert_eq!(one_string(b"[[a\nb]]", d), b"a\nb");
        assert_eq!(one_string(b"[[a\r\nb]]", d), b"a\nb");
    });
    // Lua 5.1: CR and LF CR are newlines too, and every newline sequence becomes LF
    assert_eq!(one_string(b"[[\rabc]]", Lua51), b"abc");
    assert_eq!(one_string(b"[[\n\rabc]]", Lua51), b"abc");
    assert_eq!(one_string(b"[[\r\rabc]]", Lua51), b"\nabc");
    assert_eq!(one_string(b"[[a\rb]]", Lua51), b"a\nb");
    assert_eq!(one_string(b"[[a\n\rb]]", Lua51), b"a\nb");
    assert_eq!(one_string(b"[[a\r\n\r\nb]]", Lua51), b"a\n\nb");
    // Luau: only LF / CR LF are recognised; a lone CR is kept verbatim
    assert_eq!(one_string(b"[[\rabc]]", Luau), b"\rabc");
    assert_eq!(one_string(b"[[\n\rabc]]", Luau), b"\rabc");
    assert_eq!(one_string(b"[[a\rb]]", Luau), b"a\rb");
    assert_eq!(one_string(b"[[a\n\rb]]", Luau), b"a\n\rb");
    assert_eq!(one_string(b"[[a\r\n\r\nb]]", Luau), b"a\n\nb");
}

// ---------------------------------------------------------------- comments

#[test]
fn comments() {
    both(|d| {
        let (t, c) = lex(b"a -- hello\nb --[[ long\n ]] c --[==[ x ]] ]==] d --", d).unwrap();
        let names: Vec<&[u8]> = t.iter().filter(|t| t.kind == TokKind::Name).map(|t| &t.text[..]).collect();
        assert_eq!(names, vec![&b"a"[..], b"b", b"c", b"d"]);
        assert_eq!(c.len(), 4);
        assert_eq!(c[0].text, b"-- hello");
        assert!(!c[0].long);
        assert_eq!((c[0].start, c[0].end, c[0].line), (2, 10, 1));
        assert_eq!(c[1].text, b"--[[ long\n ]]");
        assert!(c[1].long);
        assert_eq!(c[1].line, 2);
        assert_eq!(c[2].text, b"--[==[ x ]] ]==]");
        assert!(c[2].long);
        assert_eq!(c[3].text, b"--");
        assert!(!c[3].long);
    });
}

#[test]
fn comment_edge_cases() {
    both(|d| {
        // CR ends a line comment
        let (t, c) = lex(b"--x\ry", d).unwrap();
        assert_eq!(c[0].text, b"--x");
        assert_eq!(t[0].text, b"y");
        // `--[==` without the second bracket is a line comment
        let (t, c) = lex(b"--[== not long\nx", d).unwrap();
        assert_eq!(c[0].text, b"--[== not long");
        assert!(!c[0].long);
        assert_eq!(t[0].text, b"x");
        // `--[` alone, `-- [[` (space) are line comments
        let (t, _) = lex(b"--[ a\nx", d).unwrap();
        assert_eq!(t[0].text, b"x");
        let (t, c) = lex(b"-- [[ a\nx ]]", d).unwrap();
        assert!(!c[0].long);
        assert_eq!(t[0].text, b"x");
        // unterminated long comment
        assert!(lex_err(b"--[[ abc", d).contains("unfinished"));
        assert!(lex_err(b"--[=[ abc ]]", d).contains("unfinished"));
        // `---[[` is a line comment
        let (t, c) = lex(b"---[[ a\nx", d).unwrap();
        assert!(!c[0].long);
        assert_eq!(t[0].text, b"x");
        // minus followed by comment
        assert_eq!(texts("a - --c\n b", d), "a - b");
        assert_eq!(texts("a---c\n-b", d), "a - b");
    });
}

// ---------------------------------------------------------------- interpolated strings

fn kinds_and_values(src: &[u8]) -> Vec<(TokKind, Vec<u8>)> {
    toks(src, Luau)
        .into_iter()
        .map(|t| {
            let v = t.str_value.clone().unwrap_or_else(|| t.text.clone());
            (t.kind, v)
        })
        .collect()
}

#[test]
fn interp_tokens() {
    use TokKind::*;
    assert_eq!(kinds_and_values(b"`abc`"), vec![(InterpSimple, b"abc".to_vec())]);
    assert_eq!(kinds_and_values(b"``"), vec![(InterpSimple, vec![])]);
    assert_eq!(
        kinds_and_values(b"`a{x}b`"),
        vec![(InterpBegin, b"a".to_vec()), (Name, b"x".to_vec()), (InterpEnd, b"b".to_vec())]
    );
    assert_eq!(
        kinds_and_values(b"`{x}{y}`"),
        vec![
            (InterpBegin, vec![]),
            (Name, b"x".to_vec()),
            (InterpMid, vec![]),
            (Name, b"y".to_vec()),
            (InterpEnd, vec![])
        ]
    );
    // braces inside the expression are balanced by the brace stack
    let k: Vec<TokKind> = toks(b"`a{ {1, {2}} }b`", Luau).iter().map(|t| t.kind).collect();
    assert_eq!(k, vec![InterpBegin, Symbol, Number, Symbol, Symbol, Number, Symbol, Symbol, InterpEnd]);
    // nested interpolated strings
    let k: Vec<TokKind> = toks(b"`a{`b{c}d`}e`", Luau).iter().map(|t| t.kind).collect();
    assert_eq!(k, vec![InterpBegin, InterpBegin, Name, InterpEnd, InterpEnd]);
    // raw lexemes
    let t = toks(b"`a{x}b`", Luau);
    assert_eq!(t[0].text, b"`a{");
    assert_eq!(t[2].text, b"}b`");
    // a `}` with an empty brace stack is an ordinary symbol
    assert_eq!(toks(b"}", Luau)[0].kind, Symbol);
    // after the string is closed, braces are normal again
    let k: Vec<TokKind> = toks(b"`{x}` }", Luau).iter().map(|t| t.kind).collect();
    assert_eq!(k, vec![InterpBegin, Name, InterpEnd, Symbol]);
}

#[test]
fn interp_escapes_and_errors() {
    use TokKind::*;
    assert_eq!(kinds_and_values(br#"`a\{b\}c`"#), vec![(InterpSimple, b"a{b}c".to_vec())]);
    assert_eq!(kinds_and_values(br#"`\`\n\x41\u{41}\65\\`"#), vec![(InterpSimple, b"`\nAAA\\".to_vec())]);
    assert_eq!(kinds_and_values(b"`a\\\nb`"), vec![(InterpSimple, b"a\nb".to_vec())]);
    assert_eq!(kinds_and_values(b"`a\\z \n b`"), vec![(InterpSimple, b"ab".to_vec())]);
    assert_eq!(kinds_and_values(b"`'\"`"), vec![(InterpSimple, b"'\"".to_vec())]);
    assert_eq!(kinds_and_values(b"`a}b`"), vec![(InterpSimple, b"a}b".to_vec())]);
    assert!(lex_err(b"`a{{b}}`", Luau).contains("double braces"));
    assert!(lex_err(b"`{{`", Luau).contains("double braces"));
    assert!(lex_err(b"`a{x}{{`", Luau).contains("double braces"));
    assert!(lex_err(b"`abc", Luau).contains("unfinished"));
    assert!(lex_err(b"`abc\n`", Luau).contains("unfinished"));
    assert!(lex_err(b"`a{x}b", Luau).contains("unfinished"));
    assert!(lex_err(b"`a{x}b\n`", Luau).contains("unfinished"));
    lex_err(b"`\\x4`", Luau);
    lex_err(b"`a`", Lua51);
}
