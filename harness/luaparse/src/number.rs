//! Numeral validation and evaluation, following `llex.c read_numeral` +
//! `luaO_str2d` (Lua 5.1) and Luau's `Lexer::readNumber` + `Parser::parseNumber`.

use crate::Dialect;

/// Policy for Luau hexadecimal / binary literals that do not fit in 64 bits.
///
/// Reference Luau evaluates such literals with `strtoull`, which *saturates* at
/// `ULLONG_MAX` (the linter then reports "literal exceeded available precision and
/// was truncated to 2^64"). With `true` (the default, reference behaviour) the value
/// is `ULLONG_MAX as f64 == 2^64`; with `false` the integer is reduced modulo 2^64.
pub const LUAU_INT_OVERFLOW_SATURATES: bool = true;

fn is_hex(c: u8) -> bool {
    c.is_ascii_hexdigit()
}

fn hex_val(c: u8) -> u64 {
    match c {
        b'0'..=b'9' => (c - b'0') as u64,
        b'a'..=b'f' => (c - b'a' + 10) as u64,
        b'A'..=b'F' => (c - b'A' + 10) as u64,
        _ => 0,
    }
}

/// Decimal numeral `digits [. digits] [eE [+-] digits]` with at least one mantissa
/// digit; correctly rounded through Rust's `f64::from_str`.
fn parse_decimal(t: &[u8]) -> Option<f64> {
    let n = t.len();
    let mut i = 0;
    let int_start = i;
    while i < n && t[i].is_ascii_digit() {
        i += 1;
    }
    let int_part = &t[int_start..i];
    let mut frac_part: &[u8] = &[];
    if i < n && t[i] == b'.' {
        i += 1;
        let fs = i;
        while i < n && t[i].is_ascii_digit() {
            i += 1;
        }
        frac_part = &t[fs..i];
    }
    if int_part.is_empty() && frac_part.is_empty() {
        return None;
    }
    let mut exp_neg = false;
    let mut exp_part: &[u8] = &[];
    if i < n && (t[i] == b'e' || t[i] == b'E') {
        i += 1;
        if i < n && (t[i] == b'+' || t[i] == b'-') {
            exp_neg = t[i] == b'-';
            i += 1;
        }
        let es = i;
        while i < n && t[i].is_ascii_digit() {
            i += 1;
        }
        exp_part = &t[es..i];
        if exp_part.is_empty() {
            return None;
        }
    }
    if i != n {
        return None;
    }
    // Build a normalised spelling that Rust's parser is guaranteed to accept.
    let mut s = String::with_capacity(n + 4);
    if int_part.is_empty() {
        s.push('0');
    } else {
        s.push_str(std::str::from_utf8(int_part).ok()?);
    }
    s.push('.');
    if frac_part.is_empty() {
        s.push('0');
    } else {
        s.push_str(std::str::from_utf8(frac_part).ok()?);
    }
    if !exp_part.is_empty() {
        s.push('e');
        if exp_neg {
            s.push('-');
        }
        // strip leading zeros of the exponent but keep at least one digit
        let mut e = exp_part;
        while e.len() > 1 && e[0] == b'0' {
            e = &e[1..];
        }
        // absurdly long exponents: clamp (the value is 0 or inf anyway)
        if e.len() > 18 {
            s.push_str("999999999999999999");
        } else {
            s.push_str(std::str::from_utf8(e).ok()?);
        }
    }
    s.parse::<f64>().ok()
}

/// Correctly rounded (round-to-nearest-even) value of an arbitrarily long
/// hexadecimal integer, i.e. what a C99 `strtod` returns for `0x<digits>`.
fn hex_integer_rounded(digits: &[u8]) -> f64 {
    let mut m: u128 = 0;
    let mut extra_digits: i32 = 0;
    let mut sticky = false;
    for &d in digits {
        let v = hex_val(d) as u128;
        if m >> 120 == 0 {
            m = (m << 4) | v;
        } else {
            extra_digits = extra_digits.saturating_add(1);
            if v != 0 {
                sticky = true;
            }
        }
    }
    if sticky {
        m |= 1; // m has >= 117 significant bits here, bit 0 is far below the rounding position
    }
    let mut r = m as f64; // u128 -> f64 is round-to-nearest-even
    let mut k = extra_digits;
    while k > 0 && r.is_finite() {
        let step = k.min(64);
        r *= 2f64.powi(4 * step);
        k -= step;
    }
    r
}

fn wrapping_or_saturating(digits: &[u8], base: u64) -> f64 {
    let mut v: u64 = 0;
    let mut overflow = false;
    for &d in digits {
        let dv = hex_val(d);
        let (m, o1) = v.overflowing_mul(base);
        let (a, o2) = m.overflowing_add(dv);
        if o1 || o2 {
            overflow = true;
        }
        v = a;
    }
    if overflow && LUAU_INT_OVERFLOW_SATURATES {
        u64::MAX as f64
    } else {
        v as f64
    }
}

/// Value of a complete numeral spelling, or `None` if the reference lexer/parser of the
/// dialect would report a malformed number for exactly this lexeme.
pub fn parse_number_literal(text: &[u8], dialect: Dialect) -> Option<f64> {
    if text.is_empty() {
        return None;
    }
    // a numeral starts with a digit, or with '.' followed by a digit
    let first_ok = text[0].is_ascii_digit()
        || (text[0] == b'.' && text.len() > 1 && text[1].is_ascii_digit());
    if !first_ok {
        return None;
    }
    match dialect {
        Dialect::Lua51 => {
            if text.len() >= 2 && text[0] == b'0' && (text[1] == b'x' || text[1] == b'X') {
                let d = &text[2..];
                if d.is_empty() || !d.iter().all(|&c| is_hex(c)) {
                    return None; // includes hex floats (0x1p4), which we reject on purpose
                }
                Some(hex_integer_rounded(d))
            } else {
                parse_decimal(text)
            }
        }
        Dialect::Luau => {
            // Parser::parseNumber: remove every '_' first, then classify.
            let stripped: Vec<u8> = text.iter().copied().filter(|&c| c != b'_').collect();
            let t = &stripped[..];
            if t.len() > 2 && t[0] == b'0' && (t[1] == b'b' || t[1] == b'B') {
                let d = &t[2..];
                if !d.iter().all(|&c| c == b'0' || c == b'1') {
                    return None;
                }
                return Some(wrapping_or_saturating(d, 2));
            }
            if t.len() > 2 && t[0] == b'0' && (t[1] == b'x' || t[1] == b'X') {
                let d = &t[2..];
                if !d.iter().all(|&c| is_hex(c)) {
                    return None;
                }
                return Some(wrapping_or_saturating(d, 16));
            }
            parse_decimal(t)
        }
    }
}

/// Length of the numeral-like run starting at `src[pos]` (which must be a digit, or a
/// '.' followed by a digit). This is the *skipping* phase of both reference lexers.
pub(crate) fn scan_number_run(src: &[u8], pos: usize, dialect: Dialect) -> usize {
    let n = src.len();
    let luau = dialect == Dialect::Luau;
    let mut i = pos;
    // do { consume } while digit | '.' | ('_' in Luau)
    i += 1;
    while i < n && (src[i].is_ascii_digit() || src[i] == b'.' || (luau && src[i] == b'_')) {
        i += 1;
    }
    if i < n && (src[i] == b'e' || src[i] == b'E') {
        i += 1;
        if i < n && (src[i] == b'+' || src[i] == b'-') {
            i += 1;
        }
    }
    while i < n && (src[i].is_ascii_alphanumeric() || src[i] == b'_') {
        i += 1;
    }
    i - pos
}
