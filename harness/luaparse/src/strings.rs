//! Short-string / interpolated-string segment scanning and escape decoding.
//!
//! Lua 5.1 follows `llex.c read_string` (single pass). Luau follows the two-phase
//! `Lexer::readQuotedString` / `readInterpolatedStringSection` (skip) and
//! `Lexer::fixupQuotedString` (decode); both phases are fused here but keep the same
//! accept/reject behaviour.

use crate::Dialect;

fn is_space(c: u8) -> bool {
    matches!(c, b' ' | b'\t' | b'\n' | 0x0b | 0x0c | b'\r')
}

fn hex_val(c: u8) -> u32 {
    match c {
        b'0'..=b'9' => (c - b'0') as u32,
        b'a'..=b'f' => (c - b'a' + 10) as u32,
        b'A'..=b'F' => (c - b'A' + 10) as u32,
        _ => 0,
    }
}

fn push_utf8(out: &mut Vec<u8>, code: u32) {
    // Luau `toUtf8`: plain encoding, surrogates are not special-cased.
    if code < 0x80 {
        out.push(code as u8);
    } else if code < 0x800 {
        out.push(0xC0 | (code >> 6) as u8);
        out.push(0x80 | (code & 0x3F) as u8);
    } else if code < 0x10000 {
        out.push(0xE0 | (code >> 12) as u8);
        out.push(0x80 | ((code >> 6) & 0x3F) as u8);
        out.push(0x80 | (code & 0x3F) as u8);
    } else {
        out.push(0xF0 | (code >> 18) as u8);
        out.push(0x80 | ((code >> 12) & 0x3F) as u8);
        out.push(0x80 | ((code >> 6) & 0x3F) as u8);
        out.push(0x80 | (code & 0x3F) as u8);
    }
}

/// How a scanned string segment ended.
#[derive(Debug, Clone, Copy, PartialEq, Eq)]
pub(crate) enum SegEnd {
    /// the closing delimiter (quote or backtick) was consumed
    Delim,
    /// (interpolated strings only) an opening `{` was consumed
    Brace,
}

pub(crate) struct StrErr {
    pub offset: usize,
    pub message: String,
}

fn err<T>(offset: usize, message: &str) -> Result<T, StrErr> {
    Err(StrErr { offset, message: message.to_string() })
}

/// Scan a string segment whose first content byte is at `pos`.
///
/// `delim` is `'`, `"` or `` ` ``. When `delim` is a backtick the segment also ends at an
/// unescaped `{` (and `{{` is an error). Returns the decoded bytes, how the segment
/// ended and the position just after the terminator.
pub(crate) fn scan_segment(
    src: &[u8],
    pos: usize,
    delim: u8,
    dialect: Dialect,
) -> Result<(Vec<u8>, SegEnd, usize), StrErr> {
    let n = src.len();
    let luau = dialect == Dialect::Luau;
    let interp = delim == b'`';
    let mut out = Vec::new();
    let mut i = pos;
    loop {
        if i >= n {
            return err(i, "unfinished string");
        }
        let c = src[i];
        if c == delim {
            return Ok((out, SegEnd::Delim, i + 1));
        }
        match c {
            b'\n' | b'\r' => return err(i, "unfinished string (unescaped newline in string)"),
            0 if luau => {
                // Luau's lexer treats a NUL byte as end of input.
                return err(i, "NUL byte in string literal (Luau treats it as end of input)");
            }
            b'{' if interp => {
                if i + 1 < n && src[i + 1] == b'{' {
                    return err(
                        i,
                        "double braces are not permitted within interpolated strings; did you mean '\\{'?",
                    );
                }
                return Ok((out, SegEnd::Brace, i + 1));
            }
            b'\\' => {
                i += 1;
                if i >= n {
                    return err(i, "unfinished string");
                }
                let e = src[i];
                match e {
                    b'a' => { out.push(7); i += 1; }
                    b'b' => { out.push(8); i += 1; }
                    b'f' => { out.push(12); i += 1; }
                    b'n' => { out.push(10); i += 1; }
                    b'r' => { out.push(13); i += 1; }
                    b't' => { out.push(9); i += 1; }
                    b'v' => { out.push(11); i += 1; }
                    b'\n' => {
                        out.push(b'\n');
                        i += 1;
                        // llex.c inclinenumber: LF CR is one line break. Luau leaves the CR in
                        // the string body, where it is an (erroneous) raw newline: handled by
                        // the next loop iteration.
                        if !luau && i < n && src[i] == b'\r' {
                            i += 1;
                        }
                    }
                    b'\r' => {
                        out.push(b'\n');
                        i += 1;
                        if i < n && src[i] == b'\n' {
                            i += 1;
                        }
                    }
                    b'0'..=b'9' => {
                        let mut code: u32 = 0;
                        let mut k = 0;
                        while k < 3 && i < n && src[i].is_ascii_digit() {
                            code = code * 10 + (src[i] - b'0') as u32;
                            i += 1;
                            k += 1;
                        }
                        if code > 255 {
                            return err(i, "escape sequence too large");
                        }
                        out.push(code as u8);
                    }
                    b'x' if luau => {
                        i += 1;
                        let mut code: u32 = 0;
                        for _ in 0..2 {
                            if i >= n || !src[i].is_ascii_hexdigit() {
                                return err(i, "malformed \\x escape: exactly two hexadecimal digits expected");
                            }
                            code = code * 16 + hex_val(src[i]);
                            i += 1;
                        }
                        out.push(code as u8);
                    }
                    b'z' if luau => {
                        i += 1;
                        while i < n && is_space(src[i]) {
                            i += 1;
                        }
                    }
                    b'u' if luau => {
                        i += 1;
                        if i >= n || src[i] != b'{' {
                            return err(i, "malformed \\u escape: '{' expected");
                        }
                        i += 1;
                        if i >= n || src[i] == b'}' {
                            return err(i, "malformed \\u escape: hexadecimal digits expected");
                        }
                        let mut code: u64 = 0;
                        let mut k = 0;
                        while k < 16 && i < n && src[i].is_ascii_hexdigit() {
                            code = code.wrapping_mul(16).wrapping_add(hex_val(src[i]) as u64);
                            if code > 0x10FFFF {
                                return err(i, "malformed \\u escape: code point too large");
                            }
                            i += 1;
                            k += 1;
                        }
                        if i >= n || src[i] != b'}' {
                            return err(i, "malformed \\u escape: '}' expected");
                        }
                        i += 1;
                        push_utf8(&mut out, code as u32);
                    }
                    0 if luau => {
                        return err(i, "NUL byte in string literal (Luau treats it as end of input)");
                    }
                    _ => {
                        // `\\`, `\"`, `\'`, `\{`, and any other byte: the byte itself
                        // (llex.c default branch; Luau `unescape` default).
                        out.push(e);
                        i += 1;
                    }
                }
            }
            _ => {
                out.push(c);
                i += 1;
            }
        }
    }
}

/// Decode a complete short string literal *including* its quotes.
pub fn decode_short_string(body_with_quotes: &[u8], dialect: Dialect) -> Option<Vec<u8>> {
    let b = body_with_quotes;
    if b.len() < 2 {
        return None;
    }
    let q = b[0];
    if q != b'"' && q != b'\'' {
        return None;
    }
    match scan_segment(b, 1, q, dialect) {
        Ok((v, SegEnd::Delim, end)) if end == b.len() => Some(v),
        _ => None,
    }
}
