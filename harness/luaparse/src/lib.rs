//! `luaparse`: an independent lexer + recursive-descent parser for Lua 5.1 and Luau.
//!
//! Written from the reference definitions (Lua 5.1 manual, `llex.c`/`lparser.c`; Luau
//! `Lexer.cpp`/`Parser.cpp`) to serve as an oracle that re-reads generated code. Output
//! is the flat node table of `/verif/spec/lua/NODEFORMAT.md`.
//!
//! # Documented dialect decisions
//!
//! Lexing
//! * `line` of a token/comment/error = 1 + number of LF bytes before its first byte.
//! * Whitespace: space, TAB, LF, VT, FF, CR. Identifiers are ASCII `[A-Za-z_][A-Za-z0-9_]*`.
//!   Bytes >= 0x80 outside strings/comments are lex errors.
//! * Numerals: the reference "skip then validate" scheme (see `number.rs`). Lua 5.1: decimal
//!   and hex integers only (`0x1p4`, accepted by C99-`strtod` builds of Lua 5.1, is rejected);
//!   hex integers of any length are correctly rounded like C99 `strtod`. Luau: underscores are
//!   removed *before* classification (so `0_x10` is 16, as in the reference); hex/binary
//!   literals above 2^64-1 saturate to 2^64 like `strtoull`
//!   (see [`number::LUAU_INT_OVERFLOW_SATURATES`]).
//! * Unknown escapes (`\q`, and in Lua 5.1 also `\x`, `\z`, `\u`) yield the escaped byte itself
//!   (llex.c default branch; Luau `unescape` default). `\ddd` > 255 is an error.
//! * `\` + newline: Lua 5.1 accepts LF, CR, CRLF, LFCR (one `\n`). Luau accepts LF, CR, CRLF;
//!   `\` LF CR leaves a raw CR in the string which is an error, as in the reference.
//! * Long brackets: Lua 5.1 skips a first LF/CR/CRLF/LFCR and normalises every newline
//!   sequence inside the body to one LF (llex.c). Luau skips a first LF or CRLF only, turns
//!   CRLF into LF and keeps a lone CR (`fixupMultilineString`). `[[` nested inside a level-0
//!   long string is allowed in Lua 5.1 mode (no LUA_COMPAT_LSTR deprecation error).
//!   `[=` / `[==` not followed by `[` is an "invalid long string delimiter" error.
//! * `--[==` not followed by `[` starts a *line* comment. Line comments end at LF or CR.
//! * NUL bytes: Luau's lexer treats NUL as end of input; we reject a NUL anywhere in Luau
//!   mode. Lua 5.1 mode allows NUL inside strings and comments only.
//! * Lua 5.1 mode lexes `::`, `//`, `+=`… as separate single-character symbols (the parser
//!   then rejects them); `` ` `` `?` `&` `|` `@` `!` `~` (alone) are lex errors.
//! * Shebang lines are not supported (they are handled by `luaL_loadfile`, not the lexer).
//!
//! Parsing
//! * `return`, `break` (and Luau `continue`) must be the last statement of their block in
//!   both dialects (Luau's `isStatLast`), optionally followed by one `;`.
//! * `break`/`continue` outside a loop and `...` outside a vararg function are errors in
//!   both dialects, as in both reference parsers.
//! * One optional `;` after each statement; an empty statement (`;;`) is an error in both
//!   dialects.
//! * A `(` on a new line after a prefix expression is a call (no "ambiguous syntax" error)
//!   unless [`ParseOptions::reject_ambiguous_call`] is set.
//! * Luau contextual keywords follow `Parser::parseStat`: a primary expression is parsed
//!   first; only when it is a bare identifier that is neither called nor assigned is it
//!   interpreted as `type` / `export type` / `continue` / `const`.
//! * `e :: T` is `parseAssertionExpr`: one cast after a simple expression (`a :: T :: U`
//!   is an error, `-x :: T` is `-(x :: T)`, `a + b :: T` casts `b`).
//! * `o:m<<T>>(x)` produces a plain `mcall` (the format has no slot for the instantiation).
//! * Luau `const` declarations (`const x = 1`, `const function f() end`): the number of values
//!   must equal the number of names unless the last value is a call or `...`.
//! * Luau attributes (`@name`, `@[name args, ...]`) are accepted before `function`,
//!   `local function` and function expressions; attribute names are not validated.
//! * Type references allow a single `Prefix.Name`; union and intersection may not be mixed
//!   without parentheses; a generic pack default must be a pack; defaults must be trailing.
//! * Nesting limit: 200 levels (Lua 5.1 `LUAI_MAXCCALLS`) in both dialects (Luau's own limit
//!   is 1000). Chains of right-associative operators (`a..b..c`, `a^b^c`) are folded
//!   iteratively and do not count as nesting; note that the resulting *tree* is as deep as
//!   the chain is long.
//! * `parse` never overflows the stack: deeply nested input is re-parsed on a dedicated
//!   64 MiB thread (see [`parser::parse_with_options`]).
//! * Interpolated strings: empty literal segments are dropped from `interp.l` unless
//!   [`ParseOptions::keep_empty_interp_segments`] is set.
//! * [`ParseOptions::syntax_only`] disables the two context checks (loop control outside a
//!   loop, `...` outside a vararg function) for input printed from arbitrary trees.

pub mod json;
pub mod lexer;
pub mod number;
pub mod parser;
pub mod sexp;
pub mod strings;
mod types;

pub use lexer::{lex, Comment, LexError, TokKind, Token};
pub use number::parse_number_literal;
pub use parser::{parse, parse_on_current_thread, parse_with_options, ParseError, ParseOptions};
pub use strings::decode_short_string;

#[derive(Debug, Clone, Copy, PartialEq, Eq, Hash)]
pub enum Dialect {
    Lua51,
    Luau,
}

/// One record of the flat node table. `num` carries the value that is serialised as the
/// `hi`/`lo` halves.
#[derive(Debug, Clone, PartialEq)]
pub struct Node {
    pub k: String,
    pub a: usize,
    pub b: usize,
    pub c: usize,
    pub s: Vec<u8>,
    pub l: Vec<usize>,
    pub m: Vec<usize>,
    pub ns: Vec<Vec<u8>>,
    pub num: f64,
}

impl Node {
    pub fn new(k: &str) -> Node {
        Node {
            k: k.to_string(),
            a: 0,
            b: 0,
            c: 0,
            s: Vec::new(),
            l: Vec::new(),
            m: Vec::new(),
            ns: Vec::new(),
            num: 0.0,
        }
    }
}

/// A parsed program. `nodes[0]` has id 1; `root` is the id of the top-level `block`.
#[derive(Debug, Clone, PartialEq)]
pub struct Program {
    pub root: usize,
    pub nodes: Vec<Node>,
}

impl Program {
    /// Node by 1-based id.
    pub fn node(&self, id: usize) -> Option<&Node> {
        if id == 0 {
            None
        } else {
            self.nodes.get(id - 1)
        }
    }
}


/// Occurrences of each Luau extension in a source text, counted by the independent parser.
#[derive(Debug, Clone, Default, PartialEq)]
pub struct Census {
    pub compound_assign: usize,
    pub continue_stmt: usize,
    pub if_expression: usize,
    pub interpolated_string: usize,
    pub floor_division: usize,
    pub luau_number: usize,
    pub const_decl: usize,
    /// annotations, return types, generic lists, casts, type declarations, explicit instantiations
    pub type_syntax: usize,
    pub attributes: usize,
}

/// Parses `src` (on the current thread) and counts the Luau extensions it uses.
pub fn census(src: &[u8], dialect: Dialect) -> Result<(Program, Census), ParseError> {
    types::TYPE_SYNTAX.with(|c| c.set(0));
    types::ATTRIBUTES.with(|c| c.set(0));
    types::DISCARDED.with(|d| d.borrow_mut().clear());
    let prog = parse_on_current_thread(src, dialect, ParseOptions::default())?;
    let mut c = Census::default();
    c.type_syntax = types::TYPE_SYNTAX.with(|c| c.get());
    c.attributes = types::ATTRIBUTES.with(|c| c.get());
    // nodes of expressions inside `typeof(...)` are not part of the program but still count as occurrences
    let discarded: Vec<Node> = types::DISCARDED.with(|d| {
        d.borrow()
            .iter()
            .map(|(k, s, cc)| {
                let mut n = Node::new(k);
                n.s = s.clone();
                n.c = *cc;
                n
            })
            .collect()
    });
    for n in prog.nodes.iter().chain(discarded.iter()) {
        match n.k.as_str() {
            "compound" => c.compound_assign += 1,
            "continue" => c.continue_stmt += 1,
            "ifexp" => c.if_expression += 1,
            "interp" => c.interpolated_string += 1,
            "bin" if n.s == b"//" => c.floor_division += 1,
            "compound_dummy" => {}
            "num" => {
                let t = &n.s;
                if t.contains(&b'_') || t.starts_with(b"0b") || t.starts_with(b"0B") {
                    c.luau_number += 1;
                }
            }
            "local" | "localfn" if n.c == 1 => c.const_decl += 1,
            "cast" | "tinst" | "typedecl" => c.type_syntax += 1,
            _ => {}
        }
        if n.k == "compound" && n.s == b"//" {
            c.floor_division += 1;
        }
    }
    Ok((prog, c))
}
