use luaparse::{lex, parse, Dialect, TokKind};
use std::io::Write;

fn show(bytes: &[u8]) -> String {
    let mut s = String::new();
    for &b in bytes {
        if (0x20..0x7f).contains(&b) && b != b'\\' {
            s.push(b as char);
        } else {
            s.push_str(&format!("\\x{:02x}", b));
        }
    }
    s
}

fn main() {
    let mut dialect = Dialect::Luau;
    let mut lex_only = false;
    let mut file: Option<String> = None;
    for a in std::env::args().skip(1) {
        match a.as_str() {
            "--lua51" => dialect = Dialect::Lua51,
            "--luau" => dialect = Dialect::Luau,
            "--lex" => lex_only = true,
            _ if file.is_none() => file = Some(a),
            _ => {
                eprintln!("usage: luaparse [--lex] [--lua51] <file>");
                std::process::exit(2);
            }
        }
    }
    let file = match file {
        Some(f) => f,
        None => {
            eprintln!("usage: luaparse [--lex] [--lua51] <file>");
            std::process::exit(2);
        }
    };
    let src = match std::fs::read(&file) {
        Ok(s) => s,
        Err(e) => {
            eprintln!("{}: {}", file, e);
            std::process::exit(2);
        }
    };
    let stdout = std::io::stdout();
    let mut out = stdout.lock();
    if lex_only {
        match lex(&src, dialect) {
            Ok((toks, comments)) => {
                for t in &toks {
                    let mut line = format!("{:?}\t{}..{}\tline {}\t{}", t.kind, t.start, t.end, t.line, show(&t.text));
                    if let Some(v) = &t.str_value {
                        line.push_str(&format!("\tstr=\"{}\"", show(v)));
                    }
                    if let Some(v) = t.num_value {
                        line.push_str(&format!("\tnum={:?} bits={:016x}", v, v.to_bits()));
                    }
                    let _ = writeln!(out, "{}", line);
                    if t.kind == TokKind::Eof {
                        break;
                    }
                }
                for c in &comments {
                    let _ = writeln!(
                        out,
                        "Comment({})\t{}..{}\tline {}\t{}",
                        if c.long { "long" } else { "line" },
                        c.start,
                        c.end,
                        c.line,
                        show(&c.text)
                    );
                }
            }
            Err(e) => {
                eprintln!("{}: {}", file, e);
                std::process::exit(1);
            }
        }
    } else {
        match parse(&src, dialect) {
            Ok(p) => {
                let _ = writeln!(out, "{}", p.to_json_string());
            }
            Err(e) => {
                eprintln!("{}: {}", file, e);
                std::process::exit(1);
            }
        }
    }
}
