//! Recursive-descent parser for Lua 5.1 (`lparser.c`) and Luau (`Parser.cpp`), producing
//! the flat node table of NODEFORMAT.md.

use crate::lexer::{lex, LexError, TokKind, Token};
use crate::{Dialect, Node, Program};

/// Maximum syntactic nesting (Lua 5.1 `LUAI_MAXCCALLS`).
pub const MAX_DEPTH: usize = 200;

#[derive(Debug, Clone, PartialEq)]
pub struct ParseError {
    pub offset: usize,
    pub line: usize,
    pub message: String,
}

impl std::fmt::Display for ParseError {
    fn fmt(&self, f: &mut std::fmt::Formatter<'_>) -> std::fmt::Result {
        write!(f, "syntax error at byte {} (line {}): {}", self.offset, self.line, self.message)
    }
}

impl std::error::Error for ParseError {}

impl From<LexError> for ParseError {
    fn from(e: LexError) -> ParseError {
        ParseError { offset: e.offset, line: e.line, message: e.message }
    }
}

#[derive(Debug, Clone, Copy, PartialEq, Eq, Default)]
pub struct ParseOptions {
    /// Report the reference parsers' "ambiguous syntax (function call x new statement)"
    /// error when a call's `(` is on a later line than the end of the called expression.
    pub reject_ambiguous_call: bool,
    /// Keep empty literal segments of interpolated strings as `istr` nodes (default: drop).
    pub keep_empty_interp_segments: bool,
    /// Accept `break` / `continue` outside a loop (both reference parsers reject this; useful
    /// when the input was printed from a randomly generated tree).
    pub allow_loop_control_outside_loop: bool,
    /// Accept `...` outside a vararg function (both reference parsers reject this).
    pub allow_vararg_outside_vararg_function: bool,
}

impl ParseOptions {
    /// Pure context-free syntax: the two context checks of the reference parsers
    /// (`break`/`continue` outside a loop, `...` outside a vararg function) are disabled.
    pub fn syntax_only() -> ParseOptions {
        ParseOptions {
            allow_loop_control_outside_loop: true,
            allow_vararg_outside_vararg_function: true,
            ..ParseOptions::default()
        }
    }
}

pub(crate) type R<T> = Result<T, ParseError>;

pub(crate) struct FnCtx {
    pub vararg: bool,
    pub loop_depth: usize,
}

pub(crate) struct P {
    pub toks: Vec<Token>,
    pub i: usize,
    pub dialect: Dialect,
    pub nodes: Vec<Node>,
    pub depth: usize,
    pub funcs: Vec<FnCtx>,
    pub opts: ParseOptions,
    /// address of a local of the entry function; used to estimate stack consumption
    pub stack_base: usize,
    /// stack bytes the recursion may use before giving up (`usize::MAX`: unlimited)
    pub stack_budget: usize,
    /// set when the parse was abandoned because `stack_budget` was exceeded
    pub budget_exceeded: bool,
}

#[inline(never)]
fn stack_address() -> usize {
    let marker = 0u8;
    std::hint::black_box(&marker as *const u8 as usize)
}

const COMPOUND_OPS: [&[u8]; 8] = [b"+=", b"-=", b"*=", b"/=", b"//=", b"%=", b"^=", b"..="];

fn show(t: &Token) -> String {
    if t.kind == TokKind::Eof {
        return "<eof>".to_string();
    }
    let mut s = String::new();
    for &b in t.text.iter().take(30) {
        if (0x20..0x7f).contains(&b) {
            s.push(b as char);
        } else {
            s.push_str(&format!("\\x{:02x}", b));
        }
    }
    if t.text.len() > 30 {
        s.push_str("...");
    }
    s
}

impl P {
    // ------------------------------------------------------------------ token helpers

    pub(crate) fn luau(&self) -> bool {
        self.dialect == Dialect::Luau
    }

    pub(crate) fn cur(&self) -> &Token {
        // the token vector always ends with Eof and `i` never passes it
        &self.toks[self.i.min(self.toks.len() - 1)]
    }

    pub(crate) fn peek(&self, k: usize) -> &Token {
        &self.toks[(self.i + k).min(self.toks.len() - 1)]
    }

    pub(crate) fn advance(&mut self) {
        if self.i + 1 < self.toks.len() {
            self.i += 1;
        }
    }

    pub(crate) fn err_at<T>(&self, t: &Token, msg: String) -> R<T> {
        Err(ParseError { offset: t.start, line: t.line, message: msg })
    }

    pub(crate) fn err<T>(&self, msg: &str) -> R<T> {
        let t = self.cur();
        self.err_at(t, format!("{} near '{}'", msg, show(t)))
    }

    pub(crate) fn tok_is_sym(t: &Token, s: &[u8]) -> bool {
        t.kind == TokKind::Symbol && t.text == s
    }

    pub(crate) fn tok_is_kw(t: &Token, s: &[u8]) -> bool {
        t.kind == TokKind::Keyword && t.text == s
    }

    pub(crate) fn is_sym(&self, s: &[u8]) -> bool {
        Self::tok_is_sym(self.cur(), s)
    }

    pub(crate) fn is_kw(&self, s: &[u8]) -> bool {
        Self::tok_is_kw(self.cur(), s)
    }

    pub(crate) fn is_name(&self) -> bool {
        self.cur().kind == TokKind::Name
    }

    pub(crate) fn is_name_text(&self, s: &[u8]) -> bool {
        self.cur().kind == TokKind::Name && self.cur().text == s
    }

    pub(crate) fn accept_sym(&mut self, s: &[u8]) -> bool {
        if self.is_sym(s) {
            self.advance();
            true
        } else {
            false
        }
    }

    pub(crate) fn accept_kw(&mut self, s: &[u8]) -> bool {
        if self.is_kw(s) {
            self.advance();
            true
        } else {
            false
        }
    }

    pub(crate) fn expect_sym(&mut self, s: &[u8]) -> R<()> {
        if self.accept_sym(s) {
            Ok(())
        } else {
            self.err(&format!("'{}' expected", String::from_utf8_lossy(s)))
        }
    }

    pub(crate) fn expect_kw(&mut self, s: &[u8]) -> R<()> {
        if self.accept_kw(s) {
            Ok(())
        } else {
            self.err(&format!("'{}' expected", String::from_utf8_lossy(s)))
        }
    }

    /// `expect_kw` for a closer that matches an opener seen at `open_line`.
    fn expect_match(&mut self, what: &[u8], opener: &str, open_line: usize) -> R<()> {
        if self.accept_kw(what) {
            Ok(())
        } else {
            self.err(&format!(
                "'{}' expected (to close '{}' at line {})",
                String::from_utf8_lossy(what),
                opener,
                open_line
            ))
        }
    }

    pub(crate) fn expect_name(&mut self) -> R<Vec<u8>> {
        if self.is_name() {
            let n = self.cur().text.clone();
            self.advance();
            Ok(n)
        } else {
            self.err("<name> expected")
        }
    }

    pub(crate) fn enter(&mut self) -> R<()> {
        self.depth += 1;
        if self.depth > MAX_DEPTH {
            return self.err(&format!("chunk has too many syntax levels (limit {})", MAX_DEPTH));
        }
        if self.stack_budget != usize::MAX && self.stack_base.abs_diff(stack_address()) > self.stack_budget {
            self.budget_exceeded = true;
            return self.err("parser stack budget exceeded");
        }
        Ok(())
    }

    pub(crate) fn leave(&mut self) {
        self.depth -= 1;
    }

    fn add(&mut self, n: Node) -> usize {
        self.nodes.push(n);
        self.nodes.len()
    }

    fn kind_of(&self, id: usize) -> &str {
        &self.nodes[id - 1].k
    }

    fn block_follow(&self) -> bool {
        let t = self.cur();
        match t.kind {
            TokKind::Eof => true,
            TokKind::Keyword => {
                t.text == b"else" || t.text == b"elseif" || t.text == b"end" || t.text == b"until"
            }
            _ => false,
        }
    }

    // ------------------------------------------------------------------ blocks / statements

    pub(crate) fn block(&mut self) -> R<usize> {
        self.enter()?;
        let mut stmts = Vec::new();
        while !self.block_follow() {
            let (id, last) = self.statement()?;
            stmts.push(id);
            self.accept_sym(b";");
            if last {
                if !self.block_follow() {
                    let k = self.kind_of(id).to_string();
                    let what = if k == "ret" { "return" } else { k.as_str() };
                    return self.err(&format!(
                        "'{}' must be the last statement of its block: block terminator expected",
                        what
                    ));
                }
                break;
            }
        }
        self.leave();
        let mut n = Node::new("block");
        n.l = stmts;
        Ok(self.add(n))
    }

    /// Returns (statement id, is-last-statement).
    fn statement(&mut self) -> R<(usize, bool)> {
        let t = self.cur().clone();
        if t.kind == TokKind::Keyword {
            match &t.text[..] {
                b"if" => return Ok((self.if_stmt()?, false)),
                b"while" => {
                    self.advance();
                    let cond = self.expr()?;
                    self.expect_kw(b"do")?;
                    let body = self.loop_block()?;
                    self.expect_match(b"end", "while", t.line)?;
                    let mut n = Node::new("while");
                    n.a = cond;
                    n.b = body;
                    return Ok((self.add(n), false));
                }
                b"do" => {
                    self.advance();
                    let body = self.block()?;
                    self.expect_match(b"end", "do", t.line)?;
                    let mut n = Node::new("do");
                    n.a = body;
                    return Ok((self.add(n), false));
                }
                b"for" => return Ok((self.for_stmt()?, false)),
                b"repeat" => {
                    self.advance();
                    let body = self.loop_block()?;
                    self.expect_match(b"until", "repeat", t.line)?;
                    let cond = self.expr()?;
                    let mut n = Node::new("repeat");
                    n.a = body;
                    n.b = cond;
                    return Ok((self.add(n), false));
                }
                b"function" => return Ok((self.function_stmt()?, false)),
                b"local" => return Ok((self.local_stmt(false)?, false)),
                b"return" => {
                    self.advance();
                    let mut n = Node::new("ret");
                    if !self.block_follow() && !self.is_sym(b";") {
                        n.l = self.expr_list()?;
                    }
                    return Ok((self.add(n), true));
                }
                b"break" => {
                    if !self.opts.allow_loop_control_outside_loop
                        && self.funcs.last().map_or(0, |f| f.loop_depth) == 0
                    {
                        return self.err("no loop to break");
                    }
                    self.advance();
                    return Ok((self.add(Node::new("break")), true));
                }
                _ => {}
            }
        }
        if self.luau() && self.is_sym(b"@") {
            return Ok((self.attributed_stmt()?, false));
        }
        self.expr_stmt()
    }

    fn loop_block(&mut self) -> R<usize> {
        if let Some(f) = self.funcs.last_mut() {
            f.loop_depth += 1;
        }
        let r = self.block();
        if let Some(f) = self.funcs.last_mut() {
            f.loop_depth -= 1;
        }
        r
    }

    fn if_stmt(&mut self) -> R<usize> {
        let line = self.cur().line;
        let mut n = Node::new("if");
        // `if` or `elseif` is the current token at the top of each iteration
        loop {
            self.advance();
            let cond = self.expr()?;
            self.expect_kw(b"then")?;
            let body = self.block()?;
            n.l.push(cond);
            n.l.push(body);
            if self.is_kw(b"elseif") {
                continue;
            }
            break;
        }
        if self.accept_kw(b"else") {
            n.c = self.block()?;
        }
        self.expect_match(b"end", "if", line)?;
        Ok(self.add(n))
    }

    /// Optional Luau `: Type` annotation after a binding name.
    fn opt_annotation(&mut self) -> R<()> {
        if self.luau() && self.accept_sym(b":") {
            self.parse_type()?;
        }
        Ok(())
    }

    fn for_stmt(&mut self) -> R<usize> {
        let line = self.cur().line;
        self.advance();
        let first = self.expect_name()?;
        self.opt_annotation()?;
        if self.accept_sym(b"=") {
            let mut n = Node::new("numfor");
            n.s = first;
            n.l.push(self.expr()?);
            self.expect_sym(b",")?;
            n.l.push(self.expr()?);
            if self.accept_sym(b",") {
                n.l.push(self.expr()?);
            }
            self.expect_kw(b"do")?;
            n.b = self.loop_block()?;
            self.expect_match(b"end", "for", line)?;
            Ok(self.add(n))
        } else if self.is_sym(b",") || self.is_kw(b"in") {
            let mut n = Node::new("genfor");
            n.ns.push(first);
            while self.accept_sym(b",") {
                n.ns.push(self.expect_name()?);
                self.opt_annotation()?;
            }
            self.expect_kw(b"in")?;
            n.l = self.expr_list()?;
            self.expect_kw(b"do")?;
            n.b = self.loop_block()?;
            self.expect_match(b"end", "for", line)?;
            Ok(self.add(n))
        } else {
            self.err("'=' or 'in' expected")
        }
    }

    fn function_stmt(&mut self) -> R<usize> {
        let line = self.cur().line;
        self.advance(); // function
        let mut n = Node::new("funcstmt");
        n.ns.push(self.expect_name()?);
        while self.accept_sym(b".") {
            n.ns.push(self.expect_name()?);
        }
        if self.accept_sym(b":") {
            n.s = self.expect_name()?;
        }
        n.a = self.func_body(line)?;
        Ok(self.add(n))
    }

    /// `local` is the current token. `attributed`: Luau attributes preceded it, so only
    /// `local function` is acceptable.
    fn local_stmt(&mut self, attributed: bool) -> R<usize> {
        self.advance(); // local
        if self.is_kw(b"function") {
            let line = self.cur().line;
            self.advance();
            let mut n = Node::new("localfn");
            n.s = self.expect_name()?;
            n.a = self.func_body(line)?;
            return Ok(self.add(n));
        }
        if attributed {
            return self.err("'function' expected after attribute and 'local'");
        }
        self.local_bindings(false)
    }

    /// `NAME [: T] {, NAME [: T]} [= explist]`
    fn local_bindings(&mut self, is_const: bool) -> R<usize> {
        let mut n = Node::new("local");
        n.c = if is_const { 1 } else { 0 };
        loop {
            n.ns.push(self.expect_name()?);
            self.opt_annotation()?;
            if !self.accept_sym(b",") {
                break;
            }
        }
        if self.accept_sym(b"=") {
            let at = self.cur().clone();
            n.l = self.expr_list()?;
            if is_const {
                // every const binding needs a value: the counts must match unless the last
                // expression is multi-valued (a call or `...`)
                let multi = n.l.last().map_or(false, |&id| {
                    matches!(self.kind_of(id), "call" | "mcall" | "vararg")
                });
                if n.l.len() > n.ns.len() || (n.l.len() < n.ns.len() && !multi) {
                    return self.err_at(&at, "const declaration: number of values does not match number of names".into());
                }
            }
        } else if is_const {
            return self.err("'=' expected: a const declaration needs an initialiser");
        }
        Ok(self.add(n))
    }

    /// Luau attributes: `@name` or `@[name args?, ...]`, repeated. Nodes created while
    /// parsing attribute arguments are discarded.
    pub(crate) fn attributes(&mut self) -> R<()> {
        while self.is_sym(b"@") {
            crate::types::note_attribute();
            let at_end = self.cur().end;
            self.advance();
            if self.cur().start != at_end {
                return self.err("attribute name is missing after '@'");
            }
            if self.accept_sym(b"[") {
                let mark = self.nodes.len();
                loop {
                    self.expect_name()?;
                    if self.is_sym(b"(") {
                        self.advance();
                        if !self.is_sym(b")") {
                            self.expr_list()?;
                        }
                        self.expect_sym(b")")?;
                    } else if self.is_sym(b"{") {
                        self.table()?;
                    } else if self.cur().kind == TokKind::String {
                        self.advance();
                    }
                    if !self.accept_sym(b",") {
                        break;
                    }
                }
                self.nodes.truncate(mark);
                self.expect_sym(b"]")?;
            } else {
                self.expect_name()?;
            }
        }
        Ok(())
    }

    fn attributed_stmt(&mut self) -> R<usize> {
        self.attributes()?;
        if self.is_kw(b"function") {
            self.function_stmt()
        } else if self.is_kw(b"local") {
            self.local_stmt(true)
        } else {
            self.err("'function' or 'local function' expected after attribute")
        }
    }

    fn is_lvalue(&self, id: usize) -> bool {
        matches!(self.kind_of(id), "var" | "index" | "field")
    }

    fn compound_op(&self) -> Option<Vec<u8>> {
        if !self.luau() || self.cur().kind != TokKind::Symbol {
            return None;
        }
        let t = &self.cur().text;
        for op in COMPOUND_OPS.iter() {
            if &t[..] == *op {
                return Some(op[..op.len() - 1].to_vec());
            }
        }
        None
    }

    fn expr_stmt(&mut self) -> R<(usize, bool)> {
        let start_tok = self.cur().clone();
        let first_i = self.i;
        let e = self.primary_expr()?;
        let kind = self.kind_of(e).to_string();
        if kind == "call" || kind == "mcall" {
            // `f() = 1` and `f(), x = 1` are rejected below because a call is never followed
            // by '=' / ',' in a valid program; give the precise message here.
            if self.is_sym(b"=") || self.is_sym(b",") {
                return self.err("cannot assign to a function call");
            }
            let mut n = Node::new("callstmt");
            n.a = e;
            return Ok((self.add(n), false));
        }
        if self.is_sym(b"=") || self.is_sym(b",") {
            let mut n = Node::new("assign");
            if !self.is_lvalue(e) {
                return self.err_at(&start_tok, "cannot assign to this expression (a variable, index or field is required)".into());
            }
            n.l.push(e);
            while self.accept_sym(b",") {
                let tt = self.cur().clone();
                let t = self.primary_expr()?;
                if !self.is_lvalue(t) {
                    return self.err_at(&tt, "cannot assign to this expression (a variable, index or field is required)".into());
                }
                n.l.push(t);
            }
            self.expect_sym(b"=")?;
            n.m = self.expr_list()?;
            return Ok((self.add(n), false));
        }
        if let Some(op) = self.compound_op() {
            if !self.is_lvalue(e) {
                return self.err_at(&start_tok, "cannot assign to this expression (a variable, index or field is required)".into());
            }
            self.advance();
            let mut n = Node::new("compound");
            n.s = op;
            n.a = e;
            n.b = self.expr()?;
            return Ok((self.add(n), false));
        }
        // Luau context-sensitive keywords: a bare identifier that is neither called nor
        // assigned (Parser::parseStat).
        if self.luau() && kind == "var" && self.i == first_i + 1 {
            let ident = self.nodes[e - 1].s.clone();
            match &ident[..] {
                b"type" => {
                    self.nodes.truncate(e - 1);
                    return Ok((self.type_decl()?, false));
                }
                b"export" if self.is_name_text(b"type") => {
                    self.advance();
                    self.nodes.truncate(e - 1);
                    return Ok((self.type_decl()?, false));
                }
                b"continue" => {
                    if !self.opts.allow_loop_control_outside_loop
                        && self.funcs.last().map_or(0, |f| f.loop_depth) == 0
                    {
                        return self.err_at(&start_tok, "'continue' statement must be inside a loop".into());
                    }
                    self.nodes.truncate(e - 1);
                    return Ok((self.add(Node::new("continue")), true));
                }
                b"const" if self.is_name() => {
                    self.nodes.truncate(e - 1);
                    return Ok((self.local_bindings(true)?, false));
                }
                b"const" if self.is_kw(b"function") => {
                    self.nodes.truncate(e - 1);
                    let line = self.cur().line;
                    self.advance();
                    let mut n = Node::new("localfn");
                    n.c = 1;
                    n.s = self.expect_name()?;
                    n.a = self.func_body(line)?;
                    return Ok((self.add(n), false));
                }
                _ => {}
            }
        }
        self.err_at(
            &start_tok,
            format!(
                "incomplete statement: expected assignment or a function call (statement starts with '{}', next token '{}')",
                show(&start_tok),
                show(self.cur())
            ),
        )
    }

    /// After contextual `type` / `export type`: alias or type function. All nodes created
    /// inside (typeof expressions, type function bodies) are discarded.
    fn type_decl(&mut self) -> R<usize> {
        let mark = self.nodes.len();
        if self.is_kw(b"function") {
            let line = self.cur().line;
            self.advance();
            self.expect_name()?;
            self.func_body(line)?;
        } else {
            self.expect_name()?;
            if self.is_sym(b"<") {
                self.generic_decl_list(true)?;
            }
            self.expect_sym(b"=")?;
            self.parse_type()?;
        }
        self.nodes.truncate(mark);
        Ok(self.add(Node::new("typedecl")))
    }

    // ------------------------------------------------------------------ functions

    /// `[<generics>] ( params ) [: return type] block end` — the token after `function`
    /// (and the name, if any) is current. Returns the `fn` node id.
    pub(crate) fn func_body(&mut self, open_line: usize) -> R<usize> {
        if self.luau() && self.is_sym(b"<") {
            self.generic_decl_list(false)?;
        }
        self.expect_sym(b"(")?;
        let mut n = Node::new("fn");
        if !self.is_sym(b")") {
            loop {
                if self.accept_sym(b"...") {
                    n.c = 1;
                    if self.luau() && self.accept_sym(b":") {
                        self.variadic_annotation()?;
                    }
                    break;
                }
                n.ns.push(self.expect_name()?);
                self.opt_annotation()?;
                if !self.accept_sym(b",") {
                    break;
                }
            }
        }
        self.expect_sym(b")")?;
        if self.luau() && self.accept_sym(b":") {
            self.parse_return_type()?;
        }
        self.funcs.push(FnCtx { vararg: n.c == 1, loop_depth: 0 });
        let body = self.block();
        self.funcs.pop();
        n.b = body?;
        self.expect_match(b"end", "function", open_line)?;
        Ok(self.add(n))
    }

    // ------------------------------------------------------------------ expressions

    pub(crate) fn expr_list(&mut self) -> R<Vec<usize>> {
        let mut v = vec![self.expr()?];
        while self.accept_sym(b",") {
            v.push(self.expr()?);
        }
        Ok(v)
    }

    pub(crate) fn expr(&mut self) -> R<usize> {
        self.subexpr(0)
    }

    /// (left priority, right priority) of the binary operator at the current token.
    fn binop(&self) -> Option<(&'static str, u8, u8)> {
        let t = self.cur();
        match t.kind {
            TokKind::Symbol => Some(match &t.text[..] {
                b"+" => ("+", 6, 6),
                b"-" => ("-", 6, 6),
                b"*" => ("*", 7, 7),
                b"/" => ("/", 7, 7),
                b"//" if self.luau() => ("//", 7, 7),
                b"%" => ("%", 7, 7),
                b"^" => ("^", 10, 9),
                b".." => ("..", 5, 4),
                b"==" => ("==", 3, 3),
                b"~=" => ("~=", 3, 3),
                b"<" => ("<", 3, 3),
                b"<=" => ("<=", 3, 3),
                b">" => (">", 3, 3),
                b">=" => (">=", 3, 3),
                _ => return None,
            }),
            TokKind::Keyword => match &t.text[..] {
                b"and" => Some(("and", 2, 2)),
                b"or" => Some(("or", 1, 1)),
                _ => None,
            },
            _ => None,
        }
    }

    fn mk_bin(&mut self, op: &str, a: usize, b: usize) -> usize {
        let mut n = if op == "and" || op == "or" {
            Node::new(op)
        } else {
            let mut n = Node::new("bin");
            n.s = op.as_bytes().to_vec();
            n
        };
        n.a = a;
        n.b = b;
        self.add(n)
    }

    const UNARY_PRIORITY: u8 = 8;

    /// `subexpr -> (simpleexp | unop subexpr) { binop subexpr }` where binop's left
    /// priority is greater than `limit` (lparser.c `subexpr`).
    fn subexpr(&mut self, limit: u8) -> R<usize> {
        self.enter()?;
        let unop = {
            let t = self.cur();
            if Self::tok_is_kw(t, b"not") {
                Some("not")
            } else if Self::tok_is_sym(t, b"-") {
                Some("neg")
            } else if Self::tok_is_sym(t, b"#") {
                Some("len")
            } else {
                None
            }
        };
        let mut left = if let Some(k) = unop {
            self.advance();
            let operand = self.subexpr(Self::UNARY_PRIORITY)?;
            let mut n = Node::new(k);
            n.a = operand;
            self.add(n)
        } else {
            self.assertion_expr()?
        };
        while let Some((op, lp, rp)) = self.binop() {
            if lp <= limit {
                break;
            }
            self.advance();
            if rp < lp {
                // Right-associative operator (`..`, `^`). `subexpr(rp)` would recurse once per
                // operator of the chain; collecting the operands with `subexpr(lp)` and
                // folding from the right builds the same tree without deep recursion.
                let mut operands = vec![left];
                loop {
                    operands.push(self.subexpr(lp)?);
                    match self.binop() {
                        Some((op2, _, _)) if op2 == op => self.advance(),
                        _ => break,
                    }
                }
                let mut acc = operands.pop().unwrap_or(0);
                while let Some(x) = operands.pop() {
                    acc = self.mk_bin(op, x, acc);
                }
                left = acc;
            } else {
                let right = self.subexpr(rp)?;
                left = self.mk_bin(op, left, right);
            }
        }
        self.leave();
        Ok(left)
    }

    /// Luau `parseAssertionExpr`: `simpleexp [:: Type]`.
    fn assertion_expr(&mut self) -> R<usize> {
        let e = self.simple_expr()?;
        if self.luau() && self.is_sym(b"::") {
            self.advance();
            self.parse_type()?;
            let mut n = Node::new("cast");
            n.a = e;
            return Ok(self.add(n));
        }
        Ok(e)
    }

    fn simple_expr(&mut self) -> R<usize> {
        let t = self.cur().clone();
        match t.kind {
            TokKind::Number => {
                self.advance();
                let mut n = Node::new("num");
                n.s = t.text.clone();
                n.num = t.num_value.unwrap_or(0.0);
                Ok(self.add(n))
            }
            TokKind::String => {
                self.advance();
                let mut n = Node::new("str");
                n.s = t.str_value.clone().unwrap_or_default();
                Ok(self.add(n))
            }
            TokKind::Keyword => match &t.text[..] {
                b"nil" | b"true" | b"false" => {
                    self.advance();
                    let k = String::from_utf8_lossy(&t.text).to_string();
                    Ok(self.add(Node::new(&k)))
                }
                b"function" => {
                    self.advance();
                    self.func_body(t.line)
                }
                b"if" if self.luau() => self.if_expr(),
                _ => self.err("unexpected symbol"),
            },
            TokKind::Symbol => match &t.text[..] {
                b"..." => {
                    if !self.opts.allow_vararg_outside_vararg_function
                        && !self.funcs.last().map_or(false, |f| f.vararg)
                    {
                        return self.err("cannot use '...' outside a vararg function");
                    }
                    self.advance();
                    Ok(self.add(Node::new("vararg")))
                }
                b"{" => self.table(),
                b"@" if self.luau() => {
                    self.attributes()?;
                    if !self.is_kw(b"function") {
                        return self.err("'function' expected after attribute");
                    }
                    let line = self.cur().line;
                    self.advance();
                    self.func_body(line)
                }
                _ => self.primary_expr(),
            },
            TokKind::InterpSimple | TokKind::InterpBegin => self.interp_string(),
            _ => self.primary_expr(),
        }
    }

    fn if_expr(&mut self) -> R<usize> {
        // current token: `if`
        let mut arms: Vec<(usize, usize)> = Vec::new();
        loop {
            self.advance(); // if / elseif
            let c = self.expr()?;
            self.expect_kw(b"then")?;
            let v = self.expr()?;
            arms.push((c, v));
            if self.is_kw(b"elseif") {
                continue;
            }
            break;
        }
        if !self.accept_kw(b"else") {
            return self.err("'else' expected (an if-expression needs an else branch)");
        }
        let mut acc = self.expr()?;
        while let Some((c, v)) = arms.pop() {
            let mut n = Node::new("ifexp");
            n.a = c;
            n.b = v;
            n.c = acc;
            acc = self.add(n);
        }
        Ok(acc)
    }

    fn interp_string(&mut self) -> R<usize> {
        let mut segs: Vec<usize> = Vec::new();
        let keep_empty = self.opts.keep_empty_interp_segments;
        let mut t = self.cur().clone();
        loop {
            let lit = t.str_value.clone().unwrap_or_default();
            if keep_empty || !lit.is_empty() {
                let mut n = Node::new("istr");
                n.s = lit;
                segs.push(self.add(n));
            }
            self.advance();
            if t.kind == TokKind::InterpSimple || t.kind == TokKind::InterpEnd {
                break;
            }
            // after Begin / Mid: an expression, then Mid / End
            if matches!(self.cur().kind, TokKind::InterpMid | TokKind::InterpEnd) {
                return self.err("malformed interpolated string: expression expected inside '{}'");
            }
            let e = self.expr()?;
            let mut n = Node::new("ival");
            n.a = e;
            segs.push(self.add(n));
            t = self.cur().clone();
            if !matches!(t.kind, TokKind::InterpMid | TokKind::InterpEnd) {
                return self.err("malformed interpolated string: '}' expected");
            }
        }
        let mut n = Node::new("interp");
        n.l = segs;
        Ok(self.add(n))
    }

    pub(crate) fn table(&mut self) -> R<usize> {
        let line = self.cur().line;
        self.expect_sym(b"{")?;
        let mut n = Node::new("table");
        while !self.is_sym(b"}") {
            let entry = if self.is_sym(b"[") {
                self.advance();
                let k = self.expr()?;
                self.expect_sym(b"]")?;
                self.expect_sym(b"=")?;
                let v = self.expr()?;
                let mut e = Node::new("tkey");
                e.a = k;
                e.b = v;
                self.add(e)
            } else if self.is_name() && Self::tok_is_sym(self.peek(1), b"=") {
                let name = self.expect_name()?;
                self.advance(); // =
                let v = self.expr()?;
                let mut e = Node::new("tnamed");
                e.s = name;
                e.a = v;
                self.add(e)
            } else {
                let v = self.expr()?;
                let mut e = Node::new("tpos");
                e.a = v;
                self.add(e)
            };
            n.l.push(entry);
            if !(self.accept_sym(b",") || self.accept_sym(b";")) {
                break;
            }
        }
        if !self.accept_sym(b"}") {
            return self.err(&format!("'}}' expected (to close '{{' at line {})", line));
        }
        Ok(self.add(n))
    }

    fn call_args(&mut self, callee_end_line: usize) -> R<Vec<usize>> {
        let t = self.cur().clone();
        match t.kind {
            TokKind::String => {
                self.advance();
                let mut n = Node::new("str");
                n.s = t.str_value.clone().unwrap_or_default();
                Ok(vec![self.add(n)])
            }
            TokKind::Symbol if t.text == b"{" => Ok(vec![self.table()?]),
            TokKind::Symbol if t.text == b"(" => {
                if self.opts.reject_ambiguous_call && t.line != callee_end_line {
                    return self.err("ambiguous syntax (function call x new statement)");
                }
                self.advance();
                let args = if self.is_sym(b")") { Vec::new() } else { self.expr_list()? };
                if !self.accept_sym(b")") {
                    return self.err(&format!("')' expected (to close '(' at line {})", t.line));
                }
                Ok(args)
            }
            _ => self.err("function arguments expected"),
        }
    }

    /// Line on which the previously consumed token ends (for the ambiguity check).
    fn prev_end_line(&self) -> usize {
        if self.i == 0 {
            return 1;
        }
        let p = &self.toks[self.i - 1];
        p.line + p.text.iter().filter(|&&b| b == b'\n').count()
    }

    /// `primaryexp -> prefixexp { '.' NAME | '[' exp ']' | ':' NAME funcargs | funcargs }`
    pub(crate) fn primary_expr(&mut self) -> R<usize> {
        let t = self.cur().clone();
        let mut e = if t.kind == TokKind::Name {
            self.advance();
            let mut n = Node::new("var");
            n.s = t.text.clone();
            self.add(n)
        } else if Self::tok_is_sym(&t, b"(") {
            self.advance();
            let inner = self.expr()?;
            if !self.accept_sym(b")") {
                return self.err(&format!("')' expected (to close '(' at line {})", t.line));
            }
            let mut n = Node::new("paren");
            n.a = inner;
            self.add(n)
        } else {
            return self.err("unexpected symbol");
        };
        loop {
            let t = self.cur().clone();
            match t.kind {
                TokKind::Symbol => match &t.text[..] {
                    b"." => {
                        self.advance();
                        let name = self.expect_name()?;
                        let mut n = Node::new("field");
                        n.a = e;
                        n.s = name;
                        e = self.add(n);
                    }
                    b"[" => {
                        self.advance();
                        let k = self.expr()?;
                        self.expect_sym(b"]")?;
                        let mut n = Node::new("index");
                        n.a = e;
                        n.b = k;
                        e = self.add(n);
                    }
                    b":" => {
                        self.advance();
                        let name = self.expect_name()?;
                        if self.luau() && self.is_sym(b"<") && Self::tok_is_sym(self.peek(1), b"<") {
                            self.type_instantiation()?;
                        }
                        let line = self.prev_end_line();
                        let args = self.call_args(line)?;
                        let mut n = Node::new("mcall");
                        n.a = e;
                        n.s = name;
                        n.l = args;
                        e = self.add(n);
                    }
                    b"(" | b"{" => {
                        let line = self.prev_end_line();
                        let args = self.call_args(line)?;
                        let mut n = Node::new("call");
                        n.a = e;
                        n.l = args;
                        e = self.add(n);
                    }
                    b"<" if self.luau() && Self::tok_is_sym(self.peek(1), b"<") => {
                        self.type_instantiation()?;
                        let mut n = Node::new("tinst");
                        n.a = e;
                        e = self.add(n);
                    }
                    _ => break,
                },
                TokKind::String => {
                    let line = self.prev_end_line();
                    let args = self.call_args(line)?;
                    let mut n = Node::new("call");
                    n.a = e;
                    n.l = args;
                    e = self.add(n);
                }
                _ => break,
            }
        }
        Ok(e)
    }
}

/// Parse with default options.
pub fn parse(src: &[u8], dialect: Dialect) -> Result<Program, ParseError> {
    parse_with_options(src, dialect, ParseOptions::default())
}

/// Stack size of the dedicated parser thread used for deeply nested input. Recursion is
/// bounded by [`MAX_DEPTH`]; the worst measured use (unoptimised build, 200 levels) is a few
/// megabytes. The memory is only reserved, not committed.
const PARSER_STACK_BYTES: usize = 64 * 1024 * 1024;

/// Stack the parser may use on the *calling* thread before it restarts on the dedicated
/// thread. Ordinary programs need a few kilobytes.
const INLINE_STACK_BUDGET: usize = 192 * 1024;

/// Parse `src`.
///
/// The result never depends on the caller's stack or the optimisation level of the build:
/// the parse first runs on the calling thread with a small stack budget; input nested deeply
/// enough to exceed it is re-parsed from scratch on a dedicated thread with a large stack,
/// where only the [`MAX_DEPTH`] rule applies. A panic on that thread (a bug) is reported as
/// a `ParseError`.
pub fn parse_with_options(src: &[u8], dialect: Dialect, opts: ParseOptions) -> Result<Program, ParseError> {
    let (toks, _comments) = lex(src, dialect)?;
    let (result, exceeded) = run(toks, dialect, opts, INLINE_STACK_BUDGET);
    if !exceeded {
        return result;
    }
    let internal = |what: &str| ParseError { offset: 0, line: 1, message: format!("internal error: {}", what) };
    std::thread::scope(|scope| {
        let handle = std::thread::Builder::new()
            .name("luaparse".to_string())
            .stack_size(PARSER_STACK_BYTES)
            .spawn_scoped(scope, move || parse_on_current_thread(src, dialect, opts));
        match handle {
            Ok(h) => match h.join() {
                Ok(r) => r,
                Err(_) => Err(internal("the parser panicked")),
            },
            Err(_) => Err(internal("could not start the parser thread")),
        }
    })
}

/// Same as [`parse_with_options`] but always runs on the calling thread without a stack
/// budget: the caller must provide enough stack for [`MAX_DEPTH`] nested constructs (about
/// 1 MiB in optimised builds, several MiB in unoptimised ones).
pub fn parse_on_current_thread(src: &[u8], dialect: Dialect, opts: ParseOptions) -> Result<Program, ParseError> {
    let (toks, _comments) = lex(src, dialect)?;
    run(toks, dialect, opts, usize::MAX).0
}

fn run(toks: Vec<Token>, dialect: Dialect, opts: ParseOptions, stack_budget: usize) -> (Result<Program, ParseError>, bool) {
    let mut p = P {
        toks,
        i: 0,
        dialect,
        nodes: Vec::new(),
        depth: 0,
        funcs: vec![FnCtx { vararg: true, loop_depth: 0 }],
        opts,
        stack_base: stack_address(),
        stack_budget,
        budget_exceeded: false,
    };
    let result = match p.block() {
        Ok(root) => {
            if p.cur().kind != TokKind::Eof {
                p.err("'<eof>' expected")
            } else {
                Ok(Program { root, nodes: std::mem::take(&mut p.nodes) })
            }
        }
        Err(e) => Err(e),
    };
    (result, p.budget_exceeded)
}
