//! Luau type grammar (`Parser::parseType` and friends). Types are parsed only to be
//! skipped correctly; nothing is emitted into the node table.

use crate::lexer::TokKind;
use crate::parser::{P, R};
use std::cell::Cell;

thread_local! {
    /// number of type-syntax constructs (annotations, return types, generic lists, casts, type declarations, type
    /// instantiations) and of attributes met by the parser on this thread since the last reset (see `crate::census`)
    pub(crate) static TYPE_SYNTAX: Cell<usize> = const { Cell::new(0) };
    pub(crate) static ATTRIBUTES: Cell<usize> = const { Cell::new(0) };
}

thread_local! {
    /// kinds (and payloads) of the nodes parsed inside `typeof(...)` and then dropped from the node table
    pub(crate) static DISCARDED: std::cell::RefCell<Vec<(String, Vec<u8>, usize)>> = const { std::cell::RefCell::new(Vec::new()) };
}

pub(crate) fn note_discarded(nodes: &[crate::Node]) {
    DISCARDED.with(|d| d.borrow_mut().extend(nodes.iter().map(|n| (n.k.clone(), n.s.clone(), n.c))));
}

pub(crate) fn note_type_syntax() {
    TYPE_SYNTAX.with(|c| c.set(c.get() + 1));
}

pub(crate) fn note_attribute() {
    ATTRIBUTES.with(|c| c.set(c.get() + 1));
}

/// What a parenthesised construct turned out to be.
#[derive(Debug, Clone, Copy, PartialEq, Eq)]
pub(crate) enum Ty {
    /// an ordinary type
    Type,
    /// `(T)`: a parenthesised single type (or, where packs are allowed, a one-element pack);
    /// union/intersection/optional suffixes may follow
    Single,
    /// a type pack: `()`, `(A, B)`, `(A, ...B)`
    Pack,
}

impl P {
    fn is_dots(&self) -> bool {
        self.is_sym(b"...")
    }

    /// `Name ...` : a generic type pack reference
    fn at_generic_pack(&self) -> bool {
        self.is_name() && Self::tok_is_sym(self.peek(1), b"...")
    }

    /// A single type: optional leading `|`/`&`, a simple type, then union / intersection /
    /// optional suffixes.
    pub(crate) fn parse_type(&mut self) -> R<()> {
        note_type_syntax();
        let mut union = false;
        let mut inter = false;
        if self.accept_sym(b"|") {
            union = true;
        } else if self.accept_sym(b"&") {
            inter = true;
        }
        match self.simple_type(false)? {
            Ty::Pack => return self.err("a type pack is not allowed here"),
            Ty::Type | Ty::Single => {}
        }
        self.type_suffix(union, inter)
    }

    fn type_suffix(&mut self, mut union: bool, mut inter: bool) -> R<()> {
        loop {
            if self.accept_sym(b"|") {
                union = true;
                if self.simple_type(false)? == Ty::Pack {
                    return self.err("a type pack is not allowed here");
                }
            } else if self.accept_sym(b"?") {
                union = true;
            } else if self.accept_sym(b"&") {
                inter = true;
                if self.simple_type(false)? == Ty::Pack {
                    return self.err("a type pack is not allowed here");
                }
            } else if self.is_dots() {
                return self.err("unexpected '...' after type annotation");
            } else {
                break;
            }
            if union && inter {
                return self.err("mixing union and intersection types is not allowed; wrap in parentheses");
            }
        }
        Ok(())
    }

    /// A type or a type pack (generic arguments, defaults, explicit instantiation).
    pub(crate) fn parse_type_or_pack(&mut self) -> R<()> {
        note_type_syntax();
        if self.is_dots() {
            self.advance();
            return self.parse_type();
        }
        if self.at_generic_pack() {
            self.advance();
            self.advance();
            return Ok(());
        }
        if self.is_sym(b"(") {
            return match self.simple_type(true)? {
                Ty::Pack => Ok(()),
                Ty::Type | Ty::Single => self.type_suffix(false, false),
            };
        }
        self.parse_type()
    }

    /// Annotation after `...:` in a parameter list: `T` or `T...`.
    pub(crate) fn variadic_annotation(&mut self) -> R<()> {
        if self.at_generic_pack() {
            self.advance();
            self.advance();
            Ok(())
        } else {
            self.parse_type()
        }
    }

    /// After `:` of a function declaration or `->` of a function type.
    pub(crate) fn parse_return_type(&mut self) -> R<()> {
        note_type_syntax();
        if !self.is_sym(b"(") {
            if self.is_dots() {
                self.advance();
                return self.parse_type();
            }
            if self.at_generic_pack() {
                self.advance();
                self.advance();
                return Ok(());
            }
            return self.parse_type();
        }
        self.enter()?;
        let open_line = self.cur().line;
        self.advance(); // (
        let (count, named, vararg) = self.type_list()?;
        if !self.accept_sym(b")") {
            return self.err(&format!("')' expected (to close '(' at line {})", open_line));
        }
        self.leave();
        if !self.is_sym(b"->") && !named {
            if count == 1 && !vararg {
                return self.type_suffix(false, false);
            }
            return Ok(());
        }
        if !self.accept_sym(b"->") {
            return self.err("'->' expected when parsing function type");
        }
        self.parse_return_type()?;
        self.type_suffix(false, false)
    }

    /// Comma separated `[name:] Type` items, possibly ended by `...T` / `T...`.
    /// Returns (number of plain items, any item was named, ended with a variadic tail).
    fn type_list(&mut self) -> R<(usize, bool, bool)> {
        let mut count = 0;
        let mut named = false;
        if self.is_sym(b")") {
            return Ok((0, false, false));
        }
        loop {
            if self.is_dots() {
                self.advance();
                self.parse_type()?;
                return Ok((count, named, true));
            }
            if self.at_generic_pack() {
                self.advance();
                self.advance();
                return Ok((count, named, true));
            }
            if self.is_name() && Self::tok_is_sym(self.peek(1), b":") {
                named = true;
                self.advance();
                self.advance();
            }
            self.parse_type()?;
            count += 1;
            if !self.accept_sym(b",") {
                return Ok((count, named, false));
            }
        }
    }

    /// `[<generics>] ( list ) [-> return]` — function type, parenthesised type or pack.
    fn function_or_paren_type(&mut self, allow_pack: bool) -> R<Ty> {
        let mut force_function = false;
        if self.is_sym(b"<") {
            self.generic_decl_list(false)?;
            force_function = true;
        }
        let open_line = self.cur().line;
        self.expect_sym(b"(")?;
        let (count, named, vararg) = self.type_list()?;
        if !self.accept_sym(b")") {
            return self.err(&format!("')' expected (to close '(' at line {})", open_line));
        }
        let arrow = self.is_sym(b"->");
        if !arrow && !force_function {
            if count == 1 && !vararg && !named {
                return Ok(Ty::Single);
            }
            if allow_pack && !named {
                return Ok(Ty::Pack);
            }
        }
        if !self.accept_sym(b"->") {
            return self.err("'->' expected when parsing function type");
        }
        self.parse_return_type()?;
        Ok(Ty::Type)
    }

    fn simple_type(&mut self, allow_pack: bool) -> R<Ty> {
        self.enter()?;
        let r = self.simple_type_inner(allow_pack);
        self.leave();
        r
    }

    fn simple_type_inner(&mut self, allow_pack: bool) -> R<Ty> {
        let t = self.cur().clone();
        match t.kind {
            TokKind::Keyword => match &t.text[..] {
                b"nil" | b"true" | b"false" => {
                    self.advance();
                    Ok(Ty::Type)
                }
                b"function" => self.err("a function type is written '(T) -> R', not with 'function'"),
                _ => self.err("type expected"),
            },
            TokKind::String => {
                self.advance();
                Ok(Ty::Type)
            }
            TokKind::Name => {
                self.advance();
                if self.is_sym(b".") {
                    self.advance();
                    self.expect_name()?;
                } else if self.is_dots() {
                    return self.err("unexpected '...' after type name; type packs are not allowed here");
                } else if t.text == b"typeof" {
                    self.expect_sym(b"(")?;
                    let mark = self.nodes.len();
                    self.expr()?;
                    note_discarded(&self.nodes[mark..]);
                    self.nodes.truncate(mark);
                    self.expect_sym(b")")?;
                    return Ok(Ty::Type);
                }
                if self.is_sym(b"<") {
                    self.type_params()?;
                }
                Ok(Ty::Type)
            }
            TokKind::Symbol => match &t.text[..] {
                b"{" => {
                    self.table_type()?;
                    Ok(Ty::Type)
                }
                b"(" | b"<" => self.function_or_paren_type(allow_pack),
                _ => self.err("type expected"),
            },
            _ => self.err("type expected"),
        }
    }

    /// `< [TypeOrPack {, TypeOrPack}] >` after a type name.
    fn type_params(&mut self) -> R<()> {
        self.expect_sym(b"<")?;
        if self.accept_sym(b">") {
            return Ok(());
        }
        loop {
            self.parse_type_or_pack()?;
            if !self.accept_sym(b",") {
                break;
            }
        }
        self.expect_sym(b">")
    }

    /// `<<T, U...>>` explicit instantiation; the first `<` is current.
    pub(crate) fn type_instantiation(&mut self) -> R<()> {
        self.expect_sym(b"<")?;
        self.expect_sym(b"<")?;
        if !self.is_sym(b">") {
            loop {
                self.parse_type_or_pack()?;
                if !self.accept_sym(b",") {
                    break;
                }
            }
        }
        self.expect_sym(b">")?;
        self.expect_sym(b">")
    }

    /// `< T [= D], U... [= P] >` generic declaration list; defaults only where allowed.
    pub(crate) fn generic_decl_list(&mut self, with_defaults: bool) -> R<()> {
        note_type_syntax();
        self.expect_sym(b"<")?;
        let mut seen_pack = false;
        let mut seen_default = false;
        loop {
            self.expect_name()?;
            if self.accept_sym(b"...") {
                seen_pack = true;
                if with_defaults && self.accept_sym(b"=") {
                    seen_default = true;
                    // the default of a generic pack must itself be a pack
                    if self.is_dots() {
                        self.advance();
                        self.parse_type()?;
                    } else if self.at_generic_pack() {
                        self.advance();
                        self.advance();
                    } else if self.is_sym(b"(") {
                        if self.simple_type(true)? == Ty::Type {
                            return self.err("a type pack is expected as the default of a generic type pack");
                        }
                    } else {
                        return self.err("a type pack is expected as the default of a generic type pack");
                    }
                } else if seen_default {
                    return self.err("a default type pack is expected after earlier defaults");
                }
            } else {
                if seen_pack {
                    return self.err("generic types must come before generic type packs");
                }
                if with_defaults && self.accept_sym(b"=") {
                    seen_default = true;
                    self.parse_type()?;
                } else if seen_default {
                    return self.err("a default type is expected after earlier defaults");
                }
            }
            if !self.accept_sym(b",") {
                break;
            }
        }
        self.expect_sym(b">")
    }

    fn table_type(&mut self) -> R<()> {
        let open_line = self.cur().line;
        self.expect_sym(b"{")?;
        let mut props = 0usize;
        let mut indexer = false;
        while !self.is_sym(b"}") {
            if self.is_name()
                && !Self::tok_is_sym(self.peek(1), b":")
                && (self.cur().text == b"read" || self.cur().text == b"write")
            {
                self.advance();
            }
            if self.is_sym(b"[") {
                self.advance();
                if self.cur().kind == TokKind::String && Self::tok_is_sym(self.peek(1), b"]") {
                    self.advance();
                    self.advance();
                    self.expect_sym(b":")?;
                    self.parse_type()?;
                    props += 1;
                } else {
                    if indexer {
                        return self.err("cannot have more than one table indexer");
                    }
                    self.parse_type()?;
                    self.expect_sym(b"]")?;
                    self.expect_sym(b":")?;
                    self.parse_type()?;
                    indexer = true;
                }
            } else if props == 0
                && !indexer
                && !(self.is_name() && Self::tok_is_sym(self.peek(1), b":"))
            {
                // array-like table type `{T}`
                self.parse_type()?;
                break;
            } else {
                self.expect_name()?;
                self.expect_sym(b":")?;
                self.parse_type()?;
                props += 1;
            }
            if self.is_sym(b",") || self.is_sym(b";") {
                self.advance();
            } else {
                break;
            }
        }
        if !self.accept_sym(b"}") {
            return self.err(&format!("'}}' expected (to close '{{' at line {})", open_line));
        }
        Ok(())
    }
}
