//! JSON serialisation of the node table (NODEFORMAT.md).

use crate::{Node, Program};
use serde_json::{json, Map, Value};

/// Canonical bit pattern of a double: all NaNs become 0x7ff8000000000000.
pub fn canonical_bits(x: f64) -> u64 {
    if x.is_nan() {
        0x7ff8_0000_0000_0000
    } else {
        x.to_bits()
    }
}

/// `(hi, lo)` signed 32-bit halves of the (canonicalised) bit pattern.
pub fn hi_lo(x: f64) -> (i32, i32) {
    let bits = canonical_bits(x);
    ((bits >> 32) as u32 as i32, bits as u32 as i32)
}

/// Latin-1 mapping: byte `n` becomes the character U+00nn.
pub fn latin1(bytes: &[u8]) -> String {
    bytes.iter().map(|&b| b as char).collect()
}

fn write_str(out: &mut String, bytes: &[u8]) {
    out.push('"');
    for &b in bytes {
        if (0x20..=0x7e).contains(&b) && b != b'"' && b != b'\\' {
            out.push(b as char);
        } else {
            out.push_str(&format!("\\u{:04x}", b));
        }
    }
    out.push('"');
}

fn write_ids(out: &mut String, ids: &[usize]) {
    out.push('[');
    for (i, id) in ids.iter().enumerate() {
        if i > 0 {
            out.push(',');
        }
        out.push_str(&id.to_string());
    }
    out.push(']');
}

impl Node {
    pub fn to_json(&self) -> Value {
        let (hi, lo) = hi_lo(self.num);
        let mut m = Map::new();
        m.insert("k".into(), json!(self.k));
        m.insert("a".into(), json!(self.a));
        m.insert("b".into(), json!(self.b));
        m.insert("c".into(), json!(self.c));
        m.insert("s".into(), json!(latin1(&self.s)));
        m.insert("l".into(), json!(self.l));
        m.insert("m".into(), json!(self.m));
        m.insert("ns".into(), Value::Array(self.ns.iter().map(|n| json!(latin1(n))).collect()));
        m.insert("hi".into(), json!(hi));
        m.insert("lo".into(), json!(lo));
        Value::Object(m)
    }

    fn write_json(&self, out: &mut String) {
        let (hi, lo) = hi_lo(self.num);
        out.push_str("{\"k\":");
        write_str(out, self.k.as_bytes());
        out.push_str(&format!(",\"a\":{},\"b\":{},\"c\":{},\"s\":", self.a, self.b, self.c));
        write_str(out, &self.s);
        out.push_str(",\"l\":");
        write_ids(out, &self.l);
        out.push_str(",\"m\":");
        write_ids(out, &self.m);
        out.push_str(",\"ns\":[");
        for (i, n) in self.ns.iter().enumerate() {
            if i > 0 {
                out.push(',');
            }
            write_str(out, n);
        }
        out.push_str(&format!("],\"hi\":{},\"lo\":{}}}", hi, lo));
    }
}

impl Program {
    /// JSON value; strings use the Latin-1 mapping (byte n = U+00nn). Note that
    /// `serde_json`'s own serialiser would write those characters as raw UTF-8: use
    /// [`Program::to_json_string`] to get the `\u00XX`-escaped text form.
    pub fn to_json(&self) -> Value {
        json!({
            "root": self.root,
            "nodes": Value::Array(self.nodes.iter().map(|n| n.to_json()).collect()),
        })
    }

    /// Text form required by NODEFORMAT.md: pure ASCII, every byte outside 0x20..0x7e and
    /// `"` / `\` written as `\u00XX`.
    pub fn to_json_string(&self) -> String {
        let mut out = String::new();
        out.push_str(&format!("{{\"root\":{},\"nodes\":[", self.root));
        for (i, n) in self.nodes.iter().enumerate() {
            if i > 0 {
                out.push(',');
            }
            out.push('\n');
            n.write_json(&mut out);
        }
        out.push_str("\n]}");
        out
    }
}
