//! Lexer for Lua 5.1 (`llex.c`) and Luau (`Lexer.cpp`).

use crate::number::{parse_number_literal, scan_number_run};
use crate::strings::{scan_segment, SegEnd};
use crate::Dialect;

#[derive(Debug, Clone, Copy, PartialEq, Eq)]
pub enum TokKind {
    Name,
    Keyword,
    Number,
    String,
    Symbol,
    /// `` `text{ ``
    InterpBegin,
    /// `}text{`
    InterpMid,
    /// `` }text` ``
    InterpEnd,
    /// `` `text` `` (no interpolation)
    InterpSimple,
    Eof,
}

#[derive(Debug, Clone, PartialEq)]
pub struct Token {
    pub kind: TokKind,
    /// byte offset of the first byte of the lexeme
    pub start: usize,
    /// byte offset one past the last byte of the lexeme
    pub end: usize,
    /// 1-based line of the first byte: `1 + number of LF bytes before start`
    pub line: usize,
    /// raw lexeme bytes
    pub text: Vec<u8>,
    /// decoded bytes for `String` and `Interp*` tokens
    pub str_value: Option<Vec<u8>>,
    /// value for `Number` tokens
    pub num_value: Option<f64>,
}

#[derive(Debug, Clone, PartialEq)]
pub struct Comment {
    pub start: usize,
    pub end: usize,
    pub line: usize,
    /// the full comment lexeme including the leading `--`
    pub text: Vec<u8>,
    pub long: bool,
}

#[derive(Debug, Clone, PartialEq)]
pub struct LexError {
    pub offset: usize,
    pub line: usize,
    pub message: String,
}

impl std::fmt::Display for LexError {
    fn fmt(&self, f: &mut std::fmt::Formatter<'_>) -> std::fmt::Result {
        write!(f, "lex error at byte {} (line {}): {}", self.offset, self.line, self.message)
    }
}

impl std::error::Error for LexError {}

pub const KEYWORDS: [&str; 21] = [
    "and", "break", "do", "else", "elseif", "end", "false", "for", "function", "if", "in",
    "local", "nil", "not", "or", "repeat", "return", "then", "true", "until", "while",
];

pub fn is_keyword(name: &[u8]) -> bool {
    KEYWORDS.iter().any(|k| k.as_bytes() == name)
}

#[derive(Clone, Copy, PartialEq, Eq)]
enum Brace {
    Normal,
    Interp,
}

struct Lexer<'a> {
    src: &'a [u8],
    pos: usize,
    dialect: Dialect,
    tokens: Vec<Token>,
    comments: Vec<Comment>,
    braces: Vec<Brace>,
    // incremental line counter
    line_pos: usize,
    line_no: usize,
}

fn is_space(c: u8) -> bool {
    matches!(c, b' ' | b'\t' | b'\n' | 0x0b | 0x0c | b'\r')
}

fn printable(bytes: &[u8]) -> String {
    let mut s = String::new();
    for &b in bytes.iter().take(40) {
        if (0x20..0x7f).contains(&b) {
            s.push(b as char);
        } else {
            s.push_str(&format!("\\x{:02x}", b));
        }
    }
    if bytes.len() > 40 {
        s.push_str("...");
    }
    s
}

impl<'a> Lexer<'a> {
    fn line_at(&mut self, offset: usize) -> usize {
        let offset = offset.min(self.src.len());
        if offset < self.line_pos {
            self.line_pos = 0;
            self.line_no = 1;
        }
        while self.line_pos < offset {
            if self.src[self.line_pos] == b'\n' {
                self.line_no += 1;
            }
            self.line_pos += 1;
        }
        self.line_no
    }

    fn error<T>(&mut self, offset: usize, message: String) -> Result<T, LexError> {
        let line = self.line_at(offset);
        Err(LexError { offset: offset.min(self.src.len()), line, message })
    }

    fn peek(&self, k: usize) -> Option<u8> {
        self.src.get(self.pos + k).copied()
    }

    fn push(&mut self, kind: TokKind, start: usize, end: usize, sv: Option<Vec<u8>>, nv: Option<f64>) {
        let line = self.line_at(start);
        self.tokens.push(Token {
            kind,
            start,
            end,
            line,
            text: self.src[start..end].to_vec(),
            str_value: sv,
            num_value: nv,
        });
    }

    fn sym(&mut self, len: usize) {
        let start = self.pos;
        self.pos += len;
        self.push(TokKind::Symbol, start, start + len, None, None);
    }

    /// At `self.src[p] == '[' or ']'`: count the `=` that follow. Returns
    /// `Ok(level)` when the run is closed by the same bracket, else `Err(count)`.
    fn long_sep(&self, p: usize) -> Result<usize, usize> {
        let b = self.src[p];
        let mut i = p + 1;
        let mut count = 0;
        while i < self.src.len() && self.src[i] == b'=' {
            i += 1;
            count += 1;
        }
        if i < self.src.len() && self.src[i] == b {
            Ok(count)
        } else {
            Err(count)
        }
    }

    /// Read a long bracket body. `open` is the offset of the first `[`, `level` its
    /// level. Returns (decoded content, offset after the closing bracket).
    fn read_long(&mut self, open: usize, level: usize, what: &str) -> Result<(Vec<u8>, usize), LexError> {
        let src = self.src;
        let n = src.len();
        let luau = self.dialect == Dialect::Luau;
        let mut i = open + level + 2;
        let mut out = Vec::new();
        // skip the first newline
        if luau {
            // Luau fixupMultilineString: only LF and CR LF
            if i + 1 < n && src[i] == b'\r' && src[i + 1] == b'\n' {
                i += 2;
            } else if i < n && src[i] == b'\n' {
                i += 1;
            }
        } else if i < n && (src[i] == b'\n' || src[i] == b'\r') {
            // llex.c inclinenumber: LF, CR, CR LF, LF CR
            let first = src[i];
            i += 1;
            if i < n && (src[i] == b'\n' || src[i] == b'\r') && src[i] != first {
                i += 1;
            }
        }
        loop {
            if i >= n {
                return self.error(open, format!("unfinished long {}", what));
            }
            let c = src[i];
            match c {
                b']' => {
                    // count '=' and look for the second ']'
                    let mut j = i + 1;
                    let mut cnt = 0;
                    while j < n && src[j] == b'=' {
                        j += 1;
                        cnt += 1;
                    }
                    if j < n && src[j] == b']' && cnt == level {
                        return Ok((out, j + 1));
                    }
                    // not a matching close: keep the consumed run, resume at j (which may be
                    // another ']')
                    out.extend_from_slice(&src[i..j]);
                    i = j;
                }
                0 if luau => {
                    return self.error(i, format!("NUL byte in long {} (Luau treats it as end of input)", what));
                }
                b'\r' | b'\n' => {
                    if luau {
                        // CR LF -> LF ; lone CR kept ; LF kept
                        if c == b'\r' && i + 1 < n && src[i + 1] == b'\n' {
                            out.push(b'\n');
                            i += 2;
                        } else {
                            out.push(c);
                            i += 1;
                        }
                    } else {
                        // every newline sequence (LF, CR, CRLF, LFCR) becomes one LF
                        out.push(b'\n');
                        i += 1;
                        if i < n && (src[i] == b'\n' || src[i] == b'\r') && src[i] != c {
                            i += 1;
                        }
                    }
                }
                _ => {
                    out.push(c);
                    i += 1;
                }
            }
        }
    }

    fn read_comment(&mut self) -> Result<(), LexError> {
        let start = self.pos;
        let n = self.src.len();
        let mut i = start + 2;
        if i < n && self.src[i] == b'[' {
            if let Ok(level) = self.long_sep(i) {
                let (_, end) = self.read_long(i, level, "comment")?;
                let line = self.line_at(start);
                self.comments.push(Comment {
                    start,
                    end,
                    line,
                    text: self.src[start..end].to_vec(),
                    long: true,
                });
                self.pos = end;
                return Ok(());
            }
        }
        while i < n && self.src[i] != b'\n' && self.src[i] != b'\r' {
            if self.src[i] == 0 && self.dialect == Dialect::Luau {
                return self.error(i, "NUL byte in comment (Luau treats it as end of input)".into());
            }
            i += 1;
        }
        let line = self.line_at(start);
        self.comments.push(Comment {
            start,
            end: i,
            line,
            text: self.src[start..i].to_vec(),
            long: false,
        });
        self.pos = i;
        Ok(())
    }

    fn read_number(&mut self) -> Result<(), LexError> {
        let start = self.pos;
        let len = scan_number_run(self.src, start, self.dialect);
        let text = &self.src[start..start + len];
        match parse_number_literal(text, self.dialect) {
            Some(v) => {
                self.pos = start + len;
                self.push(TokKind::Number, start, start + len, None, Some(v));
                Ok(())
            }
            None => {
                let msg = format!("malformed number near '{}'", printable(text));
                self.error(start, msg)
            }
        }
    }

    /// Read an interpolated-string section starting at `content` (first content byte);
    /// `start` is the offset of the introducing `` ` `` or `}`.
    fn read_interp_section(&mut self, start: usize, content: usize, first: bool) -> Result<(), LexError> {
        match scan_segment(self.src, content, b'`', self.dialect) {
            Ok((bytes, how, end)) => {
                let kind = match (first, how) {
                    (true, SegEnd::Delim) => TokKind::InterpSimple,
                    (true, SegEnd::Brace) => TokKind::InterpBegin,
                    (false, SegEnd::Delim) => TokKind::InterpEnd,
                    (false, SegEnd::Brace) => TokKind::InterpMid,
                };
                if how == SegEnd::Brace {
                    self.braces.push(Brace::Interp);
                }
                self.pos = end;
                self.push(kind, start, end, Some(bytes), None);
                Ok(())
            }
            Err(e) => self.error(e.offset, format!("{} (interpolated string starting at byte {})", e.message, start)),
        }
    }

    fn run(&mut self) -> Result<(), LexError> {
        let luau = self.dialect == Dialect::Luau;
        loop {
            while self.pos < self.src.len() && is_space(self.src[self.pos]) {
                self.pos += 1;
            }
            if self.pos >= self.src.len() {
                let p = self.src.len();
                self.push(TokKind::Eof, p, p, None, None);
                return Ok(());
            }
            let c = self.src[self.pos];
            let c1 = self.peek(1);
            let c2 = self.peek(2);
            match c {
                b'a'..=b'z' | b'A'..=b'Z' | b'_' => {
                    let start = self.pos;
                    let mut i = start + 1;
                    while i < self.src.len() && (self.src[i].is_ascii_alphanumeric() || self.src[i] == b'_') {
                        i += 1;
                    }
                    self.pos = i;
                    let kind = if is_keyword(&self.src[start..i]) { TokKind::Keyword } else { TokKind::Name };
                    self.push(kind, start, i, None, None);
                }
                b'0'..=b'9' => self.read_number()?,
                b'"' | b'\'' => {
                    let start = self.pos;
                    match scan_segment(self.src, start + 1, c, self.dialect) {
                        Ok((bytes, _, end)) => {
                            self.pos = end;
                            self.push(TokKind::String, start, end, Some(bytes), None);
                        }
                        Err(e) => {
                            let msg = format!("{} (string starting at byte {})", e.message, start);
                            return self.error(e.offset, msg);
                        }
                    }
                }
                b'`' => {
                    if !luau {
                        return self.error(self.pos, "unexpected symbol '`' (interpolated strings are Luau only)".into());
                    }
                    let start = self.pos;
                    self.read_interp_section(start, start + 1, true)?;
                }
                b'[' => match self.long_sep(self.pos) {
                    Ok(level) => {
                        let start = self.pos;
                        let (bytes, end) = self.read_long(start, level, "string")?;
                        self.pos = end;
                        self.push(TokKind::String, start, end, Some(bytes), None);
                    }
                    Err(0) => self.sym(1),
                    Err(_) => {
                        return self.error(self.pos, "invalid long string delimiter".into());
                    }
                },
                b'-' => {
                    if c1 == Some(b'-') {
                        self.read_comment()?;
                    } else if luau && (c1 == Some(b'>') || c1 == Some(b'=')) {
                        self.sym(2);
                    } else {
                        self.sym(1);
                    }
                }
                b'.' => {
                    if c1 == Some(b'.') {
                        if c2 == Some(b'.') {
                            self.sym(3);
                        } else if luau && c2 == Some(b'=') {
                            self.sym(3);
                        } else {
                            self.sym(2);
                        }
                    } else if c1.map_or(false, |d| d.is_ascii_digit()) {
                        self.read_number()?;
                    } else {
                        self.sym(1);
                    }
                }
                b'=' | b'<' | b'>' => {
                    if c1 == Some(b'=') {
                        self.sym(2);
                    } else {
                        self.sym(1);
                    }
                }
                b'~' => {
                    if c1 == Some(b'=') {
                        self.sym(2);
                    } else {
                        return self.error(self.pos, "unexpected symbol '~'".into());
                    }
                }
                b':' => {
                    if luau && c1 == Some(b':') {
                        self.sym(2);
                    } else {
                        self.sym(1);
                    }
                }
                b'/' => {
                    if luau && c1 == Some(b'/') {
                        if c2 == Some(b'=') {
                            self.sym(3);
                        } else {
                            self.sym(2);
                        }
                    } else if luau && c1 == Some(b'=') {
                        self.sym(2);
                    } else {
                        self.sym(1);
                    }
                }
                b'+' | b'*' | b'%' | b'^' => {
                    if luau && c1 == Some(b'=') {
                        self.sym(2);
                    } else {
                        self.sym(1);
                    }
                }
                b'{' => {
                    if luau {
                        self.braces.push(Brace::Normal);
                    }
                    self.sym(1);
                }
                b'}' => {
                    if luau {
                        match self.braces.pop() {
                            Some(Brace::Interp) => {
                                let start = self.pos;
                                self.read_interp_section(start, start + 1, false)?;
                            }
                            _ => self.sym(1),
                        }
                    } else {
                        self.sym(1);
                    }
                }
                b'(' | b')' | b']' | b';' | b',' | b'#' => self.sym(1),
                b'?' | b'&' | b'|' | b'@' if luau => self.sym(1),
                0 => {
                    let msg = if luau {
                        "NUL byte in source (Luau treats it as end of input)"
                    } else {
                        "unexpected symbol '\\0'"
                    };
                    return self.error(self.pos, msg.into());
                }
                _ => {
                    let msg = format!("unexpected symbol '{}'", printable(&[c]));
                    return self.error(self.pos, msg);
                }
            }
        }
    }
}

/// Tokenise `src`. The last token is always `Eof`. Comments are returned separately.
pub fn lex(src: &[u8], dialect: Dialect) -> Result<(Vec<Token>, Vec<Comment>), LexError> {
    let mut lx = Lexer {
        src,
        pos: 0,
        dialect,
        tokens: Vec::new(),
        comments: Vec::new(),
        braces: Vec::new(),
        line_pos: 0,
        line_no: 1,
    };
    lx.run()?;
    Ok((lx.tokens, lx.comments))
}
