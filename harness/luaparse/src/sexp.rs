//! Compact S-expression rendering of a node table (debugging / tests).

use crate::{Node, Program};

fn esc(bytes: &[u8]) -> String {
    let mut s = String::new();
    for &b in bytes {
        match b {
            b'"' => s.push_str("\\\""),
            b'\\' => s.push_str("\\\\"),
            0x20..=0x7e => s.push(b as char),
            _ => s.push_str(&format!("\\x{:02x}", b)),
        }
    }
    s
}

fn name(bytes: &[u8]) -> String {
    esc(bytes)
}

impl Program {
    /// Render the tree below `root` as an S-expression. Unknown / dangling ids print as `?`;
    /// subtrees nested deeper than 400 levels print as `...`.
    pub fn to_sexp(&self) -> String {
        let mut out = String::new();
        self.sexp(self.root, &mut out, 0);
        out
    }

    fn list(&self, ids: &[usize], out: &mut String, depth: usize) {
        for (i, &id) in ids.iter().enumerate() {
            if i > 0 {
                out.push(' ');
            }
            self.sexp(id, out, depth);
        }
    }

    fn names(&self, ns: &[Vec<u8>]) -> String {
        let v: Vec<String> = ns.iter().map(|n| name(n)).collect();
        format!("[{}]", v.join(" "))
    }

    fn sexp(&self, id: usize, out: &mut String, depth: usize) {
        if depth > 400 {
            out.push_str("...");
            return;
        }
        let d = depth + 1;
        let n: &Node = match self.node(id) {
            Some(n) => n,
            None => {
                out.push_str(if id == 0 { "_" } else { "?" });
                return;
            }
        };
        match n.k.as_str() {
            "nil" | "true" | "false" | "break" | "continue" | "typedecl" => out.push_str(&n.k),
            "vararg" => out.push_str("..."),
            "num" => {
                out.push('#');
                out.push_str(&name(&n.s));
            }
            "str" => {
                out.push('"');
                out.push_str(&esc(&n.s));
                out.push('"');
            }
            "var" => out.push_str(&name(&n.s)),
            "fn" => {
                out.push_str("(fn ");
                let mut ns = n.ns.clone();
                if n.c == 1 {
                    ns.push(b"...".to_vec());
                }
                out.push_str(&self.names(&ns));
                out.push(' ');
                self.sexp(n.b, out, d);
                out.push(')');
            }
            "paren" | "not" | "neg" | "len" | "cast" | "tinst" | "do" | "callstmt" | "ival" | "tpos" => {
                out.push('(');
                out.push_str(match n.k.as_str() {
                    "ival" => "val",
                    "tpos" => "pos",
                    k => k,
                });
                out.push(' ');
                self.sexp(n.a, out, d);
                out.push(')');
            }
            "bin" | "and" | "or" => {
                out.push('(');
                if n.k == "bin" {
                    out.push_str(&name(&n.s));
                } else {
                    out.push_str(&n.k);
                }
                out.push(' ');
                self.sexp(n.a, out, d);
                out.push(' ');
                self.sexp(n.b, out, d);
                out.push(')');
            }
            "call" => {
                out.push_str("(call ");
                self.sexp(n.a, out, d);
                if !n.l.is_empty() {
                    out.push(' ');
                    self.list(&n.l, out, d);
                }
                out.push(')');
            }
            "mcall" => {
                out.push_str("(mcall ");
                self.sexp(n.a, out, d);
                out.push(' ');
                out.push_str(&name(&n.s));
                if !n.l.is_empty() {
                    out.push(' ');
                    self.list(&n.l, out, d);
                }
                out.push(')');
            }
            "index" => {
                out.push_str("(index ");
                self.sexp(n.a, out, d);
                out.push(' ');
                self.sexp(n.b, out, d);
                out.push(')');
            }
            "field" => {
                out.push_str("(. ");
                self.sexp(n.a, out, d);
                out.push(' ');
                out.push_str(&name(&n.s));
                out.push(')');
            }
            "table" => {
                out.push('{');
                self.list(&n.l, out, d);
                out.push('}');
            }
            "tnamed" => {
                out.push_str("(named ");
                out.push_str(&name(&n.s));
                out.push(' ');
                self.sexp(n.a, out, d);
                out.push(')');
            }
            "tkey" => {
                out.push_str("(key ");
                self.sexp(n.a, out, d);
                out.push(' ');
                self.sexp(n.b, out, d);
                out.push(')');
            }
            "ifexp" => {
                out.push_str("(ifexp ");
                self.sexp(n.a, out, d);
                out.push(' ');
                self.sexp(n.b, out, d);
                out.push(' ');
                self.sexp(n.c, out, d);
                out.push(')');
            }
            "interp" => {
                out.push_str("(interp");
                if !n.l.is_empty() {
                    out.push(' ');
                    self.list(&n.l, out, d);
                }
                out.push(')');
            }
            "istr" => {
                out.push('"');
                out.push_str(&esc(&n.s));
                out.push('"');
            }
            "block" => {
                out.push('[');
                self.list(&n.l, out, d);
                out.push(']');
            }
            "local" => {
                out.push_str(if n.c == 1 { "(const " } else { "(local " });
                out.push_str(&self.names(&n.ns));
                if !n.l.is_empty() {
                    out.push(' ');
                    self.list(&n.l, out, d);
                }
                out.push(')');
            }
            "localfn" => {
                out.push_str(if n.c == 1 { "(constfn " } else { "(localfn " });
                out.push_str(&name(&n.s));
                out.push(' ');
                self.sexp(n.a, out, d);
                out.push(')');
            }
            "assign" => {
                out.push_str("(assign [");
                self.list(&n.l, out, d);
                out.push_str("] [");
                self.list(&n.m, out, d);
                out.push_str("])");
            }
            "compound" => {
                out.push_str("(compound ");
                out.push_str(&name(&n.s));
                out.push(' ');
                self.sexp(n.a, out, d);
                out.push(' ');
                self.sexp(n.b, out, d);
                out.push(')');
            }
            "funcstmt" => {
                out.push_str("(funcstmt ");
                let path: Vec<String> = n.ns.iter().map(|x| name(x)).collect();
                out.push_str(&path.join("."));
                if !n.s.is_empty() {
                    out.push(':');
                    out.push_str(&name(&n.s));
                }
                out.push(' ');
                self.sexp(n.a, out, d);
                out.push(')');
            }
            "if" => {
                out.push_str("(if ");
                self.list(&n.l, out, d);
                if n.c != 0 {
                    out.push_str(" else ");
                    self.sexp(n.c, out, d);
                }
                out.push(')');
            }
            "while" | "repeat" => {
                out.push('(');
                out.push_str(&n.k);
                out.push(' ');
                self.sexp(n.a, out, d);
                out.push(' ');
                self.sexp(n.b, out, d);
                out.push(')');
            }
            "numfor" => {
                out.push_str("(numfor ");
                out.push_str(&name(&n.s));
                out.push(' ');
                self.list(&n.l, out, d);
                out.push(' ');
                self.sexp(n.b, out, d);
                out.push(')');
            }
            "genfor" => {
                out.push_str("(genfor ");
                out.push_str(&self.names(&n.ns));
                out.push_str(" [");
                self.list(&n.l, out, d);
                out.push_str("] ");
                self.sexp(n.b, out, d);
                out.push(')');
            }
            "ret" => {
                out.push_str("(ret");
                if !n.l.is_empty() {
                    out.push(' ');
                    self.list(&n.l, out, d);
                }
                out.push(')');
            }
            other => {
                out.push_str("<?");
                out.push_str(other);
                out.push('>');
            }
        }
    }
}
