//! gen — driver of C02 (dense / readable / token-based generators print what the tree means).
//!
//! `dlv gen --cases <ndjson> --out <ndjson> [--spans 0,1,2,..] [--dsl-out <ndjson>]`
//!
//! A case is `{id, fam, ...}` with exactly one of
//!   * `tree`  : an operator tree in the form emitted by `MC_LuaOps` (`["+", ["x"], ["u-", ["x"]]]`); it is
//!               printed as `return <expr>`;
//!   * `block` : a whole block in the JSON DSL below.
//! Real `darklua_core::nodes` values are built from the descriptor (panics while building are tool errors of
//! the case, recorded as `build_error`).  The block is printed by `DenseLuaGenerator::new(n)` and
//! `ReadableLuaGenerator::new(n)` for every requested column span `n` and by `TokenBasedLuaGenerator` (the tree
//! has no tokens).  Identical texts are merged: one observation per distinct text, listing the generators that
//! produced it.  Each text is
//!   (a) parsed by the independent parser `luaparse` (Luau; `reject_ambiguous_call`) and compared with
//!       `astjson::flatten(tree)` by `same_structure` with transparent grouping parentheses (`struct_ok`,
//!       `diff` = path of the first difference).  Before the comparison, number nodes of the TREE are
//!       normalised to what their text must mean: a value with the sign bit set is `neg(|v|)`, +-inf is
//!       `1/0` / `neg(1)/0`, NaN is `0/0`;
//!   (b) recorded as bytes (`outb`) together with the EXPECTED code-token sequence (`toks`), computed from the
//!       flattened tree alone (never from the generator): names, keywords, symbols, string VALUES, number
//!       VALUES, `CALL` markers in front of call arguments; parentheses, commas and semicolons are left out
//!       (the judge skips them).  Trees with type syntax / attributes have no expected sequence (`toks = []`,
//!       `tokcheck = false`): the flat node table drops types.
//!
//! # DSL
//! block: `{"s": [stmt...], "l": null | ["ret", e...] | ["break"] | ["continue"]}`
//! stmt : ["assign",[var...],[e...]] ["do",block] ["callstmt",call] ["compound",op,var,e]
//!        ["function",[names...],method|null,[params...],variadic,block] ["genfor",[names],[e...],block]
//!        ["if",[[cond,block]...],else|null] ["local",[names],[e...]] ["localt",[[name,type|null]...],[e...]]
//!        ["localc",[names],[e...]] (Luau `const`) ["localfn",name,[params],variadic,block] ["numfor",name,start,end,step|null,block]
//!        ["repeat",block,cond] ["while",cond,block] ["typedecl",name,type,exported]
//!        ["functiont",[names],method|null,[[name,type|null]...],variadic,rettype|null,block]
//! expr : ["id",name] ["num",text] ["numbits",hi,lo] ["nume",text,exp,upper] ["hex",text,upper,exp|null,expupper]
//!        ["bnum",text,upper] ["str",[bytes]] ["true"] ["false"] ["nil"] ["va"] ["fn",[params],variadic,block]
//!        ["fnt",[[name,type|null]...],variadic,rettype|null,block] ["par",e] ["un",op,e] ["bin",op,l,r]
//!        ["call",prefix,args] ["mcall",prefix,name,args] ["idx",prefix,e] ["fld",prefix,name]
//!        ["tab",entry...] (entry: ["pos",e] ["named",k,e] ["key",k,v]) ["ifx",c,t,[[c,t]...],e]
//!        ["interp",seg...] (seg: ["s",[bytes]] ["v",e]) ["cast",e,type]
//! args : ["args",e...] ["sarg",[bytes]] ["targ",tab-expr]
//! type : ["tname",name] ["tname",name,[type...]] ["tfield",ns,name] ["topt",t] ["tunion",t...] ["tinter",t...]
//!        ["tarray",t] ["ttypeof",e] ["tparen",t] ["tfunc",[t...],ret] ["ttable",[[name,t]...]] ["tstr",[bytes]]
//!        ["ttrue"] ["tfalse"] ["tnil"]
use crate::astjson::{flatten, same_structure, CompareOptions};
use crate::util::{arg_value, guarded, read_ndjson, Out};
use darklua_core::generator::{DenseLuaGenerator, LuaGenerator, ReadableLuaGenerator, TokenBasedLuaGenerator};
use darklua_core::nodes::*;
use luaparse::{Dialect, Node, ParseOptions, Program};
use serde_json::{json, Value};

// ------------------------------------------------------------------------------------------ builder

pub struct Builder {
    /// the tree contains type syntax or attributes (dropped by the flat node table)
    pub typed: bool,
    /// trigger of the open finding F-C02-a: a number node with the sign bit set as left operand of `^` or
    /// as operand of a type assertion
    pub neg_atom: bool,
}

fn bad(what: &str, v: &Value) -> ! {
    panic!("bad case descriptor ({}): {}", what, v)
}

fn tag(v: &Value) -> &str {
    v.get(0).and_then(Value::as_str).unwrap_or_else(|| bad("tag", v))
}

fn s(v: &Value) -> &str {
    v.as_str().unwrap_or_else(|| bad("string", v))
}

fn arr(v: &Value) -> &Vec<Value> {
    v.as_array().unwrap_or_else(|| bad("array", v))
}

pub fn bytes_of(v: &Value) -> Vec<u8> {
    match v {
        Value::String(t) => t.as_bytes().to_vec(),
        _ => arr(v).iter().map(|b| b.as_u64().unwrap_or_else(|| bad("byte", v)) as u8).collect(),
    }
}

fn sign_bit_number(v: &Value) -> bool {
    match tag(v) {
        "num" | "nume" => s(&v[1]).trim_start().starts_with('-'),
        "numbits" => (v[1].as_i64().unwrap_or(0) as i32) < 0,
        _ => false,
    }
}

pub fn f64_of_bits(hi: &Value, lo: &Value) -> f64 {
    let hi = hi.as_i64().unwrap_or_else(|| bad("hi", hi)) as i32 as u32 as u64;
    let lo = lo.as_i64().unwrap_or_else(|| bad("lo", lo)) as i32 as u32 as u64;
    f64::from_bits((hi << 32) | lo)
}

impl Builder {
    pub fn new() -> Self {
        Builder { typed: false, neg_atom: false }
    }

    pub fn block(&mut self, v: &Value) -> Block {
        let stmts: Vec<Statement> = v.get("s").map(|l| arr(l).iter().map(|x| self.stmt(x)).collect()).unwrap_or_default();
        let last = match v.get("l") {
            None | Some(Value::Null) => None,
            Some(l) => Some(match tag(l) {
                "ret" => LastStatement::from(ReturnStatement::new(arr(l)[1..].iter().map(|e| self.expr(e)).collect())),
                "break" => LastStatement::new_break(),
                "continue" => LastStatement::new_continue(),
                _ => bad("last statement", l),
            }),
        };
        Block::new(stmts, last)
    }

    fn typed_ids(&mut self, v: &Value) -> Vec<TypedIdentifier> {
        arr(v)
            .iter()
            .map(|p| match p {
                Value::String(n) => TypedIdentifier::new(n.as_str()),
                _ => {
                    let id = TypedIdentifier::new(s(&p[0]));
                    if p[1].is_null() {
                        id
                    } else {
                        self.typed = true;
                        id.with_type(self.ty(&p[1]))
                    }
                }
            })
            .collect()
    }

    fn variable(&mut self, v: &Value) -> Variable {
        match tag(v) {
            "id" => Variable::new(s(&v[1])),
            "fld" => Variable::from(FieldExpression::new(self.prefix(&v[1]), s(&v[2]))),
            "idx" => Variable::from(IndexExpression::new(self.prefix(&v[1]), self.expr(&v[2]))),
            _ => bad("variable", v),
        }
    }

    fn compound_op(o: &str) -> CompoundOperator {
        match o {
            "+" => CompoundOperator::Plus,
            "-" => CompoundOperator::Minus,
            "*" => CompoundOperator::Asterisk,
            "/" => CompoundOperator::Slash,
            "//" => CompoundOperator::DoubleSlash,
            "%" => CompoundOperator::Percent,
            "^" => CompoundOperator::Caret,
            ".." => CompoundOperator::Concat,
            _ => panic!("bad compound operator {}", o),
        }
    }

    fn stmt(&mut self, v: &Value) -> Statement {
        match tag(v) {
            "assign" => AssignStatement::new(
                arr(&v[1]).iter().map(|x| self.variable(x)).collect(),
                arr(&v[2]).iter().map(|x| self.expr(x)).collect(),
            )
            .into(),
            "do" => DoStatement::new(self.block(&v[1])).into(),
            "callstmt" => Statement::Call(self.call(&v[1])),
            "compound" => CompoundAssignStatement::new(Self::compound_op(s(&v[1])), self.variable(&v[2]), self.expr(&v[3])).into(),
            "function" | "functiont" => {
                let typed = tag(v) == "functiont";
                let names = arr(&v[1]);
                let mut name = FunctionName::from_name(s(&names[0]));
                for f in &names[1..] {
                    name.push_field(s(f));
                }
                if !v[2].is_null() {
                    name = name.with_method(s(&v[2]));
                }
                let params = self.typed_ids(&v[3]);
                let variadic = v[4].as_bool().unwrap_or(false);
                let (ret, body) = if typed { (Some(&v[5]), &v[6]) } else { (None, &v[5]) };
                let mut f = FunctionStatement::new(name, self.block(body), params, variadic);
                if let Some(r) = ret {
                    if !r.is_null() {
                        self.typed = true;
                        f = f.with_return_type(self.ty(r));
                    }
                }
                f.into()
            }
            "genfor" => GenericForStatement::new(
                self.typed_ids(&v[1]),
                arr(&v[2]).iter().map(|x| self.expr(x)).collect(),
                self.block(&v[3]),
            )
            .into(),
            "if" => {
                let branches = arr(&v[1]).iter().map(|b| IfBranch::new(self.expr(&b[0]), self.block(&b[1]))).collect();
                let else_block = if v[2].is_null() { None } else { Some(self.block(&v[2])) };
                IfStatement::new(branches, else_block).into()
            }
            "local" | "localt" => VariableAssignment::new(self.typed_ids(&v[1]), arr(&v[2]).iter().map(|x| self.expr(x)).collect()).into(),
            "localc" => VariableAssignment::new(self.typed_ids(&v[1]), arr(&v[2]).iter().map(|x| self.expr(x)).collect())
                .with_assignment_kind(AssignmentKind::Const)
                .into(),
            "localfn" => FunctionAssignment::new(s(&v[1]), self.block(&v[4]), self.typed_ids(&v[2]), v[3].as_bool().unwrap_or(false)).into(),
            "numfor" => {
                let step = if v[4].is_null() { None } else { Some(self.expr(&v[4])) };
                NumericForStatement::new(s(&v[1]), self.expr(&v[2]), self.expr(&v[3]), step, self.block(&v[5])).into()
            }
            "repeat" => RepeatStatement::new(self.block(&v[1]), self.expr(&v[2])).into(),
            "while" => WhileStatement::new(self.block(&v[2]), self.expr(&v[1])).into(),
            "typedecl" => {
                self.typed = true;
                let mut d = TypeDeclarationStatement::new(s(&v[1]), self.ty(&v[2]));
                if v.get(3).and_then(Value::as_bool).unwrap_or(false) {
                    d = d.export();
                }
                d.into()
            }
            _ => bad("statement", v),
        }
    }

    fn binop(o: &str) -> BinaryOperator {
        match o {
            "and" => BinaryOperator::And,
            "or" => BinaryOperator::Or,
            "==" => BinaryOperator::Equal,
            "~=" => BinaryOperator::NotEqual,
            "<" => BinaryOperator::LowerThan,
            "<=" => BinaryOperator::LowerOrEqualThan,
            ">" => BinaryOperator::GreaterThan,
            ">=" => BinaryOperator::GreaterOrEqualThan,
            "+" => BinaryOperator::Plus,
            "-" => BinaryOperator::Minus,
            "*" => BinaryOperator::Asterisk,
            "/" => BinaryOperator::Slash,
            "//" => BinaryOperator::DoubleSlash,
            "%" => BinaryOperator::Percent,
            "^" => BinaryOperator::Caret,
            ".." => BinaryOperator::Concat,
            _ => panic!("bad binary operator {}", o),
        }
    }

    fn unop(o: &str) -> UnaryOperator {
        match o {
            "not" => UnaryOperator::Not,
            "#" => UnaryOperator::Length,
            "-" | "u-" => UnaryOperator::Minus,
            _ => panic!("bad unary operator {}", o),
        }
    }

    fn prefix(&mut self, v: &Value) -> Prefix {
        Prefix::from(self.expr(v))
    }

    fn table(&mut self, v: &Value) -> TableExpression {
        let entries = arr(v)[1..]
            .iter()
            .map(|e| match tag(e) {
                "pos" => TableEntry::from_value(self.expr(&e[1])),
                "named" => TableEntry::from(TableFieldEntry::new(s(&e[1]), self.expr(&e[2]))),
                "key" => TableEntry::from(TableIndexEntry::new(self.expr(&e[1]), self.expr(&e[2]))),
                _ => bad("table entry", e),
            })
            .collect();
        TableExpression::new(entries)
    }

    fn args(&mut self, v: &Value) -> Arguments {
        match tag(v) {
            "args" => Arguments::Tuple(TupleArguments::new(arr(v)[1..].iter().map(|e| self.expr(e)).collect())),
            "sarg" => Arguments::String(StringExpression::from_value(bytes_of(&v[1]))),
            "targ" => Arguments::Table(self.table(&v[1])),
            _ => bad("arguments", v),
        }
    }

    fn call(&mut self, v: &Value) -> FunctionCall {
        match tag(v) {
            "call" => FunctionCall::new(self.prefix(&v[1]), self.args(&v[2]), None),
            "mcall" => FunctionCall::new(self.prefix(&v[1]), self.args(&v[3]), Some(Identifier::new(s(&v[2])))),
            _ => bad("call", v),
        }
    }

    pub fn number(v: &Value) -> NumberExpression {
        match tag(v) {
            "num" => DecimalNumber::new(s(&v[1]).parse::<f64>().unwrap_or_else(|_| bad("f64", v))).into(),
            "numbits" => DecimalNumber::new(f64_of_bits(&v[1], &v[2])).into(),
            "nume" => DecimalNumber::new(s(&v[1]).parse::<f64>().unwrap_or_else(|_| bad("f64", v)))
                .with_exponent(v[2].as_i64().unwrap_or_else(|| bad("exponent", v)), v[3].as_bool().unwrap_or(false))
                .into(),
            "numbitse" => DecimalNumber::new(f64_of_bits(&v[1], &v[2]))
                .with_exponent(v[3].as_i64().unwrap_or_else(|| bad("exponent", v)), v[4].as_bool().unwrap_or(false))
                .into(),
            "hex" => {
                let mut h = HexNumber::new(s(&v[1]).parse::<u64>().unwrap_or_else(|_| bad("u64", v)), v[2].as_bool().unwrap_or(false));
                if let Some(e) = v.get(3).and_then(Value::as_u64) {
                    h = h.with_exponent(e as u32, v.get(4).and_then(Value::as_bool).unwrap_or(false));
                }
                h.into()
            }
            "bnum" => BinaryNumber::new(s(&v[1]).parse::<u64>().unwrap_or_else(|_| bad("u64", v)), v[2].as_bool().unwrap_or(false)).into(),
            _ => bad("number", v),
        }
    }

    pub fn expr(&mut self, v: &Value) -> Expression {
        match tag(v) {
            "id" => Expression::Identifier(Identifier::new(s(&v[1]))),
            "num" | "numbits" | "nume" | "numbitse" | "hex" | "bnum" => Expression::Number(Self::number(v)),
            "str" => StringExpression::from_value(bytes_of(&v[1])).into(),
            "true" => Expression::from(true),
            "false" => Expression::from(false),
            "nil" => Expression::nil(),
            "va" => Expression::variable_arguments(),
            "fn" => FunctionExpression::new(self.block(&v[3]), self.typed_ids(&v[1]), v[2].as_bool().unwrap_or(false)).into(),
            "fnt" => {
                let mut f = FunctionExpression::new(self.block(&v[4]), self.typed_ids(&v[1]), v[2].as_bool().unwrap_or(false));
                if !v[3].is_null() {
                    self.typed = true;
                    f = f.with_return_type(self.ty(&v[3]));
                }
                f.into()
            }
            "par" => ParentheseExpression::new(self.expr(&v[1])).into(),
            "un" => UnaryExpression::new(Self::unop(s(&v[1])), self.expr(&v[2])).into(),
            "bin" => {
                if s(&v[1]) == "^" && sign_bit_number(&v[2]) {
                    self.neg_atom = true;
                }
                BinaryExpression::new(Self::binop(s(&v[1])), self.expr(&v[2]), self.expr(&v[3])).into()
            }
            "call" | "mcall" => Expression::from(self.call(v)),
            "idx" => IndexExpression::new(self.prefix(&v[1]), self.expr(&v[2])).into(),
            "fld" => FieldExpression::new(self.prefix(&v[1]), s(&v[2])).into(),
            "tab" => self.table(v).into(),
            "ifx" => {
                let mut e = IfExpression::new(self.expr(&v[1]), self.expr(&v[2]), self.expr(&v[4]));
                for b in arr(&v[3]) {
                    e = e.with_branch(self.expr(&b[0]), self.expr(&b[1]));
                }
                e.into()
            }
            "interp" => {
                let mut i = InterpolatedStringExpression::empty();
                for seg in &arr(v)[1..] {
                    match tag(seg) {
                        "s" => i.push_segment(StringSegment::from_value(bytes_of(&seg[1]))),
                        "v" => i.push_segment(ValueSegment::new(self.expr(&seg[1]))),
                        _ => bad("segment", seg),
                    }
                }
                i.into()
            }
            "cast" => {
                self.typed = true;
                if sign_bit_number(&v[1]) {
                    self.neg_atom = true;
                }
                TypeCastExpression::new(self.expr(&v[1]), self.ty(&v[2])).into()
            }
            _ => bad("expression", v),
        }
    }

    fn ty(&mut self, v: &Value) -> Type {
        self.typed = true;
        match tag(v) {
            "tname" => {
                let mut n = TypeName::new(s(&v[1]));
                if let Some(ps) = v.get(2) {
                    for p in arr(ps) {
                        n.push_type_parameter(self.ty(p));
                    }
                }
                n.into()
            }
            "tfield" => TypeField::new(s(&v[1]), TypeName::new(s(&v[2]))).into(),
            "topt" => OptionalType::new(self.ty(&v[1])).into(),
            "tunion" => {
                let ts = &arr(v)[1..];
                let mut u: Type = UnionType::new(self.ty(&ts[0]), self.ty(&ts[1])).into();
                for t in &ts[2..] {
                    u = UnionType::new(u, self.ty(t)).into();
                }
                u
            }
            "tinter" => {
                let ts = &arr(v)[1..];
                let mut u = IntersectionType::new(self.ty(&ts[0]), self.ty(&ts[1]));
                for t in &ts[2..] {
                    u = u.with_type(self.ty(t));
                }
                u.into()
            }
            "tarray" => ArrayType::new(self.ty(&v[1])).into(),
            "ttypeof" => ExpressionType::new(self.expr(&v[1])).into(),
            "tparen" => ParentheseType::new(self.ty(&v[1])).into(),
            "tfunc" => {
                let mut f = FunctionType::new(self.ty(&v[2]));
                for a in arr(&v[1]) {
                    f = f.with_argument(self.ty(a));
                }
                f.into()
            }
            "ttable" => {
                let mut t = TableType::default();
                for p in arr(&v[1]) {
                    t = t.with_property(TablePropertyType::new(s(&p[0]), self.ty(&p[1])));
                }
                t.into()
            }
            "tstr" => StringType::from_value(String::from_utf8_lossy(&bytes_of(&v[1])).to_string()).into(),
            "ttrue" => Type::from(true),
            "tfalse" => Type::from(false),
            "tnil" => Type::nil(),
            _ => bad("type", v),
        }
    }

    /// `MC_LuaOps` operator tree -> DSL expression.  `neg` is the DSL number used for the leaf kind `negn`.
    pub fn optree_to_dsl(t: &Value, neg: &Value) -> Value {
        let a = arr(t);
        let head = s(&a[0]);
        match a.len() {
            1 => match head {
                "x" => json!(["id", "x"]),
                "n" => json!(["num", "1"]),
                "s" => json!(["str", [115]]),
                "va" => json!(["va"]),
                "call" => json!(["call", ["id", "f"], ["args"]]),
                "tab" => json!(["tab"]),
                "fn" => json!(["fn", [], false, {}]),
                "negn" => neg.clone(),
                _ => bad("leaf kind", t),
            },
            2 => {
                let e = Self::optree_to_dsl(&a[1], neg);
                match head {
                    "not" | "#" | "u-" => json!(["un", head, e]),
                    "ifx" => json!(["ifx", ["id", "c"], ["id", "a"], [], e]),
                    "cast" => json!(["cast", e, ["tname", "T"]]),
                    "par" => json!(["par", e]),
                    _ => bad("unary node", t),
                }
            }
            3 => json!(["bin", head, Self::optree_to_dsl(&a[1], neg), Self::optree_to_dsl(&a[2], neg)]),
            _ => bad("operator tree", t),
        }
    }
}

// ------------------------------------------------------------------------------------------ tree normalisation

/// Number nodes of the flattened TREE become what their text must mean (see the module comment).
pub fn normalise_numbers(p: &mut Program) {
    let n0 = p.nodes.len();
    for i in 0..n0 {
        if p.nodes[i].k != "num" {
            continue;
        }
        let v = p.nodes[i].num;
        let mk_num = |p: &mut Program, x: f64| -> usize {
            let mut n = Node::new("num");
            n.num = x;
            p.nodes.push(n);
            p.nodes.len()
        };
        if v.is_nan() {
            let a = mk_num(p, 0.0);
            let b = mk_num(p, 0.0);
            let n = &mut p.nodes[i];
            *n = Node::new("bin");
            n.s = b"/".to_vec();
            n.a = a;
            n.b = b;
        } else if v.is_infinite() {
            let one = mk_num(p, 1.0);
            let a = if v < 0.0 {
                let mut neg = Node::new("neg");
                neg.a = one;
                p.nodes.push(neg);
                p.nodes.len()
            } else {
                one
            };
            let b = mk_num(p, 0.0);
            let n = &mut p.nodes[i];
            *n = Node::new("bin");
            n.s = b"/".to_vec();
            n.a = a;
            n.b = b;
        } else if v.is_sign_negative() {
            let a = mk_num(p, -v);
            let n = &mut p.nodes[i];
            *n = Node::new("neg");
            n.a = a;
        } else {
            p.nodes[i].s.clear();
        }
    }
}

// ------------------------------------------------------------------------------------------ expected tokens

struct Toks<'a> {
    p: &'a Program,
    out: Vec<Value>,
    ok: bool,
}

const KEYWORDS: [&str; 21] = [
    "and", "break", "do", "else", "elseif", "end", "false", "for", "function", "if", "in", "local", "nil", "not", "or", "repeat",
    "return", "then", "true", "until", "while",
];

impl<'a> Toks<'a> {
    fn push(&mut self, k: &str, v: &[u8], num: f64) {
        let bits = if num.is_nan() { 0x7ff8_0000_0000_0000u64 } else { num.to_bits() };
        self.out.push(json!({"k": k, "v": latin1(v), "hi": (bits >> 32) as u32 as i32, "lo": bits as u32 as i32}));
    }
    fn kw(&mut self, w: &str) {
        self.push("kw", w.as_bytes(), 0.0);
    }
    fn sym(&mut self, w: &str) {
        self.push("sym", w.as_bytes(), 0.0);
    }
    fn name(&mut self, w: &[u8]) {
        // a name that is a reserved word cannot be printed as a name: the case has no expected sequence
        if KEYWORDS.iter().any(|k| k.as_bytes() == w) || w.is_empty() {
            self.ok = false;
        }
        self.push("name", w, 0.0);
    }
    fn list(&mut self, l: &[usize]) {
        for &i in l {
            self.node(i);
        }
    }
    fn func_rest(&mut self, f: usize) {
        let n = &self.p.nodes[f - 1];
        for nm in n.ns.clone() {
            self.name(&nm);
        }
        if n.c == 1 {
            self.sym("...");
        }
        self.node(n.b);
        self.kw("end");
    }
    fn node(&mut self, id: usize) {
        if id == 0 {
            return;
        }
        let n = self.p.nodes[id - 1].clone();
        let sv = String::from_utf8_lossy(&n.s).to_string();
        match n.k.as_str() {
            "nil" | "true" | "false" => self.kw(&n.k),
            "vararg" => self.sym("..."),
            "num" => self.push("num", b"", n.num),
            "str" => self.push("str", &n.s, 0.0),
            "var" => self.name(&n.s),
            "fn" => {
                self.kw("function");
                self.func_rest(id);
            }
            "paren" => self.node(n.a),
            "bin" => {
                self.node(n.a);
                self.sym(&sv);
                self.node(n.b);
            }
            "and" | "or" => {
                self.node(n.a);
                self.kw(&n.k);
                self.node(n.b);
            }
            "not" => {
                self.kw("not");
                self.node(n.a);
            }
            "neg" => {
                self.sym("-");
                self.node(n.a);
            }
            "len" => {
                self.sym("#");
                self.node(n.a);
            }
            "call" => {
                self.node(n.a);
                self.push("CALL", b"", 0.0);
                self.list(&n.l);
            }
            "mcall" => {
                self.node(n.a);
                self.sym(":");
                self.name(&n.s);
                self.push("CALL", b"", 0.0);
                self.list(&n.l);
            }
            "index" => {
                self.node(n.a);
                self.sym("[");
                self.node(n.b);
                self.sym("]");
            }
            "field" => {
                self.node(n.a);
                self.sym(".");
                self.name(&n.s);
            }
            "table" => {
                self.sym("{");
                self.list(&n.l);
                self.sym("}");
            }
            "tpos" => self.node(n.a),
            "tnamed" => {
                self.name(&n.s);
                self.sym("=");
                self.node(n.a);
            }
            "tkey" => {
                self.sym("[");
                self.node(n.a);
                self.sym("]");
                self.sym("=");
                self.node(n.b);
            }
            "ifexp" => {
                // `elseif` is written `else if` here; the judge splits every `elseif` keyword the same way
                self.kw("if");
                self.node(n.a);
                self.kw("then");
                self.node(n.b);
                self.kw("else");
                self.node(n.c);
            }
            "interp" => {
                self.push("interp", b"", 0.0);
                for &sid in &n.l {
                    let sn = &self.p.nodes[sid - 1];
                    if sn.k == "ival" {
                        let a = sn.a;
                        self.node(a);
                        self.push("interp", b"", 0.0);
                    }
                }
            }
            "cast" | "tinst" | "typedecl" => self.ok = false,
            "block" => self.list(&n.l),
            "do" => {
                self.kw("do");
                self.node(n.a);
                self.kw("end");
            }
            "local" => {
                if n.c == 1 {
                    self.ok = false;
                }
                self.kw("local");
                for nm in &n.ns {
                    self.name(nm);
                }
                if !n.l.is_empty() {
                    self.sym("=");
                    self.list(&n.l);
                }
            }
            "localfn" => {
                if n.c == 1 {
                    self.ok = false;
                }
                self.kw("local");
                self.kw("function");
                self.name(&n.s);
                self.func_rest(n.a);
            }
            "assign" => {
                self.list(&n.l);
                self.sym("=");
                self.list(&n.m);
            }
            "compound" => {
                self.node(n.a);
                self.sym(&format!("{}=", sv));
                self.node(n.b);
            }
            "callstmt" => self.node(n.a),
            "funcstmt" => {
                self.kw("function");
                for (i, nm) in n.ns.iter().enumerate() {
                    if i > 0 {
                        self.sym(".");
                    }
                    self.name(nm);
                }
                if !n.s.is_empty() {
                    self.sym(":");
                    self.name(&n.s);
                }
                self.func_rest(n.a);
            }
            "if" => {
                for (i, pair) in n.l.chunks(2).enumerate() {
                    if i == 0 {
                        self.kw("if");
                    } else {
                        self.kw("else");
                        self.kw("if");
                    }
                    self.node(pair[0]);
                    self.kw("then");
                    self.node(pair[1]);
                }
                if n.c != 0 {
                    self.kw("else");
                    self.node(n.c);
                }
                self.kw("end");
            }
            "while" => {
                self.kw("while");
                self.node(n.a);
                self.kw("do");
                self.node(n.b);
                self.kw("end");
            }
            "repeat" => {
                self.kw("repeat");
                self.node(n.a);
                self.kw("until");
                self.node(n.b);
            }
            "numfor" => {
                self.kw("for");
                self.name(&n.s);
                self.sym("=");
                self.list(&n.l);
                self.kw("do");
                self.node(n.b);
                self.kw("end");
            }
            "genfor" => {
                self.kw("for");
                for nm in &n.ns {
                    self.name(nm);
                }
                self.kw("in");
                self.list(&n.l);
                self.kw("do");
                self.node(n.b);
                self.kw("end");
            }
            "ret" => {
                self.kw("return");
                self.list(&n.l);
            }
            "break" => self.kw("break"),
            "continue" => self.name(b"continue"),
            _ => self.ok = false,
        }
    }
}

/// Expected code tokens of a (normalised) flattened tree, or None when the table cannot express them.
pub fn expected_tokens(p: &Program) -> Option<Vec<Value>> {
    let mut t = Toks { p, out: Vec::new(), ok: true };
    t.node(p.root);
    if t.ok {
        Some(t.out)
    } else {
        None
    }
}

// ------------------------------------------------------------------------------------------ triggers of open findings
// Evaluated on the built tree (the case), never on the output.  They only CLASSIFY a violating case.

/// Why the text of `e` ends with `)` although `utils::expression_ends_with_prefix(e)` is false:
/// "naninf" (F-C02-d: a NaN / infinite number is written `(0/0)`, `(1/0)`, `(-1/0)`) or "paren" (F-C02-c: the printer
/// wraps the last operand in parentheses).
fn ends_with_printer_paren(e: &Expression) -> Option<&'static str> {
    match e {
        Expression::Number(NumberExpression::Decimal(d)) if !d.compute_value().is_finite() => Some("naninf"),
        Expression::Binary(b) => {
            if b.operator().right_needs_parentheses(b.right()) {
                Some("paren")
            } else {
                ends_with_printer_paren(b.right())
            }
        }
        Expression::Unary(u) => match u.get_expression() {
            Expression::Binary(b) if !b.operator().precedes_unary_expression() => Some("paren"),
            inner => ends_with_printer_paren(inner),
        },
        Expression::If(i) => ends_with_printer_paren(i.get_else_result()),
        _ => None,
    }
}

fn prefix_root_is_paren(mut p: &Prefix) -> bool {
    loop {
        match p {
            Prefix::Parenthese(_) => return true,
            Prefix::Identifier(_) => return false,
            Prefix::Call(c) => p = c.get_prefix(),
            Prefix::Field(f) => p = f.get_prefix(),
            Prefix::Index(i) => p = i.get_prefix(),
            Prefix::TypeInstantiation(t) => p = t.get_prefix(),
        }
    }
}

fn statement_starts_with_paren(s: &Statement) -> bool {
    let var = |v: &Variable| match v {
        Variable::Identifier(_) => false,
        Variable::Field(f) => prefix_root_is_paren(f.get_prefix()),
        Variable::Index(i) => prefix_root_is_paren(i.get_prefix()),
    };
    match s {
        Statement::Assign(a) => a.get_variables().first().map(var).unwrap_or(false),
        Statement::CompoundAssign(a) => var(a.get_variable()),
        Statement::Call(c) => prefix_root_is_paren(c.get_prefix()),
        _ => false,
    }
}

fn statement_final_expression(s: &Statement) -> Option<&Expression> {
    match s {
        Statement::Assign(a) => a.last_value(),
        Statement::CompoundAssign(a) => Some(a.get_value()),
        Statement::LocalAssign(a) => a.last_value(),
        Statement::Repeat(r) => Some(r.get_condition()),
        _ => None,
    }
}

/// Is the last token written for `e` (as the left operand of `..`, not wrapped in parentheses by the printer) a finite
/// decimal number with the sign bit set?  (F-C02-b)
fn last_token_is_negative_number(e: &Expression) -> bool {
    match e {
        Expression::Number(NumberExpression::Decimal(d)) => d.compute_value().is_finite() && d.compute_value().is_sign_negative(),
        Expression::Binary(b) => !b.operator().right_needs_parentheses(b.right()) && last_token_is_negative_number(b.right()),
        Expression::Unary(u) => match u.get_expression() {
            Expression::Binary(b) if !b.operator().precedes_unary_expression() => false,
            inner => last_token_is_negative_number(inner),
        },
        Expression::If(i) => last_token_is_negative_number(i.get_else_result()),
        _ => false,
    }
}

#[derive(Default)]
struct Triggers {
    gap_naninf: bool,
    gap_paren: bool,
    neg_concat: bool,
}

impl darklua_core::process::NodeProcessor for Triggers {
    fn process_block(&mut self, block: &mut Block) {
        let stmts: Vec<&Statement> = block.iter_statements().collect();
        for w in stmts.windows(2) {
            if statement_starts_with_paren(w[1]) {
                match statement_final_expression(w[0]).and_then(ends_with_printer_paren) {
                    Some("naninf") => self.gap_naninf = true,
                    Some(_) => self.gap_paren = true,
                    None => {}
                }
            }
        }
    }
    fn process_binary_expression(&mut self, b: &mut BinaryExpression) {
        if b.operator() == BinaryOperator::Concat && !b.operator().left_needs_parentheses(b.left()) && last_token_is_negative_number(b.left()) {
            self.neg_concat = true;
        }
    }
}

fn triggers_of(block: &Block) -> Triggers {
    use darklua_core::process::{DefaultVisitor, NodeVisitor};
    let mut t = Triggers::default();
    let mut copy = block.clone();
    DefaultVisitor::visit_block(&mut copy, &mut t);
    t
}

// ------------------------------------------------------------------------------------------ runner

fn print_with(block: &Block, generator: &str, span: usize) -> Result<String, String> {
    guarded(|| match generator {
        "dense" => {
            let mut g = DenseLuaGenerator::new(span);
            g.write_block(block);
            g.into_string()
        }
        "readable" => {
            let mut g = ReadableLuaGenerator::new(span);
            g.write_block(block);
            g.into_string()
        }
        _ => {
            let mut g = TokenBasedLuaGenerator::new("");
            g.write_block(block);
            g.into_string()
        }
    })
}

/// Bytes as a JSON string in which byte n is the character U+00nn (see NODEFORMAT.md); `Out::emit` escapes
/// everything outside ASCII, TLA+ reads it back with `Bytes!BytesOf`.
pub fn latin1(b: &[u8]) -> Value {
    Value::String(b.iter().map(|&c| c as char).collect())
}

pub fn main(args: &[String]) -> i32 {
    let cases = read_ndjson(arg_value(args, "--cases").expect("--cases"));
    let mut out = Out::new(arg_value(args, "--out"));
    let mut dsl_out = arg_value(args, "--dsl-out").map(|p| Out::new(Some(p)));
    let spans: Vec<usize> = arg_value(args, "--spans")
        .unwrap_or("0,1,2,3,5,8,13,20,40,80,120")
        .split(',')
        .map(|x| x.trim().parse().expect("span"))
        .collect();
    let no_token_based = args.iter().any(|a| a == "--no-token-based");
    let opts = CompareOptions { ignore_num_spelling: true, transparent_parens: true, ignore_const: false };
    let popts = ParseOptions { reject_ambiguous_call: true, ..ParseOptions::syntax_only() };
    let lenient = ParseOptions::syntax_only();
    for c in cases {
        let id = c["id"].clone();
        let fam = c["fam"].clone();
        let optree = c.get("tree").cloned().unwrap_or(json!([]));
        let is_optree = c.get("tree").is_some();
        let neg = c.get("neg").cloned().unwrap_or(json!(["num", "-1"]));
        let dsl_block = if is_optree {
            json!({"s": [], "l": ["ret", Builder::optree_to_dsl(&optree, &neg)]})
        } else {
            c["block"].clone()
        };
        if let Some(d) = dsl_out.as_mut() {
            d.emit(&json!({"id": id, "fam": fam, "block": dsl_block}));
        }
        let mut o = json!({"id": id, "fam": fam, "optree": is_optree, "tree": optree, "status": "ok", "typed": false, "neg_atom": false,
                           "gap_naninf": false, "gap_paren": false, "neg_concat": false,
                           "tokcheck": false, "tk": [], "tv": [], "thi": [], "tlo": [], "texts": []});
        let mut b = Builder::new();
        let built = guarded(|| b.block(&dsl_block));
        let block = match built {
            Ok(bl) => bl,
            Err(e) => {
                o["status"] = json!(format!("build_error:{}", e.chars().take(200).collect::<String>()));
                out.emit(&o);
                continue;
            }
        };
        let mut want = match guarded(|| flatten(&block)) {
            Ok(p) => p,
            Err(e) => {
                o["status"] = json!(format!("flatten_panic:{}", e.chars().take(200).collect::<String>()));
                out.emit(&o);
                continue;
            }
        };
        normalise_numbers(&mut want);
        o["typed"] = json!(b.typed);
        o["neg_atom"] = json!(b.neg_atom);
        let trig = triggers_of(&block);
        o["gap_naninf"] = json!(trig.gap_naninf);
        o["gap_paren"] = json!(trig.gap_paren);
        o["neg_concat"] = json!(trig.neg_concat);
        if !b.typed {
            if let Some(t) = expected_tokens(&want) {
                o["tokcheck"] = json!(true);
                o["tk"] = Value::Array(t.iter().map(|x| x["k"].clone()).collect());
                o["tv"] = Value::Array(t.iter().map(|x| x["v"].clone()).collect());
                o["thi"] = Value::Array(t.iter().map(|x| x["hi"].clone()).collect());
                o["tlo"] = Value::Array(t.iter().map(|x| x["lo"].clone()).collect());
            }
        }
        // print with every generator, merge identical texts
        let mut texts: Vec<(Result<String, String>, Vec<String>)> = Vec::new();
        let mut add = |r: Result<String, String>, label: String| {
            if let Some(e) = texts.iter_mut().find(|(t, _)| *t == r) {
                e.1.push(label);
            } else {
                texts.push((r, vec![label]));
            }
        };
        for g in ["dense", "readable"] {
            for &n in &spans {
                add(print_with(&block, g, n), format!("{}:{}", g, n));
            }
        }
        if !no_token_based {
            add(print_with(&block, "token", 0), "token".to_string());
        }
        let mut recs = Vec::new();
        for (r, gens) in texts {
            let mut t = json!({"gens": gens, "status": "ok", "out": "", "struct_ok": false, "diff": "", "ambiguous": false, "dl_parses": false});
            match r {
                Err(p) => {
                    t["status"] = json!(format!("panic:{}", p.chars().take(200).collect::<String>()));
                }
                Ok(text) => {
                    t["out"] = latin1(text.as_bytes());
                    match luaparse::parse_with_options(text.as_bytes(), Dialect::Luau, popts) {
                        Ok(got) => match same_structure(&want, &got, opts) {
                            Ok(()) => t["struct_ok"] = json!(true),
                            Err(d) => t["diff"] = json!(d),
                        },
                        Err(e) => {
                            // is it only the ambiguity rule?
                            match luaparse::parse_with_options(text.as_bytes(), Dialect::Luau, lenient) {
                                Ok(got) => {
                                    t["ambiguous"] = json!(true);
                                    t["diff"] = json!(match same_structure(&want, &got, opts) {
                                        Ok(()) => format!("ambiguous call syntax: {}", e),
                                        Err(d) => format!("ambiguous call syntax: {}; and {}", e, d),
                                    });
                                }
                                Err(_) => t["diff"] = json!(format!("parse error: {}", e)),
                            }
                        }
                    }
                    let dl = guarded(|| darklua_core::Parser::default().parse(&text).is_ok());
                    t["dl_parses"] = json!(matches!(dl, Ok(true)));
                }
            }
            recs.push(t);
        }
        o["texts"] = Value::Array(recs);
        out.emit(&o);
    }
    out.flush();
    if let Some(d) = dsl_out.as_mut() {
        d.flush();
    }
    0
}
