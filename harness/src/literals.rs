//! literals — driver of C13 (string and number literals survive generation exactly).
//!
//! `dlv literals --cases <ndjson> --out <ndjson>`
//!
//! case kinds (enumerated by spec/mc/MC_Literals.tla, spellings by checks/c13.py):
//!   {kind:"str",  b:[bytes]}                          StringExpression::from_value(bytes)
//!   {kind:"num",  hi, lo}                             DecimalNumber::new(double) -- and Expression::from(double) (context "from")
//!   {kind:"nume", hi, lo, exp, upper}                 DecimalNumber::new(double).with_exponent(exp, upper)
//!   {kind:"int",  int:"<u64 digits>", form: 0|1|2|3}  HexNumber (0x / 0X) or BinaryNumber (0b / 0B)
//!   {kind:"parse", text:"<spelling>"}                 `return <spelling>` through darklua_core::Parser
//!   {kind:"src", b:[bytes of a string literal]}       `return <literal>` through darklua_core::Parser; records the value read (val)
//! Every literal X is written by DenseLuaGenerator (spans 80 and 8), ReadableLuaGenerator (80 and 8) and
//! TokenBasedLuaGenerator in the neighbour contexts
//!   ret `return X` | call `return f(X)` | op `return X .. X` (strings) / `return X + X` (numbers) | index `return t[X]`
//!   | key `return {[X]=X}` | sugar `return f X` (strings: Arguments::String) | cat `return X .. X` (numbers)
//!   | neg `return -X` (numbers) | pow `return X ^ 2` (numbers) | from `return <Expression::from(double)>` (kind num)
//! and the output text recorded (identical texts of one context merged).  Nothing is judged here: the trace
//! specification LiteralTrace lexes and decodes the texts.
//! A case may restrict the contexts with `ctxs: [names]`.
//! For `parse` the observation carries whether the parser accepted the text, the kind of number node and the two
//! words of `compute_value()`.
use crate::gen::{latin1, Builder};
use crate::util::{arg_value, guarded, read_ndjson, Out};
use darklua_core::generator::{DenseLuaGenerator, LuaGenerator, ReadableLuaGenerator, TokenBasedLuaGenerator};
use darklua_core::nodes::*;
use serde_json::{json, Value};

fn print_all(block: &Block) -> Vec<(String, Result<String, String>)> {
    let mut v = Vec::new();
    for n in [80usize, 8] {
        v.push((format!("dense:{}", n), guarded(|| {
            let mut g = DenseLuaGenerator::new(n);
            g.write_block(block);
            g.into_string()
        })));
        v.push((format!("readable:{}", n), guarded(|| {
            let mut g = ReadableLuaGenerator::new(n);
            g.write_block(block);
            g.into_string()
        })));
    }
    v.push(("token".to_string(), guarded(|| {
        let mut g = TokenBasedLuaGenerator::new("");
        g.write_block(block);
        g.into_string()
    })));
    v
}

fn bits(v: f64) -> (i32, i32) {
    let b = if v.is_nan() { 0x7ff8_0000_0000_0000u64 } else { v.to_bits() };
    ((b >> 32) as u32 as i32, b as u32 as i32)
}

fn contexts(kind: &str, x: &Value) -> Vec<(&'static str, Value)> {
    let f = json!(["id", "f"]);
    let t = json!(["id", "t"]);
    let ret = |e: Value| json!({"s": [], "l": ["ret", e]});
    let mut v = vec![
        ("ret", ret(x.clone())),
        ("call", ret(json!(["call", f, ["args", x]]))),
        ("index", ret(json!(["idx", t, x]))),
        ("key", ret(json!(["tab", ["key", x, x]]))),
    ];
    if kind == "str" {
        v.push(("op", ret(json!(["bin", "..", x, x]))));
        v.push(("sugar", ret(json!(["call", f, ["sarg", x[1]]]))));
    } else {
        v.push(("op", ret(json!(["bin", "+", x, x]))));
        v.push(("cat", ret(json!(["bin", "..", x, x]))));
        v.push(("neg", ret(json!(["un", "-", x]))));
        // the literal as the LEFT operand of `^` (which binds tighter than a minus sign): `(-0)^2`, never `-0^2`
        v.push(("pow", ret(json!(["bin", "^", x, ["num", "2"]]))));
    }
    v
}

pub fn main(args: &[String]) -> i32 {
    let cases = read_ndjson(arg_value(args, "--cases").expect("--cases"));
    let mut out = Out::new(arg_value(args, "--out"));
    for c in cases {
        let kind = c["kind"].as_str().expect("kind").to_string();
        let mut o = json!({"id": c["id"], "kind": kind, "fam": c.get("fam").cloned().unwrap_or(json!("")), "b": "", "hi": 0, "lo": 0, "text": "",
                           "status": "ok", "node": "", "outs": []});
        if kind == "src" {
            // a string literal as written in a source file: what value does darklua's reader give it?
            let b = crate::gen::bytes_of(&c["b"]);
            o["b"] = latin1(&b);
            o["val"] = json!("");
            match String::from_utf8(b.clone()) {
                Err(_) => o["status"] = json!("notutf8"),
                Ok(text) => {
                    let code = format!("return {}", text);
                    match guarded(|| darklua_core::Parser::default().parse(&code)) {
                        Err(p) => o["status"] = json!(format!("panic:{}", p.chars().take(150).collect::<String>())),
                        Ok(Err(e)) => o["status"] = json!(format!("rejected:{}", e.to_string().chars().take(150).collect::<String>())),
                        Ok(Ok(block)) => {
                            let e = match block.get_last_statement() {
                                Some(LastStatement::Return(r)) if r.len() == 1 => r.iter_expressions().next().cloned(),
                                _ => None,
                            };
                            match e {
                                Some(Expression::String(st)) => o["val"] = latin1(st.get_value()),
                                _ => o["status"] = json!("notstring"),
                            }
                        }
                    }
                }
            }
            out.emit(&o);
            continue;
        }
        if kind == "parse" {
            let text = c["text"].as_str().expect("text");
            o["text"] = json!(text);
            let code = format!("return {}", text);
            match guarded(|| darklua_core::Parser::default().parse(&code)) {
                Err(p) => o["status"] = json!(format!("panic:{}", p.chars().take(150).collect::<String>())),
                Ok(Err(e)) => o["status"] = json!(format!("rejected:{}", e.to_string().chars().take(150).collect::<String>())),
                Ok(Ok(block)) => {
                    let e = match block.get_last_statement() {
                        Some(LastStatement::Return(r)) if r.len() == 1 => r.iter_expressions().next().cloned(),
                        _ => None,
                    };
                    match e {
                        Some(Expression::Number(n)) => {
                            // end to end: the rule that rewrites Luau spellings, under each generator
                            let mut conv = Vec::new();
                            for g in ["retain_lines", "dense", "readable"] {
                                match crate::text::run_text(&code, "['convert_luau_number']", &format!("'{}'", g)) {
                                    Ok(t) => conv.push(json!({"gen": g, "out": latin1(t.as_bytes()), "status": "ok"})),
                                    Err(e) => conv.push(json!({"gen": g, "out": "", "status": e.chars().take(120).collect::<String>()})),
                                }
                            }
                            o["conv"] = json!(conv);
                            o["node"] = json!(match &n {
                                NumberExpression::Decimal(_) => "decimal",
                                NumberExpression::Hex(_) => "hex",
                                NumberExpression::Binary(_) => "binary",
                            });
                            match guarded(|| n.compute_value()) {
                                Ok(v) => {
                                    let (hi, lo) = bits(v);
                                    o["hi"] = json!(hi);
                                    o["lo"] = json!(lo);
                                }
                                Err(p) => o["status"] = json!(format!("panic:{}", p.chars().take(150).collect::<String>())),
                            }
                        }
                        _ => o["status"] = json!("notnumber"),
                    }
                }
            }
            out.emit(&o);
            continue;
        }
        // the literal as a DSL expression
        let x = match kind.as_str() {
            "str" => {
                let b = crate::gen::bytes_of(&c["b"]);
                o["b"] = latin1(&b);
                json!(["str", c["b"]])
            }
            "num" => {
                o["hi"] = c["hi"].clone();
                o["lo"] = c["lo"].clone();
                json!(["numbits", c["hi"], c["lo"]])
            }
            "nume" => {
                o["hi"] = c["hi"].clone();
                o["lo"] = c["lo"].clone();
                json!(["numbitse", c["hi"], c["lo"], c["exp"], c["upper"]])
            }
            "int" => {
                o["hi"] = c["hi"].clone();
                o["lo"] = c["lo"].clone();
                o["text"] = c["int"].clone();
                let form = c["form"].as_i64().unwrap_or(0);
                if form < 2 {
                    json!(["hex", c["int"], form == 1])
                } else {
                    json!(["bnum", c["int"], form == 3])
                }
            }
            _ => panic!("bad literal kind {}", kind),
        };
        let keep: Option<Vec<String>> = c.get("ctxs").and_then(Value::as_array).map(|a| a.iter().filter_map(|v| v.as_str().map(String::from)).collect());
        let wanted = |n: &str| keep.as_ref().map_or(true, |k| k.iter().any(|x| x == n));
        let mut blocks: Vec<(&str, Result<Block, String>)> =
            contexts(&kind, &x).into_iter().filter(|(n, _)| wanted(n)).map(|(n, d)| (n, guarded(|| Builder::new().block(&d)))).collect();
        if kind == "num" && wanted("from") {
            let v = crate::gen::f64_of_bits(&c["hi"], &c["lo"]);
            blocks.push(("from", guarded(|| Block::default().with_last_statement(ReturnStatement::one(Expression::from(v))))));
        }
        let mut outs: Vec<Value> = Vec::new();
        for (ctx, b) in blocks {
            let b = match b {
                Ok(b) => b,
                Err(e) => {
                    outs.push(json!({"ctx": ctx, "gens": [], "out": "", "status": format!("build_panic:{}", e.chars().take(150).collect::<String>())}));
                    continue;
                }
            };
            let mut merged: Vec<(Result<String, String>, Vec<String>)> = Vec::new();
            for (g, r) in print_all(&b) {
                if let Some(e) = merged.iter_mut().find(|(t, _)| *t == r) {
                    e.1.push(g);
                } else {
                    merged.push((r, vec![g]));
                }
            }
            for (r, gens) in merged {
                match r {
                    Ok(t) => outs.push(json!({"ctx": ctx, "gens": gens, "out": latin1(t.as_bytes()), "status": "ok"})),
                    Err(p) => outs.push(json!({"ctx": ctx, "gens": gens, "out": "", "status": format!("panic:{}", p.chars().take(150).collect::<String>())})),
                }
            }
        }
        o["outs"] = Value::Array(outs);
        out.emit(&o);
    }
    out.flush();
    0
}
