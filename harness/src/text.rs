//! Text-level driver (C03, C18, parts of C04/C12): runs one source text through `darklua_core::process`
//! with a given rule list and generator and records input and output as byte sequences for the
//! TLA+ lexer (spec/lua/LuaLex.tla) to judge.
//!
//! case: {id, src, rules: "<json5 array text>", generator: "retain_lines"|"dense"|"readable" (default retain_lines), ...}
//! observation: the case (without src) + {srcb: [bytes], outb: [bytes], status}
use crate::util::{arg_value, guarded, read_ndjson, Out};
use darklua_core::{Configuration, Options, Resources};
use serde_json::{json, Value};

pub fn run_text(src: &str, rules: &str, generator: &str) -> Result<String, String> {
    run_text_opt(src, rules, generator, false)
}

/// `bundled`: the text is the module `src/m.lua`, required by an entry file whose own text is free of every Luau
/// construct (and of underscores); the entry is bundled (require mode `path`) before the rules run, so the rules
/// meet the constructs in nodes that do NOT come from the text of the file being processed.
pub fn run_text_opt(src: &str, rules: &str, generator: &str, bundled: bool) -> Result<String, String> {
    let resources = Resources::from_memory();
    let cfg_text = if bundled {
        // a module must end with a return of exactly one value
        resources.write("src/m.lua", &format!("{}\nreturn 0\n", src)).unwrap();
        resources.write("src/main.lua", "local m = require('./m')\nreturn m\n").unwrap();
        format!("{{ generator: {}, bundle: {{ require_mode: 'path' }}, rules: {} }}", generator, rules)
    } else {
        resources.write("src/main.lua", src).unwrap();
        format!("{{ generator: {}, rules: {} }}", generator, rules)
    };
    let config: Configuration = json5::from_str(&cfg_text).map_err(|e| format!("config:{}", e))?;
    let r = guarded(|| {
        darklua_core::process(
            &resources,
            Options::new("src/main.lua").with_output("out/main.lua").with_configuration(config),
        )
    });
    match r {
        Err(p) => Err(format!("panic:{}", p.chars().take(200).collect::<String>())),
        Ok(Err(e)) => Err(format!("error:{}", e)),
        Ok(Ok(tree)) => {
            let errors: Vec<String> = tree.collect_errors().iter().map(|e| e.to_string()).collect();
            if !errors.is_empty() {
                let joined = errors.join(" | ");
                if joined.contains("unable to parse") || joined.contains("parse") {
                    return Err(format!("parse_error:{}", joined.chars().take(200).collect::<String>()));
                }
                return Err(format!("error:{}", joined.chars().take(300).collect::<String>()));
            }
            resources.get("out/main.lua").map_err(|e| format!("nooutput:{:?}", e))
        }
    }
}

fn bytes(s: &str) -> Value {
    Value::Array(s.as_bytes().iter().map(|b| json!(*b)).collect())
}

pub fn main(args: &[String]) -> i32 {
    let cases = read_ndjson(arg_value(args, "--cases").expect("--cases"));
    let mut out = Out::new(arg_value(args, "--out"));
    for c in cases {
        let src = c["src"].as_str().expect("src");
        let rules = c["rules"].as_str().unwrap_or("[]");
        let generator = match c["generator"].as_str() {
            Some(g) if g.starts_with('{') => g.to_string(),
            Some(g) => format!("'{}'", g),
            None => "'retain_lines'".to_string(),
        };
        let mut obs = c.clone();
        obs.as_object_mut().unwrap().remove("src");
        obs["srcb"] = bytes(src);
        // `pre_rules`: rules that run BEFORE `rules` in the same configuration. The text judged as the source is what
        // [pre_rules] alone writes; the text judged as the output is what [pre_rules, rules] writes for the same file.
        let joined;
        let rules = match c["pre_rules"].as_str() {
            Some(pre) => {
                match run_text(src, pre, &generator) {
                    Ok(mid) => {
                        obs["origb"] = bytes(src);
                        obs["srcb"] = bytes(&mid);
                    }
                    Err(e) => {
                        obs["outb"] = json!([]);
                        obs["status"] = json!(format!("parse_error: pre rules: {}", e));
                        out.emit(&obs);
                        continue;
                    }
                }
                let a = pre.trim().trim_start_matches('[').trim_end_matches(']').trim();
                let b = rules.trim().trim_start_matches('[').trim_end_matches(']').trim();
                joined = if a.is_empty() { format!("[{}]", b) } else if b.is_empty() { format!("[{}]", a) } else { format!("[{}, {}]", a, b) };
                joined.as_str()
            }
            None => rules,
        };
        match run_text(src, rules, &generator) {
            Ok(text) => {
                obs["outb"] = bytes(&text);
                obs["status"] = json!("ok");
            }
            Err(e) => {
                obs["outb"] = json!([]);
                obs["status"] = json!(e);
            }
        }
        out.emit(&obs);
    }
    out.flush();
    0
}
