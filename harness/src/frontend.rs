//! C10 driver: replays watch-mode histories on the REAL WorkerTree (the calls that
//! cli/utils/file_watcher.rs::process_events makes for each file-system event) and records, after
//! every `process`, the projected output tree together with the output tree of a genuinely fresh run
//! over the same inputs. The recorded trace is validated by spec/trace/FrontendTrace.tla.
//!
//! Input (ndjson): first line = universe {sources:[name], modules:[name], requires:{name:[name]}, dirs:[dir], configs:[c]},
//! then one history per line {id, c0, events:[{ev, f|d|c, v}]}.
//! File naming: a name starting with "lib/" lives outside the input directory (`lib/m` -> lib/m.lua); every other
//! name lives under the input directory `src` (`sub/b` -> src/sub/b.lua). Output directory: `out`.
use crate::util::{arg_value, guarded, read_ndjson, Out};
use darklua_core::{Configuration, Options, Resources, WorkerTree};
use serde_json::{json, Map, Value};
use std::collections::BTreeMap;
use std::path::{Path, PathBuf};

pub struct Universe {
    pub sources: Vec<String>,
    pub modules: Vec<String>,
    pub requires: BTreeMap<String, Vec<String>>,
    /// files whose version 2 requires nothing (MC_Droppers)
    pub droppers: Vec<String>,
}

pub fn path_of(name: &str) -> String {
    if name.starts_with("lib/") {
        format!("{}.lua", name)
    } else {
        format!("src/{}.lua", name)
    }
}

fn out_of(name: &str) -> String {
    format!("out/{}.lua", name)
}

fn dir_path(d: &str) -> String {
    if d == "lib" { "lib".to_string() } else { format!("src/{}", d) }
}

fn rel_require(from: &str, to: &str) -> String {
    let from_dir: Vec<&str> = {
        let mut v: Vec<&str> = from.split('/').collect();
        v.pop();
        v
    };
    let to_parts: Vec<&str> = to.split('/').collect();
    let mut k = 0;
    while k < from_dir.len() && k + 1 < to_parts.len() && from_dir[k] == to_parts[k] {
        k += 1;
    }
    let mut r = String::new();
    if k == from_dir.len() {
        r.push_str("./");
    } else {
        for _ in k..from_dir.len() {
            r.push_str("../");
        }
    }
    r.push_str(&to_parts[k..].join("/"));
    r
}

/// version 0 never parses; `return return` would (darklua accepts it), so an unfinished function is used
pub fn content(u: &Universe, name: &str, v: i64) -> String {
    if v == 0 {
        return "local function (".to_string();
    }
    let mut s = String::from("local _c = CFG\ndo end\n");
    let drops = v == 2 && u.droppers.iter().any(|d| d == name);
    if let Some(reqs) = u.requires.get(name).filter(|_| !drops) {
        for (i, m) in reqs.iter().enumerate() {
            s.push_str(&format!("local _m{} = require('{}')\n", i, rel_require(&path_of(name), &path_of(m))));
        }
    }
    s.push_str(&format!("return '{}-v{}'\n", name, v));
    s
}

pub fn config_text(c: &str) -> String {
    // c1/c2/...: an injected marker, dense generator, bundling in path mode.
    // A suffix after '+' selects a variant that differs ONLY in a rule filter / generator (see Config.tla):
    //   "c2+skip"  : same as c2 but remove_empty_do carries skip_files
    //   "c2+read"  : same as c2 with the readable generator
    let (base, variant) = match c.find('+') {
        Some(i) => (&c[..i], &c[i + 1..]),
        None => (c, ""),
    };
    let generator = if variant == "read" { "readable" } else { "dense" };
    let extra = match variant {
        "skip" => ", { rule: 'remove_empty_do', skip_files: ['**/a.lua'] }",
        "apply" => ", { rule: 'remove_empty_do', apply_to_files: ['**/a.lua'] }",
        _ => ", 'remove_empty_do'",
    };
    format!(
        "{{ generator: '{}', bundle: {{ require_mode: {{ name: 'path', use_luau_configuration: false }} }}, rules: [{{ rule: 'inject_global_value', identifier: 'CFG', value: 'cfg-{}' }}{}] }}",
        generator, base, extra
    )
}

fn build_config(c: &str) -> Configuration {
    json5::from_str::<Configuration>(&config_text(c)).expect("driver configuration must be valid")
}

fn options(c: &str, outsp: &str) -> Options {
    Options::new("src").with_output(outsp).with_configuration(build_config(c))
}

/// {name -> stamp} read back from the output tree: version marker of the source, configuration marker,
/// and the version markers of every module inlined into it.
fn stamp_of(u: &Universe, resources: &Resources, name: &str) -> Value {
    let none = json!({"v": -1, "c": "none", "d": []});
    let text = match resources.get(out_of(name)) {
        Ok(t) => t,
        Err(_) => return none,
    };
    let mut v = -1i64;
    let mut c = "none".to_string();
    let mut d: Vec<(String, i64)> = Vec::new();
    let own = format!("'{}-v", name);
    if let Some(i) = text.rfind(&own) {
        let rest = &text[i + own.len()..];
        let digits: String = rest.chars().take_while(|ch| ch.is_ascii_digit()).collect();
        v = digits.parse().unwrap_or(-1);
    }
    if let Some(i) = text.find("cfg-") {
        let rest = &text[i + 4..];
        c = rest.chars().take_while(|ch| ch.is_ascii_alphanumeric()).collect();
        // variants of a configuration are recognised by their effect on the text
        if text.contains("do end") {
            c.push_str("+skip");
        } else if text.contains("local _c = ") {
            c.push_str("+read");
        }
    }
    for m in u.modules.iter() {
        if m == name {
            continue;
        }
        let pat = format!("'{}-v", m);
        if let Some(i) = text.find(&pat) {
            let rest = &text[i + pat.len()..];
            let digits: String = rest.chars().take_while(|ch| ch.is_ascii_digit()).collect();
            d.push((m.clone(), digits.parse().unwrap_or(-1)));
        }
    }
    d.sort();
    json!({"v": v, "c": c, "d": d.iter().map(|(m, v)| json!([m, v])).collect::<Vec<_>>()})
}

fn snapshot(u: &Universe, resources: &Resources) -> Value {
    let mut m = Map::new();
    for s in u.sources.iter() {
        m.insert(s.clone(), stamp_of(u, resources, s));
    }
    Value::Object(m)
}

const FOREIGN: [(&str, &str); 2] = [("out/foreign.txt", "keep me"), ("out/sub/foreign.lua", "return 'foreign'")];

fn foreign_ok(resources: &Resources) -> bool {
    FOREIGN.iter().all(|(p, c)| resources.get(*p).map(|t| t == *c).unwrap_or(false))
}

/// extra files under out/ that are neither foreign nor the mirrored output of a source of the universe
fn stray_outputs(u: &Universe, resources: &Resources) -> Vec<String> {
    let mut known: Vec<PathBuf> = u.sources.iter().map(|s| PathBuf::from(out_of(s))).collect();
    known.extend(FOREIGN.iter().map(|(p, _)| PathBuf::from(p)));
    let mut res: Vec<String> = resources
        .walk("out")
        .filter(|p| !known.contains(p))
        .map(|p| p.display().to_string())
        .collect();
    res.sort();
    res
}

struct World {
    files: BTreeMap<String, i64>, // name -> version (absent = does not exist)
    resources: Resources,
    tree: Option<WorkerTree>,
    cfg: String,
    /// the output location as typed (`out`, `./out`, ...): every spelling names the directory out/
    outsp: String,
}

fn fresh_world(u: &Universe, c0: &str, outsp: &str) -> World {
    let resources = Resources::from_memory();
    let mut files = BTreeMap::new();
    for f in u.sources.iter().chain(u.modules.iter()) {
        files.insert(f.clone(), 1);
        resources.write(path_of(f), &content(u, f, 1)).unwrap();
    }
    for (p, c) in FOREIGN.iter() {
        resources.write(*p, c).unwrap();
    }
    World { files, resources, tree: None, cfg: c0.to_string(), outsp: outsp.to_string() }
}

/// what a run from scratch over the current inputs and configuration writes
fn fresh_run(u: &Universe, w: &World) -> (Value, bool) {
    let resources = Resources::from_memory();
    for (f, v) in w.files.iter() {
        resources.write(path_of(f), &content(u, f, *v)).unwrap();
    }
    for (p, c) in FOREIGN.iter() {
        resources.write(*p, c).unwrap();
    }
    let r = guarded(|| darklua_core::process(&resources, options(&w.cfg, &w.outsp)));
    let ok = matches!(r, Ok(Ok(_)));
    (snapshot(u, &resources), ok)
}

fn apply(u: &Universe, w: &mut World, e: &Value) -> Result<Value, String> {
    let ev = e["ev"].as_str().unwrap();
    let mut rec = e.clone();
    match ev {
        "edit" => {
            let f = e["f"].as_str().unwrap();
            let v = e["v"].as_i64().unwrap();
            if !w.files.contains_key(f) {
                return Err(format!("driver: edit of missing file {}", f));
            }
            w.files.insert(f.to_string(), v);
            w.resources.write(path_of(f), &content(u, f, v)).unwrap();
            if let Some(tree) = w.tree.as_mut() {
                let p = path_of(f);
                guarded(|| tree.source_changed(Path::new(&p)))?;
            }
        }
        "add" => {
            let f = e["f"].as_str().unwrap();
            let v = e["v"].as_i64().unwrap_or(1);
            w.files.insert(f.to_string(), v);
            w.resources.write(path_of(f), &content(u, f, v)).unwrap();
            if let Some(tree) = w.tree.as_mut() {
                let opts = options(&w.cfg, &w.outsp);
                let res = &w.resources;
                guarded(|| tree.collect_work(res, &opts))?.map_err(|e| format!("collect_work error: {}", e))?;
            }
        }
        "rmfile" => {
            let f = e["f"].as_str().unwrap();
            w.files.remove(f);
            w.resources.remove(path_of(f)).unwrap();
            if let Some(tree) = w.tree.as_mut() {
                let p = path_of(f);
                guarded(|| tree.remove_source(Path::new(&p)))?;
            }
        }
        "rmdir" => {
            let d = e["d"].as_str().unwrap();
            let dp = dir_path(d);
            let gone: Vec<String> = w.files.keys().filter(|f| path_of(f).starts_with(&format!("{}/", dp))).cloned().collect();
            for f in gone {
                w.files.remove(&f);
            }
            w.resources.remove(&dp).unwrap();
            if let Some(tree) = w.tree.as_mut() {
                guarded(|| tree.remove_source(Path::new(&dp)))?;
            }
        }
        "config" => {
            w.cfg = e["c"].as_str().unwrap().to_string();
        }
        "process" => {
            let opts = options(&w.cfg, &w.outsp);
            let res = &w.resources;
            let mut errors = 0usize;
            if w.tree.is_none() {
                // first pass: darklua_core::process, as FileWatcher::run_worker_tree does
                match guarded(|| darklua_core::process(res, opts))? {
                    Ok(tree) => {
                        errors = tree.collect_errors().len();
                        w.tree = Some(tree);
                    }
                    Err(e) => return Err(format!("driver: first process failed: {}", e)),
                }
            } else {
                let tree = w.tree.as_mut().unwrap();
                let r = guarded(|| tree.process(res, opts))?;
                if let Err(e) = r {
                    rec["process_error"] = json!(e.to_string());
                }
                errors = tree.collect_errors().len();
            }
            let (fresh, _) = fresh_run(u, w);
            rec["out"] = snapshot(u, &w.resources);
            rec["fresh"] = fresh;
            rec["errors"] = json!(errors);
            rec["foreign_ok"] = json!(foreign_ok(&w.resources));
            rec["stray"] = json!(stray_outputs(u, &w.resources));
            rec["exists"] = json!(w.files.iter().map(|(f, v)| json!([f, v])).collect::<Vec<_>>());
        }
        other => return Err(format!("driver: unknown event {}", other)),
    }
    Ok(rec)
}

pub fn read_universe(v: &Value) -> Universe {
    let strs = |x: &Value| x.as_array().unwrap().iter().map(|s| s.as_str().unwrap().to_string()).collect::<Vec<_>>();
    let mut requires = BTreeMap::new();
    for (k, val) in v["requires"].as_object().unwrap() {
        requires.insert(k.clone(), strs(val));
    }
    let droppers = if v["droppers"].is_array() { strs(&v["droppers"]) } else { Vec::new() };
    Universe { sources: strs(&v["sources"]), modules: strs(&v["modules"]), requires, droppers }
}

pub fn main(args: &[String]) -> i32 {
    let rows = read_ndjson(arg_value(args, "--histories").expect("--histories"));
    let mut out = Out::new(arg_value(args, "--out"));
    let u = read_universe(&rows[0]);
    for h in rows.iter().skip(1) {
        let c0 = h["c0"].as_str().unwrap();
        let mut w = fresh_world(&u, c0, h["outsp"].as_str().unwrap_or("out"));
        out.emit(&json!({"ev": "reset", "id": h["id"], "c": c0}));
        for e in h["events"].as_array().unwrap() {
            match apply(&u, &mut w, e) {
                Ok(rec) => out.emit(&rec),
                Err(msg) => {
                    if msg.starts_with("driver:") {
                        eprintln!("{} (history {})", msg, h["id"]);
                        return 2;
                    }
                    let mut rec = e.clone();
                    rec["during"] = rec["ev"].clone();
                    rec["ev"] = json!("panic");
                    rec["msg"] = json!(msg.chars().take(160).collect::<String>());
                    out.emit(&rec);
                    break;
                }
            }
        }
    }
    out.flush();
    0
}
