//! X-roblox driver (supplementary to C15): replays RobloxRequire cases into the real `convert_require` rule with
//! the `roblox` TARGET mode and records the instance path it generated.
//!
//! A case (one ndjson line, printed by TLC from spec/mc/MC_Roblox.tla):
//!   {id, fam, cur: "path"|"luau", style: "find_first_child"|"wait_for_child"|"property",
//!    files: ["src/a.lua", ...]      every file of the project (relative to the project directory `proj`),
//!    src, tgt, req                  requiring file, file the require resolves to, the require string written in src,
//!    sm: 0|1, smpath                whether a Rojo sourcemap is configured and where it is (relative to the project),
//!    prefix: ""|"./"                spelling of the project location handed to darklua,
//!    nodes: [{name, cls, parent, files}]   the sourcemap tree, flat: parent = 1-based index (0 = root), children in
//!                                   index order, files relative to the DIRECTORY OF THE SOURCEMAP,
//!    order: [names]                 directory listing order (only used by the specification)}
//!
//! The observation echoes the case (so that the trace specification judges it without a join) with every path split
//! into segments (`srcp`, `tgtp`, `filesp`, `smpathp`, `nodes[i].filesp`), and adds what darklua did:
//!   status: "ok" | "unchanged" | "error:<msg>" | "panic:<msg>"
//!   root:   "script" | "game" | ""        steps: [{k, n}]  with k in parent|ffc|wfc|field|index|service
//!   text:   the generated program
//! The require argument is read back with the independent parser `luaparse`, never with darklua's own parser.
use crate::util::{arg_value, guarded, read_ndjson, Out};
use darklua_core::{Configuration, Options, Resources};
use luaparse::{Dialect, Program};
use serde_json::{json, Value};
use std::path::Path;

const PROJ: &str = "proj";

fn segs(p: &str) -> Value {
    Value::Array(p.split('/').filter(|s| !s.is_empty()).map(|s| json!(s)).collect())
}

fn strs(v: &Value) -> Vec<String> {
    v.as_array().map(|a| a.iter().map(|x| x.as_str().unwrap_or("").to_string()).collect()).unwrap_or_default()
}

/// Nested Rojo sourcemap JSON of the flat node list (children of a node = the nodes naming it as parent, in index order).
fn sourcemap_json(nodes: &[Value], idx: usize) -> Value {
    let n = &nodes[idx];
    let mut o = serde_json::Map::new();
    o.insert("name".into(), n["name"].clone());
    o.insert("className".into(), n["cls"].clone());
    let files = strs(&n["files"]);
    if !files.is_empty() {
        o.insert("filePaths".into(), json!(files));
    }
    let children: Vec<Value> = (0..nodes.len())
        .filter(|j| nodes[*j]["parent"].as_u64() == Some(idx as u64 + 1))
        .map(|j| sourcemap_json(nodes, j))
        .collect();
    if !children.is_empty() {
        o.insert("children".into(), Value::Array(children));
    }
    Value::Object(o)
}

fn mode_config(cur: &str) -> &'static str {
    if cur == "luau" {
        "{ name: 'luau', use_luau_configuration: false }"
    } else {
        "{ name: 'path', use_luau_configuration: false }"
    }
}

fn lua_quote(s: &str) -> String {
    let mut o = String::from("\"");
    for c in s.chars() {
        match c {
            '"' => o.push_str("\\\""),
            '\\' => o.push_str("\\\\"),
            '\n' => o.push_str("\\n"),
            _ => o.push(c),
        }
    }
    o.push('"');
    o
}

fn text_of(bytes: &[u8]) -> String {
    String::from_utf8_lossy(bytes).to_string()
}

/// `x.Parent...:FindFirstChild("n")...` -> (root identifier, steps from the root outwards); None = not an instance path.
fn decompose(prog: &Program, mut id: usize) -> Option<(String, Vec<Value>)> {
    let mut rev: Vec<Value> = Vec::new();
    loop {
        let n = prog.node(id)?;
        match n.k.as_str() {
            "var" => {
                rev.reverse();
                return Some((text_of(&n.s), rev));
            }
            "paren" => id = n.a,
            "field" => {
                let name = text_of(&n.s);
                if name == "Parent" {
                    rev.push(json!({"k": "parent", "n": ""}));
                } else {
                    rev.push(json!({"k": "field", "n": name}));
                }
                id = n.a;
            }
            "index" => {
                let key = prog.node(n.b)?;
                if key.k != "str" {
                    return None;
                }
                rev.push(json!({"k": "index", "n": text_of(&key.s)}));
                id = n.a;
            }
            "mcall" => {
                let k = match text_of(&n.s).as_str() {
                    "FindFirstChild" => "ffc",
                    "WaitForChild" => "wfc",
                    "GetService" => "service",
                    _ => return None,
                };
                if n.l.len() != 1 {
                    return None;
                }
                let arg = prog.node(n.l[0])?;
                if arg.k != "str" {
                    return None;
                }
                rev.push(json!({"k": k, "n": text_of(&arg.s)}));
                id = n.a;
            }
            _ => return None,
        }
    }
}

/// The argument of the `require` call of `return require(<arg>)`, as (status, root, steps).
fn read_back(text: &str) -> (String, String, Vec<Value>) {
    let prog = match luaparse::parse(text.as_bytes(), Dialect::Luau) {
        Ok(p) => p,
        Err(e) => return (format!("error:output does not parse: {:?}", e), String::new(), vec![]),
    };
    let bad = |why: &str| (format!("error:{}: {}", why, text.chars().take(160).collect::<String>()), String::new(), vec![]);
    let root = match prog.node(prog.root) {
        Some(r) if r.k == "block" && r.l.len() == 1 => r,
        _ => return bad("unexpected program shape"),
    };
    let ret = match prog.node(root.l[0]) {
        Some(r) if r.k == "ret" && r.l.len() == 1 => r,
        _ => return bad("no single return"),
    };
    let call = match prog.node(ret.l[0]) {
        Some(c) if c.k == "call" && c.l.len() == 1 => c,
        _ => return bad("no call with one argument"),
    };
    match prog.node(call.a) {
        Some(f) if f.k == "var" && f.s == b"require" => {}
        _ => return bad("callee is not require"),
    }
    let arg_id = call.l[0];
    if let Some(a) = prog.node(arg_id) {
        if a.k == "str" {
            return ("unchanged".to_string(), String::new(), vec![]);
        }
    }
    match decompose(&prog, arg_id) {
        Some((root, steps)) => ("ok".to_string(), root, steps),
        None => bad("argument is not an instance path"),
    }
}

fn run_case(c: &Value) -> Value {
    let cur = c["cur"].as_str().unwrap_or("path");
    let style = c["style"].as_str().unwrap_or("find_first_child");
    let files = strs(&c["files"]);
    let src = c["src"].as_str().unwrap_or("");
    let tgt = c["tgt"].as_str().unwrap_or("");
    let req = c["req"].as_str().unwrap_or("");
    let sm = c["sm"].as_u64().unwrap_or(0) == 1;
    let smpath = c["smpath"].as_str().unwrap_or("sourcemap.json");
    let prefix = c["prefix"].as_str().unwrap_or("");
    let nodes: Vec<Value> = c["nodes"].as_array().cloned().unwrap_or_default();

    let resources = Resources::from_memory();
    for f in &files {
        let content = if f.ends_with(".lua") || f.ends_with(".luau") {
            format!("return 'MARK:{}'", f)
        } else if f.ends_with(".json") {
            "{\"mark\": 1}".to_string()
        } else {
            "mark".to_string()
        };
        resources.write(format!("{}/{}", PROJ, f), &content).expect("write memory file");
    }
    resources
        .write(format!("{}/{}", PROJ, src), &format!("return require({})", lua_quote(req)))
        .expect("write source");
    if sm && !nodes.is_empty() {
        let text = serde_json::to_string(&sourcemap_json(&nodes, 0)).expect("sourcemap json");
        resources.write(format!("{}/{}", PROJ, smpath), &text).expect("write sourcemap");
    }
    let target = if sm {
        format!("{{ name: 'roblox', rojo_sourcemap: '{}', indexing_style: '{}' }}", smpath, style)
    } else {
        format!("{{ name: 'roblox', indexing_style: '{}' }}", style)
    };
    let cfg_text = format!(
        "{{ generator: 'dense', rules: [{{ rule: 'convert_require', current: {}, target: {} }}] }}",
        mode_config(cur),
        target
    );

    let (status, root, steps, text) = match json5::from_str::<Configuration>(&cfg_text) {
        Err(e) => (format!("error:config: {}", e), String::new(), vec![], String::new()),
        Ok(config) => {
            let config = config.with_location(format!("{}{}", prefix, PROJ));
            let input = format!("{}{}/{}", prefix, PROJ, src);
            let r = guarded(|| {
                darklua_core::process(
                    &resources,
                    Options::new(Path::new(&input)).with_output("out/conv.lua").with_configuration(config),
                )
            });
            match r {
                Err(p) => (format!("panic:{}", p.chars().take(200).collect::<String>()), String::new(), vec![], String::new()),
                Ok(Err(e)) => (format!("error:{}", e.to_string().chars().take(300).collect::<String>()), String::new(), vec![], String::new()),
                Ok(Ok(tree)) => {
                    let errors: Vec<String> = tree.collect_errors().iter().map(|e| e.to_string()).collect();
                    if !errors.is_empty() {
                        (format!("error:{}", errors.join(" | ").chars().take(300).collect::<String>()), String::new(), vec![], String::new())
                    } else {
                        match resources.get("out/conv.lua") {
                            Err(e) => (format!("error:no output: {:?}", e), String::new(), vec![], String::new()),
                            Ok(text) => {
                                let (st, root, steps) = read_back(&text);
                                (st, root, steps, text)
                            }
                        }
                    }
                }
            }
        }
    };

    let nodes_out: Vec<Value> = nodes
        .iter()
        .map(|n| {
            json!({
                "name": n["name"], "cls": n["cls"], "parent": n["parent"],
                "filesp": strs(&n["files"]).iter().map(|f| segs(f)).collect::<Vec<_>>(),
            })
        })
        .collect();
    json!({
        "id": c["id"], "fam": c["fam"].as_str().unwrap_or(""), "cur": cur, "style": style,
        "filesp": files.iter().map(|f| segs(f)).collect::<Vec<_>>(),
        "src": src, "srcp": segs(src), "tgt": tgt, "tgtp": segs(tgt), "req": req,
        "sm": if sm { 1 } else { 0 }, "smpathp": segs(smpath), "prefix": prefix,
        "nodes": nodes_out, "order": strs(&c["order"]),
        "status": status, "root": root, "steps": steps, "text": text,
    })
}

pub fn main(args: &[String]) -> i32 {
    let cases = read_ndjson(arg_value(args, "--cases").expect("--cases"));
    let mut out = Out::new(arg_value(args, "--out"));
    for c in cases {
        out.emit(&run_case(&c));
    }
    out.flush();
    0
}
