//! C09 driver: renames the program of each case with the real rename_variables rule and records the
//! identifier tokens of input and output in textual order.
//! case: {id, text, events, globals (model's G, informational), keep_functions, nids, listed: [names]}
use crate::text::run_text;
use crate::util::{arg_value, read_ndjson, Out};
use serde_json::{json, Value};

const KEYWORDS: [&str; 22] = [
    "and", "break", "do", "else", "elseif", "end", "false", "for", "function", "if", "in", "local", "nil", "not", "or",
    "repeat", "return", "then", "true", "until", "while", "continue",
];

/// identifier tokens of a program made of names, keywords, numbers, strings without escapes and punctuation
pub fn identifiers(text: &str) -> Vec<String> {
    let b = text.as_bytes();
    let mut out = Vec::new();
    let mut i = 0;
    while i < b.len() {
        let c = b[i];
        if c == b'-' && i + 1 < b.len() && b[i + 1] == b'-' {
            while i < b.len() && b[i] != b'\n' {
                i += 1;
            }
        } else if c == b'\'' || c == b'"' {
            i += 1;
            while i < b.len() && b[i] != c {
                i += 1;
            }
            i += 1;
        } else if c.is_ascii_alphabetic() || c == b'_' {
            let s = i;
            while i < b.len() && (b[i].is_ascii_alphanumeric() || b[i] == b'_') {
                i += 1;
            }
            let w = &text[s..i];
            if !KEYWORDS.contains(&w) || w == "continue" && false {
                out.push(w.to_string());
            }
        } else if c.is_ascii_digit() {
            while i < b.len() && (b[i].is_ascii_alphanumeric() || b[i] == b'.') {
                i += 1;
            }
        } else {
            i += 1;
        }
    }
    out
}

pub fn main(args: &[String]) -> i32 {
    let cases = read_ndjson(arg_value(args, "--cases").expect("--cases"));
    let mut out = Out::new(arg_value(args, "--out"));
    for c in cases {
        let text = c["text"].as_str().unwrap();
        let keep = c["keep_functions"].as_bool().unwrap_or(true);
        let listed: Vec<String> = c["listed"].as_array().map(|a| a.iter().map(|v| v.as_str().unwrap().to_string()).collect()).unwrap_or_default();
        let rules = format!(
            "[{{ rule: 'rename_variables', include_functions: {}, globals: {} }}]",
            !keep,
            serde_json::to_string(&listed).unwrap()
        );
        let generator = c["generator"].as_str().unwrap_or("retain_lines");
        let mut obs = c.clone();
        obs["names_in"] = json!(identifiers(text));
        match run_text(text, &rules, &format!("'{}'", generator)) {
            Ok(o) => {
                obs["names_out"] = json!(identifiers(&o));
                obs["out"] = json!(o);
                obs["status"] = json!("ok");
            }
            Err(e) => {
                obs["names_out"] = json!([]);
                obs["out"] = json!("");
                obs["status"] = json!(e);
            }
        }
        obs["listed"] = json!(listed);
        let _: &Value = &obs;
        out.emit(&obs);
    }
    out.flush();
    0
}
