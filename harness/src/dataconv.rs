//! C14 driver: data values enumerated by spec/mc/MC_DataConv.tla are rendered as JSON / JSON5 / YAML / TOML (/ txt)
//! TEXT from the value (the ground truth is the value, never a second parser), fed through the real paths
//!   * convert: exactly what src/cli/convert.rs does -- json5::from_str::<serde_json::Value> for json AND json5,
//!              serde_yaml::from_str::<serde_yaml::Value>, toml::from_str::<toml::Value> -- then darklua_core::convert_data,
//!   * bundle : `return require('./data.<ext>')` bundled by darklua_core::process on in-memory resources,
//! and the emitted Lua text is parsed by the independent parser into a program for spec/trace/DataTrace.tla, which
//! runs it (LuaSem) and judges DataConv!LuaEq(result, datum).
//!
//! case (one per line): {id, fam, d}    d = nested datum record of spec/darklua/DataConv.tla
//! --out    : DataTrace cases {id, fmt, path, variant, prog, d}
//! --status : one line per (case, format, variant, path): {id, case, fmt, path, variant, status, doc, out[, alias]}
//! `--corrupt drop-key|shift-null|round` deliberately damages the emitted Lua text (binding demonstration only).
use crate::util::{arg_value, guarded, read_ndjson, Out};
use darklua_core::{Configuration, Options, Resources};
use luaparse::Dialect;
use serde_json::{json, Value};
use std::collections::HashMap;
use std::path::Path;

// ------------------------------------------------------------------------------------------------ datum access
fn kind(d: &Value) -> &str {
    d["k"].as_str().unwrap_or("null")
}
fn bytes_of(v: &Value) -> Vec<u8> {
    v.as_array().map(|a| a.iter().map(|x| x.as_u64().unwrap_or(0) as u8).collect()).unwrap_or_default()
}
fn text_of(v: &Value) -> Option<String> {
    String::from_utf8(bytes_of(v)).ok()
}
fn members(d: &Value) -> &[Value] {
    d["l"].as_array().map(|a| a.as_slice()).unwrap_or(&[])
}
fn keys(d: &Value) -> Vec<Option<String>> {
    d["ks"].as_array().map(|a| a.iter().map(text_of).collect()).unwrap_or_default()
}
fn words(d: &Value) -> u64 {
    let hi = d["hi"].as_i64().unwrap_or(0) as i32 as u32 as u64;
    let lo = d["lo"].as_i64().unwrap_or(0) as i32 as u32 as u64;
    (hi << 32) | lo
}
/// every string / key is valid UTF-8 (documents are text)
fn all_utf8(d: &Value) -> bool {
    match kind(d) {
        "str" => text_of(&d["s"]).is_some(),
        "arr" => members(d).iter().all(all_utf8),
        "obj" => keys(d).iter().all(|k| k.is_some()) && members(d).iter().all(all_utf8),
        _ => true,
    }
}
fn has_null(d: &Value) -> bool {
    match kind(d) {
        "null" => true,
        "arr" | "obj" => members(d).iter().any(has_null),
        _ => false,
    }
}
fn has_special_num(d: &Value) -> bool {
    match kind(d) {
        "num" => matches!(d["tx"].as_str(), Some("inf") | Some("-inf") | Some("nan")),
        "arr" | "obj" => members(d).iter().any(has_special_num),
        _ => false,
    }
}
/// a finite decimal literal whose nearest double is infinite (1e400): YAML and TOML leave such literals to the reader
/// (serde_yaml resolves them as strings, toml refuses them), so only JSON / JSON5 documents carry them
fn has_overflow_literal(d: &Value) -> bool {
    match kind(d) {
        "num" => !matches!(d["tx"].as_str(), Some("inf") | Some("-inf") | Some("nan")) && (words(d) >> 52) & 0x7ff == 0x7ff,
        "arr" | "obj" => members(d).iter().any(has_overflow_literal),
        _ => false,
    }
}
/// the spec's nearest double must be what a correctly rounding decimal reader gives (cross-check of IEEE754!FOfDecimal)
fn check_numbers(d: &Value) -> Result<(), String> {
    match kind(d) {
        "num" => {
            let tx = d["tx"].as_str().unwrap_or("");
            let want = match tx {
                "inf" => f64::INFINITY.to_bits(),
                "-inf" => f64::NEG_INFINITY.to_bits(),
                "nan" => 0x7ff8_0000_0000_0000,
                _ => tx.parse::<f64>().map_err(|e| format!("{}: {}", tx, e))?.to_bits(),
            };
            // the specification's -0 is +0 (BigDecimal has no signed zero); the sign of zero is not part of the verdict
            let norm = |b: u64| if b == 0x8000_0000_0000_0000 { 0 } else { b };
            if norm(want) != norm(words(d)) {
                return Err(format!("number {}: spec words {:016x}, Rust {:016x}", tx, words(d), want));
            }
            Ok(())
        }
        "arr" | "obj" => members(d).iter().try_for_each(check_numbers),
        _ => Ok(()),
    }
}

// ------------------------------------------------------------------------------------------------ number spellings
fn is_int_text(tx: &str) -> bool {
    let t = tx.strip_prefix('-').unwrap_or(tx);
    !t.is_empty() && t.bytes().all(|b| b.is_ascii_digit())
}
/// mantissa with a dot and an explicitly signed exponent: a float for YAML 1.1 and 1.2 readers alike
fn yaml_float(tx: &str) -> String {
    let (mant, exp) = match tx.find(['e', 'E']) {
        Some(i) => (&tx[..i], Some(&tx[i..])),
        None => (tx, None),
    };
    let mut s = mant.to_string();
    if !s.contains('.') {
        s.push_str(".0");
    }
    if let Some(e) = exp {
        s.push_str(&e[..1]);
        let rest = &e[1..];
        if !(rest.starts_with('+') || rest.starts_with('-')) {
            s.push('+');
        }
        s.push_str(rest);
    }
    s
}

// ------------------------------------------------------------------------------------------------ JSON / JSON5
fn json_string(s: &str, escape_all: bool) -> String {
    let mut o = String::from("\"");
    for c in s.chars() {
        match c {
            '"' => o.push_str("\\\""),
            '\\' => o.push_str("\\\\"),
            '\n' if !escape_all => o.push_str("\\n"),
            '\r' if !escape_all => o.push_str("\\r"),
            '\t' if !escape_all => o.push_str("\\t"),
            '\u{8}' if !escape_all => o.push_str("\\b"),
            '\u{c}' if !escape_all => o.push_str("\\f"),
            c if (c as u32) < 0x20 => o.push_str(&format!("\\u{:04x}", c as u32)),
            c if escape_all && (c as u32) >= 0x7f => {
                let mut b = [0u16; 2];
                for u in c.encode_utf16(&mut b) {
                    o.push_str(&format!("\\u{:04X}", u));
                }
            }
            '/' if escape_all => o.push_str("\\/"),
            c => o.push(c),
        }
    }
    o.push('"');
    o
}
fn json_render(d: &Value, v: u32, ind: usize, o: &mut String) {
    let pretty = v == 1;
    let nl = |o: &mut String, n: usize| {
        if pretty {
            o.push('\n');
            o.push_str(&"  ".repeat(n));
        }
    };
    match kind(d) {
        "null" => o.push_str("null"),
        "bool" => o.push_str(if d["b"] == 1 { "true" } else { "false" }),
        "num" => o.push_str(d["tx"].as_str().unwrap()),
        "str" => o.push_str(&json_string(&text_of(&d["s"]).unwrap(), pretty)),
        "arr" => {
            o.push('[');
            for (i, m) in members(d).iter().enumerate() {
                if i > 0 {
                    o.push(',');
                }
                nl(o, ind + 1);
                json_render(m, v, ind + 1, o);
            }
            if !members(d).is_empty() {
                nl(o, ind);
            }
            o.push(']');
        }
        _ => {
            o.push('{');
            let ks = keys(d);
            for (i, m) in members(d).iter().enumerate() {
                if i > 0 {
                    o.push(',');
                }
                nl(o, ind + 1);
                o.push_str(&json_string(ks[i].as_ref().unwrap(), pretty));
                o.push(':');
                if pretty {
                    o.push(' ');
                }
                json_render(m, v, ind + 1, o);
            }
            if !members(d).is_empty() {
                nl(o, ind);
            }
            o.push('}');
        }
    }
}
fn json5_string(s: &str) -> String {
    let mut o = String::from("'");
    for c in s.chars() {
        match c {
            '\'' => o.push_str("\\'"),
            '\\' => o.push_str("\\\\"),
            '\n' => o.push_str("\\n"),
            '\r' => o.push_str("\\r"),
            '\t' => o.push_str("\\t"),
            '\u{b}' => o.push_str("\\v"),
            '\0' => o.push_str("\\x00"),
            c if (c as u32) < 0x20 || (0x7f..0x100).contains(&(c as u32)) => o.push_str(&format!("\\x{:02x}", c as u32)),
            '\u{2028}' => o.push_str("\\u2028"),
            '\u{2029}' => o.push_str("\\u2029"),
            c => o.push(c),
        }
    }
    o.push('\'');
    o
}
fn json5_number(tx: &str, v: u32) -> String {
    match tx {
        "inf" => return if v == 1 { "+Infinity".into() } else { "Infinity".into() },
        "-inf" => return "-Infinity".into(),
        "nan" => return "NaN".into(),
        _ => {}
    }
    if v == 0 {
        return tx.to_string();
    }
    if is_int_text(tx) && !tx.starts_with('-') && tx.len() <= 9 {
        return format!("0x{:X}", tx.parse::<u64>().unwrap());
    }
    if let Some(r) = tx.strip_prefix("0.") {
        if !r.contains(['e', 'E']) {
            return format!(".{}", r);
        }
    }
    if let Some(r) = tx.strip_suffix(".0") {
        return format!("{}.", r);
    }
    if !tx.starts_with('-') {
        return format!("+{}", tx);
    }
    tx.to_string()
}
fn json5_render(d: &Value, v: u32, o: &mut String) {
    match kind(d) {
        "null" => o.push_str("null"),
        "bool" => o.push_str(if d["b"] == 1 { "true" } else { "false" }),
        "num" => o.push_str(&json5_number(d["tx"].as_str().unwrap(), v)),
        "str" => o.push_str(&json5_string(&text_of(&d["s"]).unwrap())),
        "arr" => {
            o.push('[');
            for m in members(d) {
                json5_render(m, v, o);
                o.push_str(", ");
            }
            if v == 1 && !members(d).is_empty() {
                o.push_str("/* end */");
            }
            o.push(']');
        }
        _ => {
            o.push('{');
            let ks = keys(d);
            for (i, m) in members(d).iter().enumerate() {
                let k = ks[i].as_ref().unwrap();
                let ident = !k.is_empty()
                    && k.bytes().enumerate().all(|(j, b)| b.is_ascii_alphabetic() || b == b'_' || b == b'$' || (j > 0 && b.is_ascii_digit()));
                if ident && v == 0 {
                    o.push_str(k);
                } else {
                    o.push_str(&json5_string(k));
                }
                o.push_str(": ");
                json5_render(m, v, o);
                o.push_str(",");
                if v == 1 {
                    o.push_str(" // member\n");
                }
            }
            o.push('}');
        }
    }
}

// ------------------------------------------------------------------------------------------------ YAML
fn yaml_string(s: &str, v: u32) -> String {
    let plain_ok = !s.is_empty()
        && s.bytes().enumerate().all(|(j, b)| b.is_ascii_alphabetic() || b == b'_' || (j > 0 && b.is_ascii_digit()))
        && !matches!(s.to_ascii_lowercase().as_str(), "true" | "false" | "null" | "yes" | "no" | "on" | "off" | "y" | "n" | "nan" | "inf");
    if plain_ok && v == 0 {
        return s.to_string();
    }
    let mut o = String::from("\"");
    for c in s.chars() {
        match c {
            '"' => o.push_str("\\\""),
            '\\' => o.push_str("\\\\"),
            '\0' => o.push_str("\\0"),
            '\u{7}' => o.push_str("\\a"),
            '\u{8}' => o.push_str("\\b"),
            '\t' => o.push_str("\\t"),
            '\n' => o.push_str("\\n"),
            '\u{b}' => o.push_str("\\v"),
            '\u{c}' => o.push_str("\\f"),
            '\r' => o.push_str("\\r"),
            '\u{1b}' => o.push_str("\\e"),
            '\u{85}' => o.push_str("\\N"),
            '\u{a0}' => o.push_str("\\_"),
            '\u{2028}' => o.push_str("\\L"),
            '\u{2029}' => o.push_str("\\P"),
            c if (c as u32) < 0x20 || (0x7f..0xa0).contains(&(c as u32)) => o.push_str(&format!("\\x{:02x}", c as u32)),
            c if (c as u32) >= 0x80 && (v == 1 || matches!(c as u32, 0xfeff | 0xfffe | 0xffff)) => {
                if (c as u32) <= 0xffff {
                    o.push_str(&format!("\\u{:04x}", c as u32))
                } else {
                    o.push_str(&format!("\\U{:08x}", c as u32))
                }
            }
            c => o.push(c),
        }
    }
    o.push('"');
    o
}
fn yaml_scalar(d: &Value, v: u32) -> Option<String> {
    Some(match kind(d) {
        "null" => if v == 1 { "~".into() } else { "null".into() },
        "bool" => if d["b"] == 1 { "true".into() } else { "false".into() },
        "num" => {
            let tx = d["tx"].as_str().unwrap();
            match tx {
                "inf" => ".inf".into(),
                "-inf" => "-.inf".into(),
                "nan" => ".nan".into(),
                _ if is_int_text(tx) => tx.to_string(),
                _ => yaml_float(tx),
            }
        }
        "str" => yaml_string(&text_of(&d["s"]).unwrap(), v),
        "arr" if members(d).is_empty() => "[]".into(),
        "obj" if members(d).is_empty() => "{}".into(),
        _ => return None,
    })
}
fn yaml_flow(d: &Value, v: u32, o: &mut String) {
    if let Some(s) = yaml_scalar(d, v) {
        o.push_str(&s);
        return;
    }
    if kind(d) == "arr" {
        o.push('[');
        for (i, m) in members(d).iter().enumerate() {
            if i > 0 {
                o.push_str(", ");
            }
            yaml_flow(m, v, o);
        }
        o.push(']');
    } else {
        o.push('{');
        let ks = keys(d);
        for (i, m) in members(d).iter().enumerate() {
            if i > 0 {
                o.push_str(", ");
            }
            o.push_str(&yaml_string(ks[i].as_ref().unwrap(), 1));
            o.push_str(": ");
            yaml_flow(m, v, o);
        }
        o.push('}');
    }
}
fn yaml_block(d: &Value, ind: usize, o: &mut String) {
    let pad = "  ".repeat(ind);
    if kind(d) == "arr" {
        for m in members(d) {
            o.push_str(&pad);
            match yaml_scalar(m, 0) {
                Some(s) => {
                    o.push_str("- ");
                    o.push_str(&s);
                    o.push('\n');
                }
                None => {
                    o.push_str("-\n");
                    yaml_block(m, ind + 1, o);
                }
            }
        }
    } else {
        let ks = keys(d);
        for (i, m) in members(d).iter().enumerate() {
            o.push_str(&pad);
            o.push_str(&yaml_string(ks[i].as_ref().unwrap(), 0));
            match yaml_scalar(m, 0) {
                Some(s) => {
                    o.push_str(": ");
                    o.push_str(&s);
                    o.push('\n');
                }
                None => {
                    o.push_str(":\n");
                    yaml_block(m, ind + 1, o);
                }
            }
        }
    }
}
fn yaml_render(d: &Value, v: u32) -> String {
    let mut o = String::new();
    if v == 1 {
        yaml_flow(d, 1, &mut o);
        o.push('\n');
    } else if let Some(s) = yaml_scalar(d, 0) {
        o.push_str(&s);
        o.push('\n');
    } else {
        yaml_block(d, 0, &mut o);
    }
    o
}

// ------------------------------------------------------------------------------------------------ TOML
fn toml_basic(s: &str) -> String {
    let mut o = String::from("\"");
    for c in s.chars() {
        match c {
            '"' => o.push_str("\\\""),
            '\\' => o.push_str("\\\\"),
            '\n' => o.push_str("\\n"),
            '\r' => o.push_str("\\r"),
            '\t' => o.push_str("\\t"),
            c if (c as u32) < 0x20 || c as u32 == 0x7f => o.push_str(&format!("\\u{:04X}", c as u32)),
            c => o.push(c),
        }
    }
    o.push('"');
    o
}
fn toml_string(s: &str, v: u32) -> String {
    let literal_ok = !s.contains('\'') && s.chars().all(|c| c == '\t' || ((c as u32) >= 0x20 && c as u32 != 0x7f));
    if v == 1 && literal_ok {
        format!("'{}'", s)
    } else {
        toml_basic(s)
    }
}
fn toml_key(k: &str, v: u32) -> String {
    let bare = !k.is_empty() && k.bytes().all(|b| b.is_ascii_alphanumeric() || b == b'_' || b == b'-');
    if bare && v == 0 {
        k.to_string()
    } else {
        toml_string(k, v)
    }
}
fn toml_number(tx: &str) -> String {
    match tx {
        "inf" | "-inf" | "nan" => tx.to_string(),
        _ if is_int_text(tx) => {
            if tx.parse::<i64>().is_ok() {
                tx.to_string()
            } else {
                format!("{}.0", tx) // beyond 64 bits TOML has only floats
            }
        }
        _ => tx.to_string(),
    }
}
fn toml_value(d: &Value, v: u32, o: &mut String) {
    match kind(d) {
        "bool" => o.push_str(if d["b"] == 1 { "true" } else { "false" }),
        "num" => o.push_str(&toml_number(d["tx"].as_str().unwrap())),
        "str" => o.push_str(&toml_string(&text_of(&d["s"]).unwrap(), v)),
        "arr" => {
            o.push('[');
            for (i, m) in members(d).iter().enumerate() {
                if i > 0 {
                    o.push_str(", ");
                }
                toml_value(m, v, o);
            }
            o.push(']');
        }
        _ => {
            o.push('{');
            let ks = keys(d);
            for (i, m) in members(d).iter().enumerate() {
                if i > 0 {
                    o.push_str(", ");
                }
                o.push(' ');
                o.push_str(&toml_key(ks[i].as_ref().unwrap(), v));
                o.push_str(" = ");
                toml_value(m, v, o);
            }
            o.push_str(" }");
        }
    }
}
fn toml_render(d: &Value, v: u32) -> String {
    let mut o = String::new();
    let ks = keys(d);
    let mut tables = Vec::new();
    for (i, m) in members(d).iter().enumerate() {
        if v == 1 && kind(m) == "obj" {
            tables.push(i);
            continue;
        }
        o.push_str(&toml_key(ks[i].as_ref().unwrap(), v));
        o.push_str(" = ");
        toml_value(m, v, &mut o);
        o.push('\n');
    }
    for i in tables {
        o.push_str(&format!("\n[{}]\n", toml_key(ks[i].as_ref().unwrap(), v)));
        let m = &members(d)[i];
        let mk = keys(m);
        for (j, mm) in members(m).iter().enumerate() {
            o.push_str(&toml_key(mk[j].as_ref().unwrap(), v));
            o.push_str(" = ");
            toml_value(mm, v, &mut o);
            o.push('\n');
        }
    }
    o
}

/// the document text of `d` in `fmt` (variant 0 / 1), or None when the format cannot express the value
pub fn render(d: &Value, fmt: &str, v: u32) -> Option<String> {
    if !all_utf8(d) {
        return None;
    }
    match fmt {
        "json" => {
            if has_special_num(d) {
                return None;
            }
            let mut o = String::new();
            json_render(d, v, 0, &mut o);
            Some(o)
        }
        "json5" => {
            let mut o = String::new();
            json5_render(d, v, &mut o);
            Some(o)
        }
        "yaml" | "yml" => {
            if has_overflow_literal(d) {
                return None;
            }
            Some(yaml_render(d, v))
        }
        "toml" => {
            if kind(d) != "obj" || has_null(d) || has_overflow_literal(d) {
                return None;
            }
            Some(toml_render(d, v))
        }
        "txt" => {
            if kind(d) != "str" || v != 0 {
                return None;
            }
            text_of(&d["s"])
        }
        _ => None,
    }
}

// ------------------------------------------------------------------------------------------------ the real paths
/// src/cli/convert.rs, `convert_data`: format chosen from the extension, parser per format, then darklua_core::convert_data
pub fn convert_like_cli(fmt: &str, input: &str) -> Result<String, String> {
    match fmt {
        "json" | "json5" => {
            let v = json5::from_str::<serde_json::Value>(input).map_err(|e| format!("input-rejected: {}", e))?;
            darklua_core::convert_data(v).map_err(|e| format!("convert-error: {}", e))
        }
        "yml" | "yaml" => {
            let v = serde_yaml::from_str::<serde_yaml::Value>(input).map_err(|e| format!("input-rejected: {}", e))?;
            darklua_core::convert_data(v).map_err(|e| format!("convert-error: {}", e))
        }
        "toml" => {
            let v = toml::from_str::<toml::Value>(input).map_err(|e| format!("input-rejected: {}", e))?;
            darklua_core::convert_data(v).map_err(|e| format!("convert-error: {}", e))
        }
        _ => Err("input-rejected: unknown format".into()),
    }
}

/// the real `darklua convert <file>` (binary built from /repo, path in DLV_DARKLUA_BIN): stdout is the Lua text
pub fn convert_with_cli(bin: &str, dir: &std::path::Path, fmt: &str, input: &str) -> Result<String, String> {
    let file = dir.join(format!("data.{}", fmt));
    std::fs::write(&file, input).map_err(|e| format!("cannot write the document: {}", e))?;
    let out = std::process::Command::new(bin)
        .arg("convert")
        .arg(&file)
        .output()
        .map_err(|e| format!("cannot run {}: {}", bin, e))?;
    if !out.status.success() {
        let err = String::from_utf8_lossy(&out.stderr);
        // the CLI reports a document it cannot read or convert as an error: the same classes as the library path
        return Err(format!("input-rejected: (cli) {}", err.chars().take(200).collect::<String>()));
    }
    String::from_utf8(out.stdout).map_err(|_| "cli wrote invalid UTF-8".to_string())
}

/// `return require('./data.<ext>')` bundled by the real darklua
pub fn bundle_data(fmt: &str, input: &str, v: u32) -> Result<String, String> {
    let resources = Resources::from_memory();
    resources.write(format!("proj/src/data.{}", fmt), input).map_err(|e| format!("{:?}", e))?;
    resources
        .write("proj/src/main.lua", &format!("return require('./data.{}')\n", fmt))
        .map_err(|e| format!("{:?}", e))?;
    let (mode, generator) = if v == 1 { ("luau", "readable") } else { ("path", "dense") };
    let cfg_text = format!("{{ generator: '{}', rules: [], bundle: {{ require_mode: '{}' }} }}", generator, mode);
    let config: Configuration = json5::from_str(&cfg_text).map_err(|e| format!("config: {}", e))?;
    let config = config.with_location("proj");
    let tree = darklua_core::process(
        &resources,
        Options::new(Path::new("proj/src/main.lua")).with_output("out/out.lua").with_configuration(config),
    )
    .map_err(|e| format!("bundle-error: {}", e))?;
    let errors: Vec<String> = tree.collect_errors().iter().map(|e| e.to_string()).collect();
    if !errors.is_empty() {
        let all = errors.join(" | ");
        // a document the format's own parser refuses is not a conversion
        if convert_like_cli(fmt, input).map_err(|e| e.starts_with("input-rejected")).err() == Some(true) {
            return Err(format!("input-rejected: {}", all));
        }
        return Err(format!("bundle-error: {}", all));
    }
    resources.get("out/out.lua").map_err(|e| format!("bundle-error: no output {:?}", e))
}

fn corrupt(text: &str, how: &str) -> String {
    match how {
        // drop the first keyed member (`key=value` / `["key"]=value`) of the first table of a `return{...}` text
        "drop-key" => {
            if !text.starts_with("return{") {
                return text.to_string();
            }
            let b = text.as_bytes();
            let (mut i, mut depth, mut quote, mut keyed) = (7usize, 0i32, 0u8, false);
            while i < b.len() {
                let c = b[i];
                if quote != 0 {
                    if c == b'\\' {
                        i += 1;
                    } else if c == quote {
                        quote = 0;
                    }
                } else if c == b'\'' || c == b'"' {
                    quote = c;
                } else if c == b'{' || c == b'[' || c == b'(' {
                    depth += 1;
                } else if (c == b'}' || c == b']' || c == b')') && depth > 0 {
                    depth -= 1;
                } else if c == b'=' && depth == 0 {
                    keyed = true;
                } else if (c == b',' || c == b'}') && depth == 0 {
                    if !keyed {
                        return text.to_string();
                    }
                    let skip = if c == b',' { i + 1 } else { i };
                    return format!("return{{{}", &text[skip..]);
                }
                i += 1;
            }
            text.to_string()
        }
        // remove a `nil` element of a sequence so that later elements shift
        "shift-null" => {
            if text.contains("{nil,") {
                text.replacen("{nil,", "{", 1)
            } else {
                text.replacen(",nil,", ",", 1)
            }
        }
        // bump the 4th digit of the first numeral that has at least 15 digits
        "round" => {
            let b = text.as_bytes();
            let mut i = 0;
            while i < b.len() {
                if b[i].is_ascii_digit() {
                    let mut j = i;
                    while j < b.len() && b[j].is_ascii_digit() {
                        j += 1;
                    }
                    if j - i >= 15 {
                        let mut o = b.to_vec();
                        o[i + 3] = if o[i + 3] == b'9' { b'8' } else { o[i + 3] + 1 };
                        return String::from_utf8(o).unwrap();
                    }
                    i = j;
                } else {
                    i += 1;
                }
            }
            text.to_string()
        }
        _ => text.to_string(),
    }
}

pub fn main(args: &[String]) -> i32 {
    let cases = read_ndjson(arg_value(args, "--cases").expect("--cases"));
    let mut out = Out::new(arg_value(args, "--out"));
    let mut status = Out::new(arg_value(args, "--status"));
    let how = arg_value(args, "--corrupt").unwrap_or("");
    let mut seen: HashMap<String, String> = HashMap::new();
    let cli_bin: Option<String> = std::env::var("DLV_DARKLUA_BIN").ok().filter(|p| std::path::Path::new(p).is_file());
    let cli_dir = tempfile::tempdir().expect("temp dir");
    let (mut ncli, mut nspawned) = (0usize, 0usize);
    for c in cases {
        let cid = c["id"].as_str().expect("id").to_string();
        let d = &c["d"];
        if let Err(e) = check_numbers(d) {
            eprintln!("case {}: {}", cid, e);
            return 2;
        }
        let dkey = d.to_string();
        for fmt in ["json", "json5", "yaml", "toml", "txt"] {
            for v in 0..2u32 {
                let doc = match render(d, fmt, v) {
                    Some(t) => t,
                    None => continue,
                };
                // the CLI picks the parser from the extension: exercise `yml` as the second spelling of yaml
                let ext = if fmt == "yaml" && v == 1 { "yml" } else { fmt };
                for path in ["convert", "bundle"] {
                    if fmt == "txt" && path == "convert" {
                        continue;
                    }
                    let id = format!("{}|{}|{}|{}", cid, ext, v, path);
                    // `darklua convert` itself (the binary) for every YAML / TOML document and one JSON document in three; the
                    // library-level transcription of the command for the others
                    ncli += 1;
                    let use_cli = path == "convert" && cli_bin.is_some() && (ext != "json" && ext != "json5" || ncli % 3 == 0);
                    let r = guarded(|| {
                        if use_cli {
                            convert_with_cli(cli_bin.as_deref().unwrap(), cli_dir.path(), ext, &doc)
                        } else if path == "convert" {
                            convert_like_cli(ext, &doc)
                        } else {
                            bundle_data(ext, &doc, v)
                        }
                    });
                    if use_cli {
                        nspawned += 1;
                    }
                    let lua = match r {
                        Err(p) => {
                            status.emit(&json!({"id": id, "case": cid, "fmt": ext, "path": path, "variant": v, "status": format!("panic: {}", p), "doc": doc, "out": ""}));
                            continue;
                        }
                        Ok(Err(e)) => {
                            status.emit(&json!({"id": id, "case": cid, "fmt": ext, "path": path, "variant": v, "status": e, "doc": doc, "out": ""}));
                            continue;
                        }
                        Ok(Ok(t)) => t,
                    };
                    let lua = if how.is_empty() { lua } else { corrupt(&lua, how) };
                    let prog = match luaparse::parse(lua.as_bytes(), Dialect::Luau) {
                        Ok(p) => p,
                        Err(e) => {
                            let own = darklua_core::Parser::default().parse(&lua).is_ok();
                            status.emit(&json!({"id": id, "case": cid, "fmt": ext, "path": path, "variant": v,
                                "status": format!("output-rejected: {:?} (darklua's own parser accepts: {})", e, own), "doc": doc, "out": lua}));
                            continue;
                        }
                    };
                    let key = format!("{}\u{1}{}", lua, dkey);
                    if let Some(first) = seen.get(&key) {
                        status.emit(&json!({"id": id, "case": cid, "fmt": ext, "path": path, "variant": v, "status": "ok", "alias": first, "doc": doc, "out": lua}));
                        continue;
                    }
                    seen.insert(key, id.clone());
                    let mut p = prog.to_json();
                    p["req"] = json!([]);
                    out.emit(&json!({"id": id, "prog": p, "d": d}));
                    status.emit(&json!({"id": id, "case": cid, "fmt": ext, "path": path, "variant": v, "status": "ok", "doc": doc, "out": lua}));
                }
            }
        }
    }
    status.emit(&json!({"id": "@cli", "case": "@cli", "fmt": "", "path": "cli-summary", "variant": 0, "status": format!("cli-runs:{}", nspawned), "doc": "", "out": ""}));
    out.flush();
    status.flush();
    0
}
