//! Meaning-preservation driver (C01, C06, C16, C17, ...): for each case the source text is parsed by the
//! INDEPENDENT parser (luaparse) into program `a`, processed by the real darklua (rules + generator), the
//! output text is parsed by the independent parser into program `b`, and the pair is written as a LuaEquiv
//! case for TLC to execute (spec/lua/LuaSem.tla) and compare.
//!
//! case: {id, src, rules, generator, enva?, envb?}
//! --out: LuaEquiv cases (ndjson); --status: one line per case {id, status, out}
use crate::text::run_text;
use crate::util::{arg_value, read_ndjson, Out};
use luaparse::Dialect;
use serde_json::{json, Value};
use std::collections::HashMap;

pub fn default_env() -> Value {
    json!({"assert": "real", "profile": "real", "gname": "", "gset": 0, "gval": {"t": "nil", "hi": 0, "lo": 0, "s": "", "b": 0}})
}

pub fn main(args: &[String]) -> i32 {
    let cases = read_ndjson(arg_value(args, "--cases").expect("--cases"));
    let mut out = Out::new(arg_value(args, "--out"));
    let mut status = Out::new(arg_value(args, "--status"));
    // identical (program a, program b, environments) pairs are executed once: `alias` names the representative case
    let mut seen: HashMap<String, Value> = HashMap::new();
    for c in cases {
        let id = c["id"].clone();
        let src = c["src"].as_str().expect("src");
        let rules = c["rules"].as_str().unwrap_or("[]");
        let generator = match c["generator"].as_str() {
            Some(g) if g.starts_with('{') => g.to_string(),
            Some(g) => format!("'{}'", g),
            None => "'retain_lines'".to_string(),
        };
        let a = match luaparse::parse(src.as_bytes(), Dialect::Luau) {
            Ok(p) => p,
            Err(e) => {
                status.emit(&json!({"id": id, "status": format!("input-rejected-by-reference-parser: {:?}", e), "out": ""}));
                continue;
            }
        };
        let text = match run_text(src, rules, &generator) {
            Ok(t) => t,
            Err(e) => {
                status.emit(&json!({"id": id, "status": e, "out": ""}));
                continue;
            }
        };
        let b = match luaparse::parse(text.as_bytes(), Dialect::Luau) {
            Ok(p) => p,
            Err(e) => {
                status.emit(&json!({"id": id, "status": format!("output-rejected-by-reference-parser: {:?}", e), "out": text}));
                continue;
            }
        };
        let enva = if c["enva"].is_object() { c["enva"].clone() } else { default_env() };
        let envb = if c["envb"].is_object() { c["envb"].clone() } else { default_env() };
        let mut pa = a.to_json();
        let mut pb = b.to_json();
        pa["req"] = json!([]);
        pb["req"] = json!([]);
        let key = format!("{}\u{1}{}\u{1}{}\u{1}{}", pa, pb, enva, envb);
        if let Some(first) = seen.get(&key) {
            status.emit(&json!({"id": id, "status": "ok", "alias": first, "out": text}));
            continue;
        }
        seen.insert(key, id.clone());
        out.emit(&json!({"id": id, "mode": "equiv", "a": pa, "b": pb, "enva": enva, "envb": envb}));
        status.emit(&json!({"id": id, "status": "ok", "out": text}));
    }
    out.flush();
    status.flush();
    0
}
