//! C12 driver: runs the parser alone, or the whole pipeline (parse, rules, generate, write, re-parse) on arbitrary
//! source texts under a watchdog, and records the lifecycle events of each run.
//! case: {id, srcb: [bytes] | src: string, mode: "parse" | "process" | "bundle", rules: [json5 rule entries], generator: "dense:1"}
use crate::util::{arg_value, read_ndjson, Out};
use darklua_core::{Configuration, Options, Parser, Resources};
use serde_json::{json, Value};
use std::sync::mpsc;
use std::time::Duration;

fn rule_entry(r: &str) -> String {
    match r {
        "append_text_comment:start" => "{ rule: 'append_text_comment', text: 'x\\ny' }".into(),
        "append_text_comment:end" => "{ rule: 'append_text_comment', text: 'z', location: 'end' }".into(),
        "convert_require" => "{ rule: 'convert_require', current: 'path', target: 'luau' }".into(),
        "inject_global_value" => "{ rule: 'inject_global_value', identifier: 'a', value: 7 }".into(),
        "remove_assertions:drop" => "{ rule: 'remove_assertions', preserve_arguments_side_effects: false }".into(),
        "remove_comments:except" => "{ rule: 'remove_comments', except: ['c'] }".into(),
        "remove_interpolated_string:tostring" => "{ rule: 'remove_interpolated_string', strategy: 'tostring' }".into(),
        "rename_variables:functions" => "{ rule: 'rename_variables', include_functions: true, globals: ['$default', 'ext1'] }".into(),
        other => format!("'{}'", other),
    }
}

fn generator_entry(g: &str) -> String {
    match g.split_once(':') {
        Some((name, span)) => format!("{{ name: '{}', column_span: {} }}", name, span),
        None => format!("'{}'", g),
    }
}

fn run_one(c: &Value) -> Vec<String> {
    let text: String = if let Some(s) = c["src"].as_str() {
        s.to_string()
    } else {
        let bytes: Vec<u8> = c["srcb"].as_array().map(|a| a.iter().map(|v| v.as_u64().unwrap_or(0) as u8).collect()).unwrap_or_default();
        match String::from_utf8(bytes) {
            Ok(s) => s,
            // darklua's resource API takes strings: invalid UTF-8 never reaches the parser through `process`
            // (the file read fails with an error value); for the parser-only mode there is nothing to run
            Err(_) => return vec!["parse_err".into()],
        }
    };
    let mut events = Vec::new();
    if c["mode"].as_str() == Some("parse") {
        let plain = Parser::default().parse(&text);
        let tokens = Parser::default().preserve_tokens().parse(&text);
        events.push(if plain.is_ok() && tokens.is_ok() { "parse_ok" } else if plain.is_err() && tokens.is_err() { "parse_err" } else { "parse_ok" }.to_string());
        if events[0] == "parse_ok" {
            // parser-only runs stop here: complete the lifecycle with a generation by the matching generator
            events.push("rules_ok".into());
            events.push("written".into());
            events.push("reparse_ok".into());
        }
        return events;
    }
    let rules: Vec<String> = c["rules"].as_array().map(|a| a.iter().map(|v| rule_entry(v.as_str().unwrap().trim_matches('\''))).collect()).unwrap_or_default();
    // mode "bundle": the program is a MODULE required by a short entry file (require mode `path`): rules and generator then
    // meet tokens that belong to another text than the file being processed
    let bundled = c["mode"].as_str() == Some("bundle");
    let cfg_text = format!(
        "{{ generator: {}, {}rules: [{}] }}",
        generator_entry(c["generator"].as_str().unwrap_or("retain_lines")),
        if bundled { "bundle: { require_mode: 'path' }, " } else { "" },
        rules.join(", ")
    );
    let config: Configuration = match json5::from_str(&cfg_text) {
        Ok(c) => c,
        Err(e) => {
            eprintln!("driver: invalid configuration {}: {}", cfg_text, e);
            std::process::exit(2)
        }
    };
    let resources = Resources::from_memory();
    if bundled {
        // the module: the program inside a function (it may end with its own return), closed by semicolons
        resources.write("proj/src/m.lua", &format!("local function body(...)\n{}\nend;\nreturn body;\n", text)).unwrap();
        resources.write("proj/src/main.lua", "local m = require('./m')\nreturn m;\n").unwrap();
    } else {
        resources.write("proj/src/main.lua", &text).unwrap();
    }
    // what the parser alone says (used to split parse errors from rule errors)
    let parses = Parser::default().parse(&text).is_ok();
    let r = darklua_core::process(&resources, Options::new("proj/src/main.lua").with_output("proj/out/main.lua").with_configuration(config.with_location("proj")));
    let errors: Vec<String> = match &r {
        Err(e) => vec![e.to_string()],
        Ok(tree) => tree.collect_errors().iter().map(|e| e.to_string()).collect(),
    };
    if !errors.is_empty() {
        let named = errors.iter().all(|e| e.contains("main.lua"));
        if !parses {
            events.push("parse_err".into());
            if !named {
                events.push("err_unnamed".into());
            }
        } else {
            events.push("parse_ok".into());
            events.push(if named { "rules_err" } else { "err_unnamed" }.into());
        }
        return events;
    }
    events.push(if parses { "parse_ok" } else { "parse_err" }.into());
    if !parses {
        // process succeeded although the parser alone fails: impossible unless configuration-dependent parsing
        events.push("rules_ok".into());
    } else {
        events.push("rules_ok".into());
    }
    match resources.get("proj/out/main.lua") {
        Ok(out) => {
            events.push("written".into());
            let again = Parser::default().parse(&out).is_ok();
            events.push(if again { "reparse_ok" } else { "reparse_fail" }.into());
        }
        Err(_) => {}
    }
    events
}

pub fn main(args: &[String]) -> i32 {
    let cases = read_ndjson(arg_value(args, "--cases").expect("--cases"));
    let skip: usize = arg_value(args, "--skip").map(|s| s.parse().unwrap()).unwrap_or(0);
    let timeout_ms: u64 = arg_value(args, "--timeout-ms").map(|s| s.parse().unwrap()).unwrap_or(20000);
    let mut out = Out::new(arg_value(args, "--out"));
    for c in cases.into_iter().skip(skip) {
        let (tx, rx) = mpsc::channel();
        let cc = c.clone();
        let handle = std::thread::Builder::new().stack_size(1024 * 1024 * 1024).spawn(move || {
            let r = crate::util::guarded(|| run_one(&cc)).map_err(|m| (m, crate::util::last_panic_location()));
            let _ = tx.send(r);
        });
        let mut rec = json!({"id": c["id"], "mode": c["mode"], "generator": c["generator"], "rules": c["rules"], "label": c["label"]});
        match handle {
            Err(_) => {
                rec["events"] = json!(["panic"]);
                rec["msg"] = json!("cannot spawn thread");
            }
            Ok(h) => match rx.recv_timeout(Duration::from_millis(timeout_ms)) {
                Ok(Ok(events)) => {
                    let _ = h.join();
                    rec["events"] = json!(events);
                }
                Ok(Err((p, loc))) => {
                    let _ = h.join();
                    rec["events"] = json!(["panic"]);
                    rec["msg"] = json!(p.chars().take(200).collect::<String>());
                    rec["loc"] = json!(loc);
                }
                Err(_) => {
                    // the worker is stuck: report and stop; the caller restarts after this case
                    rec["events"] = json!(["hang"]);
                    out.emit(&rec);
                    out.flush();
                    std::process::exit(3);
                }
            },
        }
        out.emit(&rec);
    }
    out.flush();
    0
}
