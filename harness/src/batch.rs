//! C11 driver: renders every Batch case (spec/darklua/Batch.tla, enumerated by MC_Batch) into a REAL temporary
//! directory -- and, where the case allows, into `Resources::from_memory()` -- runs `darklua_core::process`
//! and records the complete tree before and after, the error list and which paths every error names.
//! Besides the main run it performs the reference runs the oracles need:
//!   again : a second `process` over the tree the first one left (only with a separate output location)
//!   rep   : a fresh tree whose files were created in REVERSE order, processed once
//!   ref   : the tree WITHOUT the faulty files (model: RefCase), processed once (FailureIsolation)
//! and, for the cases with per-directory context (`rc`: nested `.luaurc` files defining the same alias differently):
//!   orders: fresh trees on which the sources are REGISTERED IN AN EXPLICIT ORDER (`WorkerTree::add_source` in that
//!           order, then `WorkerTree::process`): every rotation of the forward and of the reverse order, so that every
//!           file is processed before every other file at least once (BatchTrace verifies that: OrdersCover)
//!   alone : per healthy file, the same tree without the other Lua files of the input, processed once
//!   ev    : what every output of the main run shows of the alias resolution (the remaining `require` strings split at
//!           `/`, the `alias_target` marks of inlined modules)
//! The observations are judged by spec/trace/BatchTrace.tla; nothing is decided here.
//!
//! Paths travel as arrays of file names; a name is percent-encoded outside printable ASCII (`%C3%A9.lua`).
use crate::util::{arg_value, guarded, read_ndjson, Out};
use darklua_core::{Configuration, Options, Resources, WorkerTree};
use serde_json::{json, Value};
use std::collections::BTreeSet;
use std::path::{Path, PathBuf};

// ---------------------------------------------------------------- names and contents

fn decode_name(s: &str) -> Vec<u8> {
    let b = s.as_bytes();
    let mut o = Vec::with_capacity(b.len());
    let mut i = 0;
    while i < b.len() {
        if b[i] == b'%' && i + 2 < b.len() {
            if let Ok(v) = u8::from_str_radix(&s[i + 1..i + 3], 16) {
                o.push(v);
                i += 3;
                continue;
            }
        }
        o.push(b[i]);
        i += 1;
    }
    o
}

fn encode_name(b: &[u8]) -> String {
    let mut o = String::new();
    for &c in b {
        if (0x20..0x7f).contains(&c) && c != b'%' {
            o.push(c as char);
        } else {
            o.push_str(&format!("%{:02X}", c));
        }
    }
    o
}

fn segs_of(v: &Value) -> Vec<String> {
    v.as_array().map(|a| a.iter().map(|s| s.as_str().unwrap_or("").to_string()).collect()).unwrap_or_default()
}

/// the real (decoded) relative path of a model path
fn real_path(segs: &[String]) -> String {
    segs.iter().map(|s| String::from_utf8(decode_name(s)).expect("names of the universe are UTF-8")).collect::<Vec<_>>().join("/")
}

fn fnv1a(bytes: &[u8]) -> String {
    let mut h: u64 = 0xcbf29ce484222325;
    for &b in bytes {
        h ^= b as u64;
        h = h.wrapping_mul(0x100000001b3);
    }
    format!("{:016x}", h)
}

/// How the texts of a case are written: `bundle`: bundling is configured, so healthy sources require the library modules
/// lib/m1..m3 (outside the input) to give the bundler work; `alias`: the configuration resolves aliases through `.luaurc`
/// files, so healthy sources require `@lib/m1`
#[derive(Clone, Copy)]
struct Flavor {
    bundle: bool,
    alias: bool,
}

/// `depth` = number of directories between the root of the tree and the file (in/a.lua: 1)
fn content(class: &str, path: &str, depth: usize, fl: Flavor) -> Vec<u8> {
    if let Some(id) = class.strip_prefix("ok:") {
        // spaces, a comment, foldable expressions, an unused local, an empty do, a dead loop: every configuration of
        // the universe rewrites this text
        let up = "../".repeat(depth);
        let (mut req, mut ret) = if fl.bundle {
            (
                format!(
                    "local m1 = require('{up}lib/m1')\nlocal m3 = require('{up}lib/m3')\nlocal m2 = require('{up}lib/m2')\n",
                    up = up
                ),
                " , m1 = m1 , m2 = m2 , m3 = m3".to_string(),
            )
        } else {
            (String::new(), String::new())
        };
        if fl.alias {
            req.push_str("local dep = require('@lib/m1')\n");
            ret.push_str(" , dep = dep");
        }
        return format!(
            "-- healthy source {id}\n{req}local  x  =  1  +  1 ;\nlocal unused = 'unused'\nlocal t = {{ value = x , [ 'key' ] = '{id}' }}\nlocal function  f ( a , b )\n    if a then return  a  +  x  end\n    return t [ 'key' ] .. tostring ( b )\nend\ndo end\nwhile false do f() end\nreturn  {{ name = '{id}' ,  f = f , t = t{ret} }}\n",
            id = id,
            req = req,
            ret = ret
        )
        .into_bytes();
    }
    // a .luaurc whose alias `lib` points to the directory <t> at the root of the tree, written relative to the .luaurc
    if let Some(t) = class.strip_prefix("rc:") {
        return format!("{{\n  \"aliases\": {{ \"lib\": \"{}{}\" }}\n}}\n", "../".repeat(depth), t).into_bytes();
    }
    // the module <t>/m1.lua says where it is
    if let Some(t) = class.strip_prefix("alias:") {
        return format!("return {{ alias_target = '{}' }}\n", t).into_bytes();
    }
    match class {
        // NOT `return return` (darklua accepts it)
        "syntax" => b"local function (\n".to_vec(),
        "utf8" => b"return '\xff\xfe'\n".to_vec(),
        "rule" => b"local m = require('./nope')\nreturn m\n".to_vec(),
        "text" => b"plain text, not Lua\n".to_vec(),
        "pre" => format!("PRE-EXISTING {}\n", path).into_bytes(),
        "lib:m1" => b"local m2 = require('./m2')\nreturn { n = 'm1' , m2 = m2 }\n".to_vec(),
        "lib:m2" => b"return { n = 'm2' , m3 = require('./m3') }\n".to_vec(),
        "lib:m3" => b"return { n = 'm3' }\n".to_vec(),
        other => panic!("unknown content class {}", other),
    }
}

pub fn is_rc(cfg: &str) -> bool {
    cfg == "luaurc" || cfg == "luaurcgap"
}

pub fn config_text(cfg: &str, bundle: bool) -> String {
    // aliases come from .luaurc files ONLY, and only in the configurations that say so
    let b = if !bundle {
        ""
    } else if is_rc(cfg) {
        ", bundle: { require_mode: { name: 'path', use_luau_configuration: true } }"
    } else if cfg == "aliasdup" {
        ", bundle: { require_mode: { name: 'path', use_luau_configuration: false, sources: { '@lib': 'libD' } } }"
    } else {
        ", bundle: { require_mode: { name: 'path', use_luau_configuration: false } }"
    };
    match cfg {
        "luaurc" | "luaurcgap" => format!(
            "{{ generator: 'dense', rules: [ {{ rule: 'convert_require', current: {{ name: 'luau', use_luau_configuration: true }}, target: {{ name: 'path' }} }} ]{} }}",
            b
        ),
        // two names for one directory in the target mode: whichever is written, every run writes the same one
        "aliasdup" => format!(
            "{{ generator: 'dense', rules: [ {{ rule: 'convert_require', current: {{ name: 'path', use_luau_configuration: false, sources: {{ '@lib': 'libD' }} }}, target: {{ name: 'path', use_luau_configuration: false, sources: {{ '@one': 'libD', '@two': 'libD', '@six': 'libD', '@ten': 'libD' }} }} }} ]{} }}",
            b
        ),
        "empty" => format!("{{ generator: 'dense', rules: []{} }}", b),
        "retain" => format!("{{ rules: []{} }}", b),
        "default" => format!("{{ generator: 'dense'{} }}", b),
        "rootskip" => format!("{{ generator: 'dense', skip_files: ['**/sub/**']{} }}", b),
        "rootapply" => format!("{{ generator: 'dense', apply_to_files: ['**/sub/**']{} }}", b),
        other => panic!("unknown configuration kind {}", other),
    }
}

// ---------------------------------------------------------------- trees

#[derive(Clone)]
struct Node {
    segs: Vec<String>,
    dir: bool,
    class: String,
}

fn nodes_of(v: &Value) -> Vec<Node> {
    let mut ns: Vec<Node> = v
        .as_array()
        .expect("tree")
        .iter()
        .map(|r| Node { segs: segs_of(&r["p"]), dir: r["k"] == "d", class: r["c"].as_str().unwrap_or("").to_string() })
        .collect();
    ns.sort_by(|a, b| a.segs.cmp(&b.segs));
    ns
}

fn check_lua_flag(n: &Node) {
    // the model's notion of "Lua file" is the name's real extension
    let name = real_path(&n.segs);
    let ext = Path::new(&name).extension().and_then(|e| e.to_str()).map(|e| e == "lua" || e == "luau").unwrap_or(false);
    let lua_class = n.class.starts_with("ok:")
        || n.class.starts_with("lib:")
        || n.class.starts_with("alias:")
        || n.class == "syntax"
        || n.class == "utf8"
        || n.class == "rule";
    if !n.dir && lua_class != ext && n.class != "pre" {
        eprintln!("renderer: content class {} does not fit the name {}", n.class, name);
        std::process::exit(2);
    }
}

fn render_fs(root: &Path, nodes: &[Node], reverse: bool, fl: Flavor) {
    let mut order: Vec<&Node> = nodes.iter().collect();
    if reverse {
        order.reverse();
    }
    for n in order {
        check_lua_flag(n);
        let rel = real_path(&n.segs);
        let p = root.join(&rel);
        if n.dir {
            std::fs::create_dir_all(&p).expect("mkdir");
        } else {
            if let Some(parent) = p.parent() {
                std::fs::create_dir_all(parent).expect("mkdir parent");
            }
            std::fs::write(&p, content(&n.class, &rel, n.segs.len() - 1, fl)).expect("write file");
        }
    }
}

fn list_fs(root: &Path) -> Vec<Value> {
    use std::os::unix::ffi::OsStrExt;
    fn walk(dir: &Path, prefix: &mut Vec<String>, out: &mut Vec<(Vec<String>, Value)>) {
        let mut entries: Vec<_> = std::fs::read_dir(dir).expect("read_dir").map(|e| e.expect("entry")).collect();
        entries.sort_by_key(|e| e.file_name());
        for e in entries {
            let name = encode_name(e.file_name().as_bytes());
            prefix.push(name);
            let md = std::fs::symlink_metadata(e.path()).expect("metadata");
            if md.is_dir() {
                out.push((prefix.clone(), json!({"s": prefix.clone(), "k": "d", "n": 0, "h": ""})));
                walk(&e.path(), prefix, out);
            } else if md.is_file() {
                let bytes = std::fs::read(e.path()).expect("read");
                out.push((prefix.clone(), json!({"s": prefix.clone(), "k": "f", "n": bytes.len(), "h": fnv1a(&bytes)})));
            } else {
                out.push((prefix.clone(), json!({"s": prefix.clone(), "k": "o", "n": 0, "h": ""})));
            }
            prefix.pop();
        }
    }
    let mut out = Vec::new();
    walk(root, &mut Vec::new(), &mut out);
    out.sort_by(|a, b| a.0.cmp(&b.0));
    out.into_iter().map(|x| x.1).collect()
}

fn render_mem(resources: &Resources, nodes: &[Node], reverse: bool, fl: Flavor) {
    let mut order: Vec<&Node> = nodes.iter().filter(|n| !n.dir).collect();
    if reverse {
        order.reverse();
    }
    for n in order {
        check_lua_flag(n);
        let rel = real_path(&n.segs);
        let text = String::from_utf8(content(&n.class, &rel, n.segs.len() - 1, fl)).expect("in-memory resources hold strings");
        resources.write(&rel, &text).expect("memory write");
    }
}

fn list_mem(resources: &Resources) -> Vec<Value> {
    let mut out: Vec<(Vec<String>, Value)> = Vec::new();
    for p in resources.walk("") {
        let segs: Vec<String> = p.components().map(|c| encode_name(c.as_os_str().to_string_lossy().as_bytes())).collect();
        let text = resources.get(&p).unwrap_or_default();
        out.push((segs.clone(), json!({"s": segs, "k": "f", "n": text.len(), "h": fnv1a(text.as_bytes())})));
    }
    out.sort_by(|a, b| a.0.cmp(&b.0));
    out.into_iter().map(|x| x.1).collect()
}

// ---------------------------------------------------------------- running darklua

struct Plan {
    input: String,
    output: Option<String>,
    cfg: String,
    bundle: bool,
    ff: bool,
}

impl Plan {
    fn flavor(&self) -> Flavor {
        Flavor { bundle: self.bundle, alias: is_rc(&self.cfg) || self.cfg == "aliasdup" }
    }
}

/// (source, destination or None in place): the sources of the case in the order they are to be registered
type Registration = Vec<(String, Option<String>)>;

struct RunOut {
    errors: Vec<String>,
    perr: String,
    panic: String,
}

/// One `darklua_core::process` on its own thread (generous stack; a fresh thread also means fresh hash seeds and an empty
/// thread-local .luaurc cache).  The current directory of the process must already be the root of the tree (file-system
/// world).  With `order` the work is not collected by darklua: the sources are registered one by one in that order
/// (`WorkerTree::add_source`), then `WorkerTree::process` runs -- the files are processed in registration order.
fn run_process(resources: Resources, plan: &Plan, order: Option<&Registration>) -> RunOut {
    let order: Option<Registration> = order.cloned();
    let input = plan.input.clone();
    let output = plan.output.clone();
    let cfg_text = config_text(&plan.cfg, plan.bundle);
    let ff = plan.ff;
    let handle = std::thread::Builder::new()
        .stack_size(256 * 1024 * 1024)
        .spawn(move || {
            let config: Configuration = match json5::from_str(&cfg_text) {
                Ok(c) => c,
                Err(e) => {
                    eprintln!("driver configuration rejected: {} ({})", cfg_text, e);
                    std::process::exit(2);
                }
            };
            // sources of a require mode are relative to the location of the configuration: the root of the tree
            let config = if cfg_text.contains("'@one'") { config.with_location("") } else { config };
            let mut options = Options::new(PathBuf::from(&input)).with_configuration(config);
            if let Some(o) = output {
                options = options.with_output(PathBuf::from(o));
            }
            if ff {
                options = options.fail_fast();
            }
            guarded(|| {
                let done = match order {
                    None => darklua_core::process(&resources, options),
                    Some(order) => {
                        let mut tree = WorkerTree::default();
                        for (src, dst) in order {
                            tree.add_source(&src, dst.map(PathBuf::from));
                        }
                        tree.process(&resources, options).map(|()| tree)
                    }
                };
                match done {
                    Ok(tree) => (tree.collect_errors().iter().map(|e| e.to_string()).collect::<Vec<_>>(), String::new()),
                    Err(e) => (Vec::new(), e.to_string()),
                }
            })
        })
        .expect("spawn");
    match handle.join() {
        Ok(Ok((errors, perr))) => RunOut { errors, perr, panic: String::new() },
        Ok(Err(p)) => RunOut { errors: Vec::new(), perr: String::new(), panic: if p.is_empty() { "panic".into() } else { p } },
        Err(_) => RunOut { errors: Vec::new(), perr: String::new(), panic: "panic (thread)".into() },
    }
}

fn pathish(c: char) -> bool {
    c.is_alphanumeric() || c == '/' || c == '_' || c == '-' || c == '%'
}

/// does `msg` name the path `cand` (as a whole path, not as a part of a longer one)?
fn names(msg: &str, cand: &str) -> bool {
    let mut from = 0;
    while let Some(off) = msg[from..].find(cand) {
        let a = from + off;
        let b = a + cand.len();
        let before: Vec<char> = msg[..a].chars().rev().take(3).collect();
        // a leading "./" is tolerated
        let before_ok = match before.as_slice() {
            [] => true,
            ['/', '.', rest @ ..] => rest.first().map(|c| !pathish(*c) && *c != '.').unwrap_or(true),
            [c, ..] => !pathish(*c) && *c != '.',
        };
        let mut after = msg[b..].chars();
        let after_ok = match after.next() {
            None => true,
            Some('.') => after.next().map(|c| !c.is_alphanumeric()).unwrap_or(true),
            Some(c) => !pathish(c),
        };
        if before_ok && after_ok {
            return true;
        }
        from = a + msg[a..].chars().next().map(|c| c.len_utf8()).unwrap_or(1);
    }
    false
}

fn run_record(ro: &RunOut, t0: &[Value], t1: &[Value], extra: &BTreeSet<Vec<String>>) -> Value {
    // candidate paths: everything of the tree before and after plus what the case descriptor mentions
    let mut cands: BTreeSet<Vec<String>> = extra.clone();
    for l in t0.iter().chain(t1.iter()) {
        cands.insert(segs_of(&l["s"]));
    }
    let mut msgs: Vec<String> = ro.errors.clone();
    if !ro.perr.is_empty() {
        msgs.push(ro.perr.clone());
    }
    let errs: Vec<Value> = msgs
        .iter()
        .map(|m| {
            let named: Vec<&Vec<String>> = cands.iter().filter(|c| !c.is_empty() && names(m, &real_path(c))).collect();
            json!({"msg": m.chars().take(400).collect::<String>(), "names": named})
        })
        .collect();
    json!({"ran": true, "t1": t1, "errs": errs, "perr": ro.perr, "panic": ro.panic})
}

fn not_run() -> Value {
    json!({"ran": false, "t1": [], "errs": [], "perr": "", "panic": ""})
}

fn tmp_root() -> tempfile::TempDir {
    let base = std::env::var("DLV_TMP").ok().or_else(|| if Path::new("/dev/shm").is_dir() { Some("/dev/shm".to_string()) } else { None });
    match base {
        Some(b) => tempfile::Builder::new().prefix("dlv-batch-").tempdir_in(b).expect("tempdir"),
        None => tempfile::Builder::new().prefix("dlv-batch-").tempdir().expect("tempdir"),
    }
}

struct World<'a> {
    plan: &'a Plan,
    extra: &'a BTreeSet<Vec<String>>,
}

/// what one rendered tree gave: the tree before, the first run, the second run over the same tree (if asked for) and
/// the evidence read from the probed outputs after the FIRST run
struct Ran {
    t0: Vec<Value>,
    first: Value,
    second: Value,
    ev: Vec<Value>,
}

/// the string arguments of the `require(...)` calls of a text, each split at `/`, and the `alias_target = '<t>'` marks
fn evidence_of(text: &str) -> (Vec<Vec<String>>, Vec<String>) {
    fn quoted_after<'t>(text: &'t str, from: usize) -> Option<&'t str> {
        let rest = text[from..].trim_start();
        let q = rest.chars().next()?;
        if q != '\'' && q != '"' {
            return None;
        }
        let body = &rest[1..];
        body.find(q).map(|end| &body[..end])
    }
    let mut reqs = Vec::new();
    let mut from = 0;
    while let Some(off) = text[from..].find("require") {
        let at = from + off + "require".len();
        // `require('x')`, `require 'x'`
        let rest = text[at..].trim_start();
        let rest = rest.strip_prefix('(').unwrap_or(rest);
        if let Some(s) = quoted_after(text, text.len() - rest.len()) {
            reqs.push(s.split('/').map(str::to_string).collect());
        }
        from = at;
    }
    let mut marks = Vec::new();
    from = 0;
    while let Some(off) = text[from..].find("alias_target") {
        let at = from + off + "alias_target".len();
        if let Some(r) = text[at..].trim_start().strip_prefix('=') {
            if let Some(s) = quoted_after(text, text.len() - r.len()) {
                marks.push(s.to_string());
            }
        }
        from = at;
    }
    (reqs, marks)
}

fn evidence_record(entry: usize, text: Option<String>) -> Option<Value> {
    let text = text?;
    let (reqs, marks) = evidence_of(&text);
    Some(json!({"e": entry, "reqs": reqs, "marks": marks}))
}

impl<'a> World<'a> {
    /// file-system world.  `order`: register the sources explicitly (see run_process); `probe`: (entry number, destination)
    /// of the outputs whose text is to be read after the first run
    fn fs(&self, nodes: &[Node], reverse: bool, again: bool, order: Option<&Registration>, probe: &[(usize, String)]) -> Ran {
        let dir = tmp_root();
        render_fs(dir.path(), nodes, reverse, self.plan.flavor());
        let t0 = list_fs(dir.path());
        std::env::set_current_dir(dir.path()).expect("chdir");
        let r1 = run_process(Resources::from_file_system(), self.plan, order);
        let t1 = list_fs(dir.path());
        let ev = probe
            .iter()
            .filter_map(|(e, dst)| {
                let p = dir.path().join(dst);
                evidence_record(*e, if p.is_file() { std::fs::read(&p).ok().map(|b| String::from_utf8_lossy(&b).into_owned()) } else { None })
            })
            .collect();
        let rec1 = run_record(&r1, &t0, &t1, self.extra);
        let rec2 = if again {
            let r2 = run_process(Resources::from_file_system(), self.plan, order);
            let t2 = list_fs(dir.path());
            run_record(&r2, &t1, &t2, self.extra)
        } else {
            not_run()
        };
        std::env::set_current_dir("/").expect("chdir back");
        drop(dir); // removes the directory
        Ran { t0, first: rec1, second: rec2, ev }
    }

    fn mem(&self, nodes: &[Node], reverse: bool, again: bool, order: Option<&Registration>, probe: &[(usize, String)]) -> Ran {
        let resources = Resources::from_memory();
        render_mem(&resources, nodes, reverse, self.plan.flavor());
        let t0 = list_mem(&resources);
        let r1 = run_process(resources.clone(), self.plan, order);
        let t1 = list_mem(&resources);
        let ev = probe.iter().filter_map(|(e, dst)| evidence_record(*e, resources.get(dst).ok())).collect();
        let rec1 = run_record(&r1, &t0, &t1, self.extra);
        let rec2 = if again {
            let r2 = run_process(resources.clone(), self.plan, order);
            let t2 = list_mem(&resources);
            run_record(&r2, &t1, &t2, self.extra)
        } else {
            not_run()
        };
        Ran { t0, first: rec1, second: rec2, ev }
    }
}

/// the orders in which k sources are registered: every rotation of 0..k and of its reverse (all six orders for k = 3)
fn orders_of(k: usize) -> Vec<Vec<usize>> {
    let mut out: Vec<Vec<usize>> = Vec::new();
    let fwd: Vec<usize> = (0..k).collect();
    let rev: Vec<usize> = (0..k).rev().collect();
    for base in [fwd, rev] {
        for r in 0..k.max(1) {
            let o: Vec<usize> = (0..k).map(|j| base[(j + r) % k]).collect();
            if !out.contains(&o) {
                out.push(o);
            }
        }
    }
    out
}

fn prefixes(segs: &[String], into: &mut BTreeSet<Vec<String>>) {
    for k in 1..=segs.len() {
        into.insert(segs[..k].to_vec());
    }
}

pub fn main(args: &[String]) -> i32 {
    let cases = read_ndjson(arg_value(args, "--cases").expect("--cases"));
    let mut out = Out::new(arg_value(args, "--out"));
    let only = arg_value(args, "--world"); // fs | mem (default: both)
    let home = std::env::current_dir().ok();
    for c in cases {
        let tree = nodes_of(&c["tree"]);
        let reftree = nodes_of(&c["reftree"]);
        let inplace = c["inplace"].as_bool().unwrap_or(false);
        let plan = Plan {
            input: real_path(&segs_of(&c["input"])),
            output: if c["hasout"].as_bool().unwrap_or(false) { Some(real_path(&segs_of(&c["output"]))) } else { None },
            cfg: c["cfg"].as_str().expect("cfg").to_string(),
            bundle: c["bundle"].as_bool().unwrap_or(false),
            ff: c["ff"].as_bool().unwrap_or(false),
        };
        let mut extra: BTreeSet<Vec<String>> = BTreeSet::new();
        for e in c["entries"].as_array().expect("entries") {
            prefixes(&segs_of(&e["src"]), &mut extra);
            prefixes(&segs_of(&e["dst"]), &mut extra);
        }
        let refrun = c["refrun"].as_bool().unwrap_or(false);
        // the Lua files the run has to process: (entry number, source, destination or None in place), in entry order
        let rc = c["rc"].as_bool().unwrap_or(false);
        if rc != is_rc(&plan.cfg) {
            eprintln!("driver: the case and the driver disagree on which configurations carry .luaurc files ({})", plan.cfg);
            return 2;
        }
        let mut work: Vec<(usize, String, Option<String>)> = Vec::new();
        let mut healthy: BTreeSet<usize> = BTreeSet::new();
        for (k, e) in c["entries"].as_array().expect("entries").iter().enumerate() {
            if e["work"].as_bool().unwrap_or(false) {
                let dst = real_path(&segs_of(&e["dst"]));
                work.push((k + 1, real_path(&segs_of(&e["src"])), if plan.output.is_some() { Some(dst) } else { None }));
                if e["healthy"].as_bool().unwrap_or(false) {
                    healthy.insert(k + 1);
                }
            }
        }
        let probe: Vec<(usize, String)> =
            if rc || plan.cfg == "aliasdup" { work.iter().map(|(e, src, dst)| (*e, dst.clone().unwrap_or_else(|| src.clone()))).collect() } else { Vec::new() };
        let w = World { plan: &plan, extra: &extra };
        let small = json!({"root": c["root"], "fi": c["fi"], "st": c["st"], "out": c["out"], "ff": c["ff"], "cfg": c["cfg"]});
        let mut worlds: Vec<&str> = vec!["fs"];
        if c["memok"].as_bool().unwrap_or(false) {
            worlds.push("mem");
        }
        for world in worlds {
            if only.map(|o| o != world).unwrap_or(false) {
                continue;
            }
            let run = |nodes: &[Node], reverse: bool, again: bool, order: Option<&Registration>, probe: &[(usize, String)]| {
                if world == "fs" {
                    w.fs(nodes, reverse, again, order, probe)
                } else {
                    w.mem(nodes, reverse, again, order, probe)
                }
            };
            let first = run(&tree, false, !inplace, None, &probe);
            let rep = run(&tree, true, false, None, &[]).first;
            let refr = if refrun { run(&reftree, false, false, None, &[]).first } else { not_run() };
            // per-directory context: explicit registration orders, every healthy file alone
            let mut orders: Vec<Value> = Vec::new();
            let mut alone: Vec<Value> = Vec::new();
            if rc {
                for ord in orders_of(work.len()) {
                    let reg: Registration = ord.iter().map(|&k| (work[k].1.clone(), work[k].2.clone())).collect();
                    let r = run(&tree, false, false, Some(&reg), &[]);
                    orders.push(json!({
                        "ord": ord.iter().map(|&k| work[k].0).collect::<Vec<_>>(),
                        "t1": r.first["t1"], "panic": r.first["panic"], "nerrs": r.first["errs"].as_array().map(|a| a.len()).unwrap_or(0),
                    }));
                }
                for &(e, ref src, _) in work.iter().filter(|x| healthy.contains(&x.0)) {
                    let others: BTreeSet<&String> = work.iter().filter(|x| x.0 != e).map(|x| &x.1).collect();
                    let nodes: Vec<Node> = tree.iter().filter(|n| !others.contains(&real_path(&n.segs))).cloned().collect();
                    debug_assert!(nodes.iter().any(|n| &real_path(&n.segs) == src));
                    let r = run(&nodes, false, false, None, &[]);
                    alone.push(json!({"e": e, "t0": r.t0, "t1": r.first["t1"], "panic": r.first["panic"]}));
                }
            }
            out.emit(&json!({
                "id": format!("{}/{}", c["id"].as_str().unwrap_or("?"), world),
                "cid": c["id"], "world": world, "case": small,
                "t0": first.t0, "main": first.first, "again": first.second, "rep": rep, "ref": refr,
                "orders": orders, "alone": alone, "ev": first.ev,
            }));
        }
    }
    if let Some(h) = home {
        let _ = std::env::set_current_dir(h);
    }
    out.flush();
    0
}
