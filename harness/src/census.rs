//! C07 driver: runs a rule pipeline on each case and records the census of Luau constructs (counted by the
//! independent parser) of input and output, and whether the output is accepted by the strict Lua 5.1 grammar.
//! case: {id, src, rules, generator, targets: [construct names], all_rules: bool, bundled: bool (the text is a required module)}
use crate::text::run_text_opt;
use crate::util::{arg_value, read_ndjson, Out};
use luaparse::{Census, Dialect};
use serde_json::{json, Value};

fn census_json(c: &Census) -> Value {
    json!({"compound_assign": c.compound_assign, "continue_stmt": c.continue_stmt, "if_expression": c.if_expression,
           "interpolated_string": c.interpolated_string, "floor_division": c.floor_division, "luau_number": c.luau_number,
           "const_decl": c.const_decl, "type_syntax": c.type_syntax, "attributes": c.attributes})
}

pub fn main(args: &[String]) -> i32 {
    let cases = read_ndjson(arg_value(args, "--cases").expect("--cases"));
    let mut out = Out::new(arg_value(args, "--out"));
    for c in cases {
        let src = c["src"].as_str().expect("src");
        let rules = c["rules"].as_str().unwrap_or("[]");
        let generator = match c["generator"].as_str() {
            Some(g) if g.starts_with('{') => g.to_string(),
            Some(g) => format!("'{}'", g),
            None => "'retain_lines'".to_string(),
        };
        let mut obs = c.clone();
        let zero = census_json(&Census::default());
        match luaparse::census(src.as_bytes(), Dialect::Luau) {
            Ok((_, ci)) => obs["census_in"] = census_json(&ci),
            Err(e) => {
                obs["census_in"] = zero.clone();
                obs["census_out"] = zero.clone();
                obs["status"] = json!(format!("input-rejected-by-reference-parser: {:?}", e));
                obs["out_parses"] = json!(false);
                obs["strict51"] = json!(false);
                obs["out"] = json!("");
                out.emit(&obs);
                continue;
            }
        }
        let bundled = c["bundled"].as_bool().unwrap_or(false);
        match run_text_opt(src, rules, &generator, bundled) {
            Ok(text) => {
                obs["status"] = json!("ok");
                match luaparse::census(text.as_bytes(), Dialect::Luau) {
                    Ok((_, co)) => {
                        obs["census_out"] = census_json(&co);
                        obs["out_parses"] = json!(true);
                    }
                    Err(e) => {
                        obs["census_out"] = zero.clone();
                        obs["out_parses"] = json!(false);
                        obs["status"] = json!(format!("ok-but-output-rejected-by-reference-parser: {:?}", e));
                    }
                }
                obs["strict51"] = json!(luaparse::parse(text.as_bytes(), Dialect::Lua51).is_ok());
                obs["out"] = json!(text);
            }
            Err(e) => {
                obs["census_out"] = zero.clone();
                obs["status"] = json!(e);
                obs["out_parses"] = json!(false);
                obs["strict51"] = json!(false);
                obs["out"] = json!("");
            }
        }
        out.emit(&obs);
    }
    out.flush();
    0
}
