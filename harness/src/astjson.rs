//! astjson — the *second* producer of the flat node table of `/verif/spec/lua/NODEFORMAT.md`:
//! a flattener from darklua's in-memory AST (`darklua_core::nodes::Block`) to `luaparse::Program`,
//! a structural comparison of two programs, and the `dlv astcheck` / `dlv astjson` subcommands
//! that confront darklua's parser (full_moon + `ast_converter`) with the independent reference
//! parser `luaparse`.
//!
//! # Conventions (identical to luaparse's; pinned down by comparing outputs)
//!
//! * Children are emitted before their parent (post-order), the root `block` is the last node.
//!   Node *ids* are not comparable between producers; [`same_structure`] walks from the roots.
//! * `block.l` = statements, then the last statement (`ret` / `break` / `continue`) if any.
//! * `funcstmt`: `ns` = `[name, field1, field2, ...]`, `s` = method name or `""`; the `fn` node's
//!   `ns` never contains the implicit `self`.
//! * `if`: `l = [cond1, block1, cond2, block2, ...]`, `c` = else block or 0.
//! * `ifexp`: `elseif` branches become nested `ifexp` nodes in `c` (right fold).
//! * Calls: `Arguments::String` / `Arguments::Table` become a one-element `l`; a call with a
//!   method is `mcall` (the `<<T>>` instantiation of a method is dropped, as in luaparse).
//! * `num`: value = `NumberExpression::compute_value()`; `s` = the token text when the number
//!   node still owns a token whose text is available (tokens that reference the source need the
//!   source: use [`flatten_with_source`]), otherwise `""`.
//! * `str` / `istr` / names: raw bytes (`get_value()`); identifiers are the UTF-8 bytes of the name.
//! * `interp`: empty literal segments are dropped (luaparse's default).
//! * `local.c` / `localfn.c` = 1 for `AssignmentKind::Const`.
//! * `TypeDeclaration` and `TypeFunction` statements become a field-less `typedecl`.
//! * `TypeCast` ⇒ `cast` (type dropped), `TypeInstantiation` ⇒ `tinst` (types dropped).
//! * Attributes, type annotations, generics, return types and all trivia are dropped.
//!
//! `flatten_expression(e)` wraps the expression as `block[ ret[ e ] ]` (the root must be a block).

use darklua_core::nodes::*;
use luaparse::{Dialect, Node, Program};

// ------------------------------------------------------------------------------------------
// flattener

struct Flat<'a> {
    nodes: Vec<Node>,
    code: Option<&'a str>,
}

/// Text of a token. `Position::Any` / `Position::LineNumber` carry their content; a
/// `LineNumberReference` needs the source text. `Token` exposes no non-panicking reader and no
/// position accessor, so the variant is recognised through its `Debug` output.
fn token_text(token: &Token, code: Option<&str>) -> Option<String> {
    let dbg = format!("{:?}", token);
    let prefix = "Token { position: LineNumberReference { start: ";
    if let Some(rest) = dbg.strip_prefix(prefix) {
        let code = code?;
        let start: usize = rest.split(',').next()?.trim().parse().ok()?;
        let after = rest.split("end: ").nth(1)?;
        let end: usize = after.split(|c: char| !c.is_ascii_digit()).next()?.parse().ok()?;
        return code.get(start..end).map(|s| s.to_string());
    }
    Some(token.read("").to_string())
}

impl<'a> Flat<'a> {
    fn add(&mut self, n: Node) -> usize {
        self.nodes.push(n);
        self.nodes.len()
    }

    fn leaf(&mut self, k: &str) -> usize {
        self.add(Node::new(k))
    }

    fn name(id: &Identifier) -> Vec<u8> {
        id.get_name().as_bytes().to_vec()
    }

    fn typed_names(ids: &[TypedIdentifier]) -> Vec<Vec<u8>> {
        ids.iter().map(|t| Self::name(t.get_identifier())).collect()
    }

    // ---------------------------------------------------------------- blocks and statements

    fn block(&mut self, b: &Block) -> usize {
        let mut l = Vec::new();
        for s in b.iter_statements() {
            l.push(self.statement(s));
        }
        if let Some(last) = b.get_last_statement() {
            l.push(self.last_statement(last));
        }
        let mut n = Node::new("block");
        n.l = l;
        self.add(n)
    }

    fn last_statement(&mut self, s: &LastStatement) -> usize {
        match s {
            LastStatement::Break(_) => self.leaf("break"),
            LastStatement::Continue(_) => self.leaf("continue"),
            LastStatement::Return(r) => {
                let mut n = Node::new("ret");
                n.l = r.iter_expressions().map(|e| self.expr(e)).collect();
                self.add(n)
            }
        }
    }

    fn func(&mut self, params: &[TypedIdentifier], variadic: bool, body: &Block) -> usize {
        let mut n = Node::new("fn");
        n.ns = Self::typed_names(params);
        n.c = variadic as usize;
        n.b = self.block(body);
        self.add(n)
    }

    fn statement(&mut self, s: &Statement) -> usize {
        match s {
            Statement::Assign(a) => {
                let mut n = Node::new("assign");
                n.l = a.iter_variables().map(|v| self.variable(v)).collect();
                n.m = a.iter_values().map(|e| self.expr(e)).collect();
                self.add(n)
            }
            Statement::Do(d) => {
                let mut n = Node::new("do");
                n.a = self.block(d.get_block());
                self.add(n)
            }
            Statement::Call(c) => {
                let mut n = Node::new("callstmt");
                n.a = self.call(c);
                self.add(n)
            }
            Statement::CompoundAssign(c) => {
                let mut n = Node::new("compound");
                let op = match c.get_operator() {
                    CompoundOperator::Plus => "+",
                    CompoundOperator::Minus => "-",
                    CompoundOperator::Asterisk => "*",
                    CompoundOperator::Slash => "/",
                    CompoundOperator::DoubleSlash => "//",
                    CompoundOperator::Percent => "%",
                    CompoundOperator::Caret => "^",
                    CompoundOperator::Concat => "..",
                };
                n.s = op.as_bytes().to_vec();
                n.a = self.variable(c.get_variable());
                n.b = self.expr(c.get_value());
                self.add(n)
            }
            Statement::Function(f) => {
                let mut n = Node::new("funcstmt");
                let name = f.get_name();
                n.ns.push(Self::name(name.get_name()));
                for field in name.get_field_names() {
                    n.ns.push(Self::name(field));
                }
                if let Some(m) = name.get_method() {
                    n.s = Self::name(m);
                }
                n.a = self.func(f.get_parameters(), f.is_variadic(), f.get_block());
                self.add(n)
            }
            Statement::GenericFor(g) => {
                let mut n = Node::new("genfor");
                n.ns = Self::typed_names(g.get_identifiers());
                n.l = g.iter_expressions().map(|e| self.expr(e)).collect();
                n.b = self.block(g.get_block());
                self.add(n)
            }
            Statement::If(i) => {
                let mut n = Node::new("if");
                for br in i.iter_branches() {
                    let c = self.expr(br.get_condition());
                    let b = self.block(br.get_block());
                    n.l.push(c);
                    n.l.push(b);
                }
                if let Some(e) = i.get_else_block() {
                    n.c = self.block(e);
                }
                self.add(n)
            }
            Statement::LocalAssign(l) => {
                let mut n = Node::new("local");
                n.ns = Self::typed_names(l.get_variables());
                n.l = l.iter_values().map(|e| self.expr(e)).collect();
                n.c = matches!(l.get_assignment_kind(), AssignmentKind::Const) as usize;
                self.add(n)
            }
            Statement::LocalFunction(f) => {
                let mut n = Node::new("localfn");
                n.s = Self::name(f.get_identifier());
                n.c = matches!(f.get_assignment_kind(), AssignmentKind::Const) as usize;
                n.a = self.func(f.get_parameters(), f.is_variadic(), f.get_block());
                self.add(n)
            }
            Statement::NumericFor(f) => {
                let mut n = Node::new("numfor");
                n.s = Self::name(f.get_identifier().get_identifier());
                n.l.push(self.expr(f.get_start()));
                n.l.push(self.expr(f.get_end()));
                if let Some(step) = f.get_step() {
                    n.l.push(self.expr(step));
                }
                n.b = self.block(f.get_block());
                self.add(n)
            }
            Statement::Repeat(r) => {
                let mut n = Node::new("repeat");
                n.a = self.block(r.get_block());
                n.b = self.expr(r.get_condition());
                self.add(n)
            }
            Statement::While(w) => {
                let mut n = Node::new("while");
                n.a = self.expr(w.get_condition());
                n.b = self.block(w.get_block());
                self.add(n)
            }
            Statement::TypeDeclaration(_) => self.leaf("typedecl"),
            Statement::TypeFunction(_) => self.leaf("typedecl"),
        }
    }

    fn variable(&mut self, v: &Variable) -> usize {
        match v {
            Variable::Identifier(i) => self.ident(i),
            Variable::Field(f) => self.field(f),
            Variable::Index(i) => self.index(i),
        }
    }

    // ---------------------------------------------------------------- expressions

    fn ident(&mut self, i: &Identifier) -> usize {
        let mut n = Node::new("var");
        n.s = Self::name(i);
        self.add(n)
    }

    fn field(&mut self, f: &FieldExpression) -> usize {
        let mut n = Node::new("field");
        n.a = self.prefix(f.get_prefix());
        n.s = Self::name(f.get_field());
        self.add(n)
    }

    fn index(&mut self, i: &IndexExpression) -> usize {
        let mut n = Node::new("index");
        n.a = self.prefix(i.get_prefix());
        n.b = self.expr(i.get_index());
        self.add(n)
    }

    fn paren(&mut self, p: &ParentheseExpression) -> usize {
        let mut n = Node::new("paren");
        n.a = self.expr(p.inner_expression());
        self.add(n)
    }

    fn tinst(&mut self, t: &TypeInstantiationExpression) -> usize {
        let mut n = Node::new("tinst");
        n.a = self.prefix(t.get_prefix());
        self.add(n)
    }

    fn prefix(&mut self, p: &Prefix) -> usize {
        match p {
            Prefix::Call(c) => self.call(c),
            Prefix::Field(f) => self.field(f),
            Prefix::Identifier(i) => self.ident(i),
            Prefix::Index(i) => self.index(i),
            Prefix::Parenthese(p) => self.paren(p),
            Prefix::TypeInstantiation(t) => self.tinst(t),
        }
    }

    fn string(&mut self, s: &StringExpression) -> usize {
        let mut n = Node::new("str");
        n.s = s.get_value().to_vec();
        self.add(n)
    }

    fn table(&mut self, t: &TableExpression) -> usize {
        let mut n = Node::new("table");
        for e in t.iter_entries() {
            let id = match e {
                TableEntry::Field(f) => {
                    let mut e = Node::new("tnamed");
                    e.s = Self::name(f.get_field());
                    e.a = self.expr(f.get_value());
                    self.add(e)
                }
                TableEntry::Index(i) => {
                    let mut e = Node::new("tkey");
                    e.a = self.expr(i.get_key());
                    e.b = self.expr(i.get_value());
                    self.add(e)
                }
                TableEntry::Value(v) => {
                    let mut e = Node::new("tpos");
                    e.a = self.expr(v);
                    self.add(e)
                }
            };
            n.l.push(id);
        }
        self.add(n)
    }

    fn call(&mut self, c: &FunctionCall) -> usize {
        let callee = self.prefix(c.get_prefix());
        let args: Vec<usize> = match c.get_arguments() {
            Arguments::Tuple(t) => t.iter_values().map(|e| self.expr(e)).collect(),
            Arguments::String(s) => vec![self.string(s)],
            Arguments::Table(t) => vec![self.table(t)],
        };
        let mut n = match c.get_method() {
            Some(m) => {
                let mut n = Node::new("mcall");
                n.s = Self::name(m);
                n
            }
            None => Node::new("call"),
        };
        n.a = callee;
        n.l = args;
        self.add(n)
    }

    fn number(&mut self, num: &NumberExpression) -> usize {
        let mut n = Node::new("num");
        n.num = num.compute_value();
        if let Some(t) = num.get_token() {
            if let Some(text) = token_text(t, self.code) {
                n.s = text.into_bytes();
            }
        }
        self.add(n)
    }

    fn expr(&mut self, e: &Expression) -> usize {
        match e {
            Expression::Binary(b) => {
                let l = self.expr(b.left());
                let r = self.expr(b.right());
                let mut n = match b.operator() {
                    BinaryOperator::And => Node::new("and"),
                    BinaryOperator::Or => Node::new("or"),
                    op => {
                        let s = match op {
                            BinaryOperator::Equal => "==",
                            BinaryOperator::NotEqual => "~=",
                            BinaryOperator::LowerThan => "<",
                            BinaryOperator::LowerOrEqualThan => "<=",
                            BinaryOperator::GreaterThan => ">",
                            BinaryOperator::GreaterOrEqualThan => ">=",
                            BinaryOperator::Plus => "+",
                            BinaryOperator::Minus => "-",
                            BinaryOperator::Asterisk => "*",
                            BinaryOperator::Slash => "/",
                            BinaryOperator::DoubleSlash => "//",
                            BinaryOperator::Percent => "%",
                            BinaryOperator::Caret => "^",
                            BinaryOperator::Concat => "..",
                            BinaryOperator::And | BinaryOperator::Or => unreachable!(),
                        };
                        let mut n = Node::new("bin");
                        n.s = s.as_bytes().to_vec();
                        n
                    }
                };
                n.a = l;
                n.b = r;
                self.add(n)
            }
            Expression::Call(c) => self.call(c),
            Expression::False(_) => self.leaf("false"),
            Expression::True(_) => self.leaf("true"),
            Expression::Nil(_) => self.leaf("nil"),
            Expression::VariableArguments(_) => self.leaf("vararg"),
            Expression::Field(f) => self.field(f),
            Expression::Function(f) => self.func(f.get_parameters(), f.is_variadic(), f.get_block()),
            Expression::Identifier(i) => self.ident(i),
            Expression::If(i) => {
                let cond = self.expr(i.get_condition());
                let then = self.expr(i.get_result());
                let mut arms: Vec<(usize, usize)> = vec![(cond, then)];
                for br in i.iter_branches() {
                    let c = self.expr(br.get_condition());
                    let v = self.expr(br.get_result());
                    arms.push((c, v));
                }
                let mut acc = self.expr(i.get_else_result());
                while let Some((c, v)) = arms.pop() {
                    let mut n = Node::new("ifexp");
                    n.a = c;
                    n.b = v;
                    n.c = acc;
                    acc = self.add(n);
                }
                acc
            }
            Expression::Index(i) => self.index(i),
            Expression::Number(n) => self.number(n),
            Expression::Parenthese(p) => self.paren(p),
            Expression::String(s) => self.string(s),
            Expression::InterpolatedString(s) => {
                let mut n = Node::new("interp");
                for seg in s.iter_segments() {
                    match seg {
                        InterpolationSegment::String(s) => {
                            if !s.get_value().is_empty() {
                                let mut e = Node::new("istr");
                                e.s = s.get_value().to_vec();
                                let id = self.add(e);
                                n.l.push(id);
                            }
                        }
                        InterpolationSegment::Value(v) => {
                            let mut e = Node::new("ival");
                            e.a = self.expr(v.get_expression());
                            let id = self.add(e);
                            n.l.push(id);
                        }
                    }
                }
                self.add(n)
            }
            Expression::Table(t) => self.table(t),
            Expression::Unary(u) => {
                let a = self.expr(u.get_expression());
                let mut n = Node::new(match u.operator() {
                    UnaryOperator::Length => "len",
                    UnaryOperator::Minus => "neg",
                    UnaryOperator::Not => "not",
                });
                n.a = a;
                self.add(n)
            }
            Expression::TypeCast(c) => {
                let mut n = Node::new("cast");
                n.a = self.expr(c.get_expression());
                self.add(n)
            }
            Expression::TypeInstantiation(t) => self.tinst(t),
        }
    }
}

/// Flattens a darklua block. Number spellings (`num.s`) are only available for tokens that carry
/// their own content; tokens referencing the source give `""` (see [`flatten_with_source`]).
pub fn flatten(block: &Block) -> Program {
    flatten_with_source(block, None)
}

/// Like [`flatten`]; `code` is the text the block was parsed from (needed to read the tokens
/// produced by `Parser::preserve_tokens`, which reference byte ranges of the source).
pub fn flatten_with_source(block: &Block, code: Option<&str>) -> Program {
    let mut f = Flat { nodes: Vec::new(), code };
    let root = f.block(block);
    Program { root, nodes: f.nodes }
}

/// Flattens one expression. The root is `block[ ret[ <expression> ] ]` (the format requires the
/// root to be a block): the expression is `nodes[nodes[root].l[0]].l[0]`.
#[allow(dead_code)]
pub fn flatten_expression(e: &Expression) -> Program {
    let mut f = Flat { nodes: Vec::new(), code: None };
    let id = f.expr(e);
    let mut ret = Node::new("ret");
    ret.l = vec![id];
    let ret = f.add(ret);
    let mut b = Node::new("block");
    b.l = vec![ret];
    let root = f.add(b);
    Program { root, nodes: f.nodes }
}

// ------------------------------------------------------------------------------------------
// structural comparison

#[derive(Debug, Clone, Copy, Default, PartialEq, Eq)]
pub struct CompareOptions {
    /// ignore `num.s`
    pub ignore_num_spelling: bool,
    /// skip `paren` nodes whose inner expression is not `call` / `mcall` / `vararg` (both sides)
    pub transparent_parens: bool,
    /// ignore `local.c` / `localfn.c`
    pub ignore_const: bool,
}

fn show_bytes(b: &[u8]) -> String {
    let mut s = String::from("\"");
    for &c in b.iter().take(60) {
        if (0x20..0x7f).contains(&c) && c != b'"' && c != b'\\' {
            s.push(c as char);
        } else {
            s.push_str(&format!("\\x{:02x}", c));
        }
    }
    if b.len() > 60 {
        s.push_str("...");
    }
    s.push('"');
    s
}

fn canonical_bits(x: f64) -> u64 {
    if x.is_nan() {
        0x7ff8_0000_0000_0000
    } else {
        x.to_bits()
    }
}

struct Cmp<'a> {
    a: &'a Program,
    b: &'a Program,
    o: CompareOptions,
}

impl<'a> Cmp<'a> {
    fn resolve(&self, p: &Program, mut id: usize) -> usize {
        if !self.o.transparent_parens {
            return id;
        }
        loop {
            match p.node(id) {
                Some(n) if n.k == "paren" => match p.node(n.a) {
                    Some(inner) if matches!(inner.k.as_str(), "call" | "mcall" | "vararg") => return id,
                    Some(_) => id = n.a,
                    None => return id,
                },
                _ => return id,
            }
        }
    }

    fn list(&self, name: &str, la: &[usize], lb: &[usize], path: &str) -> Result<(), String> {
        if la.len() != lb.len() {
            return Err(format!("{}.{}: length {} vs {}", path, name, la.len(), lb.len()));
        }
        for (i, (&x, &y)) in la.iter().zip(lb.iter()).enumerate() {
            self.node(x, y, &format!("{}.{}[{}]", path, name, i + 1))?;
        }
        Ok(())
    }

    fn node(&self, ia: usize, ib: usize, path: &str) -> Result<(), String> {
        let ia = self.resolve(self.a, ia);
        let ib = self.resolve(self.b, ib);
        if ia == 0 || ib == 0 {
            return if ia == 0 && ib == 0 {
                Ok(())
            } else {
                let k = |p: &Program, i: usize| p.node(i).map_or("<none>".to_string(), |n| n.k.clone());
                Err(format!("{}: child {} vs {}", path, k(self.a, ia), k(self.b, ib)))
            };
        }
        let (na, nb) = match (self.a.node(ia), self.b.node(ib)) {
            (Some(x), Some(y)) => (x, y),
            _ => return Err(format!("{}: dangling node id {} / {}", path, ia, ib)),
        };
        if na.k != nb.k {
            return Err(format!("{}: kind {} vs {}", path, na.k, nb.k));
        }
        let k = na.k.as_str();
        let skip_s = k == "num" && self.o.ignore_num_spelling;
        if !skip_s && na.s != nb.s {
            return Err(format!("{}: {}.s {} vs {}", path, k, show_bytes(&na.s), show_bytes(&nb.s)));
        }
        if k == "num" && canonical_bits(na.num) != canonical_bits(nb.num) {
            return Err(format!(
                "{}: num value {:?} (0x{:016x}) vs {:?} (0x{:016x}) [spelling {} / {}]",
                path,
                na.num,
                canonical_bits(na.num),
                nb.num,
                canonical_bits(nb.num),
                show_bytes(&na.s),
                show_bytes(&nb.s)
            ));
        }
        if na.ns != nb.ns {
            let f = |v: &Vec<Vec<u8>>| v.iter().map(|x| show_bytes(x)).collect::<Vec<_>>().join(",");
            return Err(format!("{}: {}.ns [{}] vs [{}]", path, k, f(&na.ns), f(&nb.ns)));
        }
        // `c` is a flag for fn/local/localfn and a child for if/ifexp
        match k {
            "fn" => {
                if na.c != nb.c {
                    return Err(format!("{}: fn variadic flag {} vs {}", path, na.c, nb.c));
                }
            }
            "local" | "localfn" => {
                if !self.o.ignore_const && na.c != nb.c {
                    return Err(format!("{}: {} const flag {} vs {}", path, k, na.c, nb.c));
                }
            }
            _ => self.node(na.c, nb.c, &format!("{}.c", path))?,
        }
        self.node(na.a, nb.a, &format!("{}.a", path))?;
        self.node(na.b, nb.b, &format!("{}.b", path))?;
        self.list("l", &na.l, &nb.l, path)?;
        self.list("m", &na.m, &nb.m, path)?;
        Ok(())
    }
}

/// Compares two programs structurally from their roots (node ids are irrelevant): kinds,
/// strings, name lists, flags and children recursively; numbers by f64 bit pattern (all NaNs
/// equal; `0` and `-0` differ). The error names the path to the first difference, e.g.
/// `root.l[3].a.b: kind bin vs call`; list indices in paths are 1-based like the node ids.
pub fn same_structure(a: &Program, b: &Program, opts: CompareOptions) -> Result<(), String> {
    Cmp { a, b, o: opts }.node(a.root, b.root, "root")
}

// ------------------------------------------------------------------------------------------
// subcommands

fn collect_files(dir: &std::path::Path, out: &mut Vec<String>) {
    let mut entries: Vec<_> = match std::fs::read_dir(dir) {
        Ok(rd) => rd.filter_map(|e| e.ok()).map(|e| e.path()).collect(),
        Err(_) => return,
    };
    entries.sort();
    for p in entries {
        if p.is_dir() {
            collect_files(&p, out);
        } else if matches!(p.extension().and_then(|e| e.to_str()), Some("lua") | Some("luau")) {
            out.push(p.to_string_lossy().to_string());
        }
    }
}

fn one_line(s: &str) -> String {
    let t: String = s.split_whitespace().collect::<Vec<_>>().join(" ");
    if t.len() > 300 {
        format!("{}...", t.chars().take(300).collect::<String>())
    } else {
        t
    }
}

/// Outcome of one file. The `Option<&'static str>` of the two mismatch variants is the
/// identifier of a *known, reported* class of disagreement (see [`KNOWN_CLASSES`]) recognised by
/// [`classify_accept`] / [`classify_tree`]; `None` = unexplained. A class never turns a
/// mismatch into an agreement: it only labels the printed line.
#[derive(Debug, Clone, PartialEq, Eq)]
pub enum Outcome {
    Same,
    BothReject,
    MismatchAccept(String, Option<&'static str>),
    MismatchTree(String, Option<&'static str>),
}

/// Known classes of disagreement between darklua's parser and the reference grammar. Every one
/// is a property of darklua / full_moon (category (c) of the task), none is hidden.
pub const KNOWN_CLASSES: &[(&str, &str)] = &[
    ("K-CTX", "darklua accepts `break`/`continue` outside a loop or `...` outside a vararg function (both reference parsers reject); with these two context checks disabled the trees are identical"),
    ("K-TRAILING-DROPPED", "darklua accepts text after a top-level `return` / `break` / `continue` and silently drops it: its tree equals the reference parse of the text that precedes the reference error"),
    ("K-NOTFOUND-SWALLOWED", "full_moon drops a construct whose type / if-expression operand / `<<` type list / `typeof(` argument is missing without recording an error (`type A =`, `{if`, `f<<`, `function f():`); darklua accepts and the unfinished construct (sometimes the rest of the chunk) disappears"),
    ("K-NUMSUFFIX", "darklua accepts a number immediately followed by name characters (`1and 2`, `2do`, `1local`); both reference lexers report a malformed number"),
    ("K-EMPTY-U-ESCAPE", "darklua accepts `\\u{}` (value NUL); Luau and Lua 5.3+ reject it"),
    ("K-ATTR-SPACE", "darklua accepts `@ name` (space after `@`); Luau lexes `@name` as one token and reports a missing attribute name"),
    ("K-SHEBANG", "darklua accepts a `#!` first line (neither reference lexer does; it is stripped by the stand-alone interpreters), and `Parser::preserve_tokens` fails on it: `unable to convert trivia from token kind Shebang`"),
    ("K-INT-OVERFLOW", "darklua rejects hexadecimal / binary literals >= 2^64; Luau accepts them (value saturates to 2^64)"),
    ("K-NUM-UNDERSCORE-EXP", "darklua rejects `_` right after the exponent marker or sign (`1e_10`, `2e-_1__`); Luau strips underscores before conversion and accepts"),
    ("K-SURROGATE-PANIC", "darklua PANICS (`unable to convert u32 to char`) on `\\u{D800}`..`\\u{DFFF}`; Luau accepts surrogates"),
    ("K-ATTR-BRACKET", "darklua rejects the `@[name ...]` attribute syntax of current Luau"),
    ("K-Z-NEWLINE", "darklua rejects `\\z` followed by a line break (`unclosed string`); Luau and Lua 5.2+ skip all whitespace including newlines"),
    ("K-VT-FF", "darklua rejects vertical tab / form feed as whitespace; Lua 5.1 (`isspace`) and Luau accept them"),
    ("K-TINST-PACK", "darklua rejects a type pack in an explicit instantiation `f<<(string, number)>>()` that full_moon parsed (`unable to convert type`)"),
    ("K-NONUTF8", "input is not UTF-8: darklua's API takes `&str`; Lua source is a byte string"),
    ("K-CR-IN-STRING", "darklua keeps CR / CRLF inside string literals as written; the reference lexers normalise a line break after `\\`, the first line break of a long string and (Lua 5.1: all, Luau: CRLF) line breaks inside long strings to LF"),
    ("K-CR-COMMENT", "darklua does not end a `--` comment at a lone CR (both reference lexers do): code on the following CR-terminated line is swallowed by the comment"),
];

fn darklua_parse(text: &str, preserve: bool) -> Result<Block, String> {
    let parser = if preserve {
        darklua_core::Parser::default().preserve_tokens()
    } else {
        darklua_core::Parser::default()
    };
    match crate::util::guarded(|| parser.parse(text)) {
        Ok(Ok(b)) => Ok(b),
        Ok(Err(e)) => Err(one_line(&e.to_string())),
        Err(p) => Err(format!("PANIC: {}", one_line(&p))),
    }
}

/// Texts of the (up to) two tokens that precede byte `offset` (reference lexer), nearest last.
fn tokens_before(bytes: &[u8], dialect: Dialect, offset: usize) -> Vec<Vec<u8>> {
    let toks = match luaparse::lex(bytes, dialect) {
        Ok((t, _)) => t,
        Err(_) => return Vec::new(),
    };
    let before: Vec<&luaparse::Token> =
        toks.iter().filter(|t| t.end <= offset && t.kind != luaparse::TokKind::Eof).collect();
    before.iter().rev().take(2).rev().map(|t| t.text.clone()).collect()
}

/// darklua accepts (tree `dl`), the reference rejects with `err`.
fn classify_accept(bytes: &[u8], dialect: Dialect, dl: &Program, err: &luaparse::ParseError) -> Option<&'static str> {
    let loose = CompareOptions { ignore_num_spelling: true, ..Default::default() };
    // the error of the pure context-free grammar (no loop / vararg context checks)
    let err = match luaparse::parse_with_options(bytes, dialect, luaparse::ParseOptions::syntax_only()) {
        Ok(p) => {
            return if same_structure(dl, &p, loose).is_ok() { Some("K-CTX") } else { None };
        }
        Err(e) => {
            let _ = err;
            e
        }
    };
    if err.offset <= bytes.len() {
        if let Ok(p) = luaparse::parse_with_options(&bytes[..err.offset], dialect, luaparse::ParseOptions::syntax_only()) {
            let ends_with_last = p
                .node(p.root)
                .and_then(|b| b.l.last())
                .and_then(|&id| p.node(id))
                .map_or(false, |n| matches!(n.k.as_str(), "ret" | "break" | "continue"));
            if ends_with_last && same_structure(dl, &p, loose).is_ok() {
                return Some("K-TRAILING-DROPPED");
            }
        }
    }
    let m = err.message.as_str();
    if m.contains("malformed number") {
        return Some("K-NUMSUFFIX");
    }
    if m.contains("malformed \\u escape: hexadecimal digits expected") && bytes.windows(4).any(|w| w == b"\\u{}") {
        return Some("K-EMPTY-U-ESCAPE");
    }
    if m.contains("attribute name is missing after '@'") {
        return Some("K-ATTR-SPACE");
    }
    if m.starts_with("type expected") || m.contains("a type pack is expected") {
        return Some("K-NOTFOUND-SWALLOWED");
    }
    if m.starts_with("unexpected symbol") {
        let prev = tokens_before(bytes, dialect, err.offset);
        let last = prev.last().map(|v| &v[..]).unwrap_or(b"");
        let before_last = if prev.len() == 2 { &prev[0][..] } else { b"" };
        if matches!(last, b"if" | b"then" | b"else" | b"elseif") || (last == b"(" && before_last == b"typeof") {
            return Some("K-NOTFOUND-SWALLOWED");
        }
    }
    None
}

/// darklua rejects with `err` (one line), the reference accepts.
fn classify_reject(bytes: &[u8], err: &str) -> Option<&'static str> {
    let has = |needle: &[u8]| bytes.windows(needle.len()).any(|w| w == needle);
    if err.starts_with("PANIC: unable to convert u32 to char") {
        return Some("K-SURROGATE-PANIC");
    }
    if err.starts_with("unable to convert number from") && err.contains("could not parse") {
        return Some("K-INT-OVERFLOW");
    }
    if err.contains("tokenizing: invalid number") {
        // an underscore directly after the exponent marker / its sign
        let b = bytes;
        let hit = (0..b.len()).any(|i| {
            (b[i] == b'e' || b[i] == b'E')
                && i > 0
                && (b[i - 1].is_ascii_digit() || b[i - 1] == b'_' || b[i - 1] == b'.')
                && match b.get(i + 1) {
                    Some(b'_') => true,
                    Some(b'+') | Some(b'-') => b.get(i + 2) == Some(&b'_'),
                    _ => false,
                }
        });
        if hit {
            return Some("K-NUM-UNDERSCORE-EXP");
        }
    }
    if err.contains("expected identifier after `@`") && has(b"@[") {
        return Some("K-ATTR-BRACKET");
    }
    if err.contains("unclosed string") && (has(b"\\z\n") || has(b"\\z\r") || has(b"\\z \n")) {
        return Some("K-Z-NEWLINE");
    }
    if err.contains("tokenizing: unexpected character") && (has(b"\x0b") || has(b"\x0c")) {
        return Some("K-VT-FF");
    }
    if err.starts_with("unable to convert type from `(") {
        return Some("K-TINST-PACK");
    }
    None
}

fn normalise_newlines(bytes: &[u8]) -> Vec<u8> {
    let mut out = Vec::with_capacity(bytes.len());
    let mut i = 0;
    while i < bytes.len() {
        if bytes[i] == b'\r' {
            out.push(b'\n');
            if bytes.get(i + 1) == Some(&b'\n') {
                i += 1;
            }
        } else {
            out.push(bytes[i]);
        }
        i += 1;
    }
    out
}

/// Both accept, the trees differ.
fn classify_tree(bytes: &[u8], dialect: Dialect, dl: &Program, reference: &Program) -> Option<&'static str> {
    if !bytes.contains(&b'\r') {
        return None;
    }
    // a line comment (reference lexer) ended by a lone CR
    if let Ok((_, comments)) = luaparse::lex(bytes, dialect) {
        let lone_cr = comments.iter().any(|c| bytes.get(c.end) == Some(&b'\r') && bytes.get(c.end + 1) != Some(&b'\n'));
        if lone_cr {
            return Some("K-CR-COMMENT");
        }
    }
    // same trees once CR / CRLF in darklua's strings are turned into LF (and a leading LF dropped)
    let mut fixed = dl.clone();
    let mut reference = reference.clone();
    let canon = |p: &mut Program| {
        for n in p.nodes.iter_mut() {
            if n.k == "str" || n.k == "istr" {
                let mut v = normalise_newlines(&n.s);
                if v.first() == Some(&b'\n') {
                    v.remove(0);
                }
                n.s = v;
            }
        }
    };
    canon(&mut fixed);
    canon(&mut reference);
    let loose = CompareOptions { ignore_num_spelling: true, ..Default::default() };
    if same_structure(&fixed, &reference, loose).is_ok() {
        return Some("K-CR-IN-STRING");
    }
    None
}

/// Compares darklua's parse of `bytes` (with and without token preservation) with luaparse's.
pub fn check_source(bytes: &[u8], dialect: Dialect) -> Outcome {
    let reference = luaparse::parse(bytes, dialect);
    let text = match std::str::from_utf8(bytes) {
        Ok(t) => t,
        Err(_) => {
            // darklua's API takes &str: not representable. Treated as a darklua rejection.
            return match reference {
                Ok(_) => Outcome::MismatchAccept(
                    "darklua: input is not UTF-8 (API takes &str) / luaparse accepts".into(),
                    Some("K-NONUTF8"),
                ),
                Err(_) => Outcome::BothReject,
            };
        }
    };
    let plain = darklua_parse(text, false);
    let tokens = darklua_parse(text, true);
    match (&plain, &tokens) {
        (Ok(_), Err(e)) | (Err(e), Ok(_)) => {
            let class = if e.contains("token kind `Shebang`") { Some("K-SHEBANG") } else { None };
            return Outcome::MismatchAccept(
                format!(
                    "darklua disagrees with itself: plain {} / preserve_tokens {}: {}",
                    if plain.is_ok() { "accepts" } else { "rejects" },
                    if tokens.is_ok() { "accepts" } else { "rejects" },
                    e
                ),
                class,
            );
        }
        _ => {}
    }
    match (plain, tokens, reference) {
        (Err(_), _, Err(_)) => Outcome::BothReject,
        (Err(e), _, Ok(_)) => {
            let class = classify_reject(bytes, &e);
            Outcome::MismatchAccept(format!("darklua rejects: {} / luaparse accepts", e), class)
        }
        (Ok(plain), _, Err(e)) => {
            let class = classify_accept(bytes, dialect, &flatten(&plain), &e);
            Outcome::MismatchAccept(format!("darklua accepts / luaparse rejects: {}", e), class)
        }
        (Ok(plain), Ok(tokens), Ok(reference)) => {
            let fp = flatten(&plain);
            let ft = flatten_with_source(&tokens, Some(text));
            // tokenless parse: number nodes have no spelling
            let o_plain = CompareOptions { ignore_num_spelling: true, ..Default::default() };
            if let Err(e) = same_structure(&fp, &reference, o_plain) {
                let class = classify_tree(bytes, dialect, &fp, &reference);
                return Outcome::MismatchTree(format!("(darklua vs luaparse) {}", e), class);
            }
            if let Err(e) = same_structure(&ft, &reference, CompareOptions::default()) {
                return Outcome::MismatchTree(format!("(darklua preserve_tokens vs luaparse) {}", e), None);
            }
            Outcome::Same
        }
        (Ok(_), Err(_), Ok(_)) => unreachable!(),
    }
}

fn on_big_stack<T: Send>(f: impl FnOnce() -> T + Send) -> T {
    std::thread::scope(|s| {
        std::thread::Builder::new()
            .stack_size(1 << 30)
            .spawn_scoped(s, f)
            .expect("spawn")
            .join()
            .expect("worker thread panicked")
    })
}

pub fn main_astjson(args: &[String]) -> i32 {
    let file = match args.first() {
        Some(f) => f,
        None => {
            eprintln!("usage: dlv astjson <file>");
            return 2;
        }
    };
    let text = match std::fs::read_to_string(file) {
        Ok(t) => t,
        Err(e) => {
            eprintln!("{}: {}", file, e);
            return 2;
        }
    };
    on_big_stack(|| match darklua_parse(&text, true) {
        Ok(b) => {
            println!("{}", flatten_with_source(&b, Some(&text)).to_json_string());
            0
        }
        Err(e) => {
            eprintln!("{}: {}", file, e);
            1
        }
    })
}

/// String literals of a Rust source file (`"..."` with escapes, `r"..."`, `r#"..."#`), decoded.
/// Used to harvest the Lua snippets embedded in darklua's own tests; anything that is not Lua is
/// simply rejected by both parsers.
fn rust_string_literals(src: &str) -> Vec<String> {
    let b = src.as_bytes();
    let mut out = Vec::new();
    let mut i = 0;
    while i < b.len() {
        match b[i] {
            b'/' if b.get(i + 1) == Some(&b'/') => {
                while i < b.len() && b[i] != b'\n' {
                    i += 1;
                }
            }
            b'\'' => {
                // char literal or lifetime: skip `'x'` / `'\x'`, leave lifetimes alone
                if b.get(i + 1) == Some(&b'\\') {
                    i += 2;
                    while i < b.len() && b[i] != b'\'' {
                        i += 1;
                    }
                } else if b.get(i + 2) == Some(&b'\'') {
                    i += 2;
                } else if b.get(i + 1).map_or(false, |c| *c >= 0x80) {
                    i += 1;
                    while i < b.len() && b[i] != b'\'' {
                        i += 1;
                    }
                }
                i += 1;
            }
            b'r' if matches!(b.get(i + 1), Some(b'"') | Some(b'#'))
                && (i == 0 || !(b[i - 1].is_ascii_alphanumeric() || b[i - 1] == b'_')) =>
            {
                let mut j = i + 1;
                let mut hashes = 0;
                while b.get(j) == Some(&b'#') {
                    hashes += 1;
                    j += 1;
                }
                if b.get(j) != Some(&b'"') {
                    i += 1;
                    continue;
                }
                j += 1;
                let body = j;
                let mut closer = vec![b'"'];
                closer.extend(std::iter::repeat(b'#').take(hashes));
                match (body..b.len()).find(|&k| b[k..].starts_with(&closer)) {
                    Some(k) => {
                        out.push(String::from_utf8_lossy(&b[body..k]).to_string());
                        i = k + closer.len();
                    }
                    None => i = b.len(),
                }
            }
            b'"' => {
                let mut j = i + 1;
                let mut v: Vec<u8> = Vec::new();
                while j < b.len() && b[j] != b'"' {
                    if b[j] == b'\\' {
                        j += 1;
                        match b.get(j) {
                            Some(b'n') => v.push(b'\n'),
                            Some(b'r') => v.push(b'\r'),
                            Some(b't') => v.push(b'\t'),
                            Some(b'0') => v.push(0),
                            Some(b'\\') => v.push(b'\\'),
                            Some(b'"') => v.push(b'"'),
                            Some(b'\'') => v.push(b'\''),
                            Some(b'x') => {
                                let h = std::str::from_utf8(&b[j + 1..(j + 3).min(b.len())]).unwrap_or("");
                                v.push(u8::from_str_radix(h, 16).unwrap_or(b'?'));
                                j += 2;
                            }
                            Some(b'u') => {
                                let close = (j..b.len()).find(|&k| b[k] == b'}').unwrap_or(j);
                                let h = std::str::from_utf8(&b[(j + 2).min(close)..close]).unwrap_or("");
                                let c = u32::from_str_radix(h, 16).ok().and_then(char::from_u32).unwrap_or('?');
                                v.extend(c.to_string().as_bytes());
                                j = close;
                            }
                            Some(b'\n') => {
                                // line continuation: skip the newline and leading whitespace
                                while b.get(j + 1).map_or(false, |c| c.is_ascii_whitespace()) {
                                    j += 1;
                                }
                            }
                            Some(c) => v.push(*c),
                            None => {}
                        }
                        j += 1;
                    } else {
                        v.push(b[j]);
                        j += 1;
                    }
                }
                out.push(String::from_utf8_lossy(&v).to_string());
                i = j + 1;
            }
            _ => i += 1,
        }
    }
    out
}

fn collect_with_ext(dir: &std::path::Path, ext: &str, out: &mut Vec<std::path::PathBuf>) {
    let mut entries: Vec<_> = match std::fs::read_dir(dir) {
        Ok(rd) => rd.filter_map(|e| e.ok()).map(|e| e.path()).collect(),
        Err(_) => return,
    };
    entries.sort();
    for p in entries {
        if p.is_dir() {
            if p.file_name().map_or(false, |n| n == "target" || n == "node_modules" || n == ".git") {
                continue;
            }
            collect_with_ext(&p, ext, out);
        } else if p.extension().and_then(|e| e.to_str()) == Some(ext) {
            out.push(p);
        }
    }
}

/// `dlv astcheck [--lua51] [--verbose] [--classes] <files...> [--dir D]... [--rust-strings D]...
/// [--snapshots D]... [--synthetic [OUTDIR]] [--truncations]`
///
/// * `--dir D`: every `.lua` / `.luau` file under D.
/// * `--rust-strings D`: every string literal of every `.rs` file under D (embedded test snippets).
/// * `--snapshots D`: the body of every insta `.snap` file under D (generated code; other bodies
///   are rejected by both parsers).
/// * `--synthetic [OUTDIR]`: the generated programs of `astsynth::generate` (also written to OUTDIR).
/// * `--truncations`: `astsynth::truncations`.
/// * `--random N`: `astsynth::random_programs(N)` (deterministic).
/// * `--classes`: print the table of known classes and exit.
/// * `--verbose`: also print `same` lines; `--quiet`: do not print `both-reject` lines.
pub fn main_astcheck(args: &[String]) -> i32 {
    let mut dialect = Dialect::Luau;
    let mut files: Vec<String> = Vec::new();
    let mut synthetic: Option<String> = None;
    let mut verbose = false;
    let mut quiet = false;
    let mut truncations = false;
    let mut random = 0usize;
    let mut cases: Vec<(String, Vec<u8>)> = Vec::new();
    let mut seen_snippets = std::collections::HashSet::new();
    let mut i = 0;
    while i < args.len() {
        match args[i].as_str() {
            "--lua51" => dialect = Dialect::Lua51,
            "--verbose" => verbose = true,
            "--quiet" => quiet = true,
            "--truncations" => truncations = true,
            "--random" => {
                i += 1;
                random = args.get(i).and_then(|v| v.parse().ok()).unwrap_or(0);
            }
            "--classes" => {
                for (k, d) in KNOWN_CLASSES {
                    println!("{}\t{}", k, d);
                }
                return 0;
            }
            "--dir" | "--rust-strings" | "--snapshots" => {
                let opt = args[i].clone();
                i += 1;
                let d = match args.get(i) {
                    Some(d) => d,
                    None => {
                        eprintln!("{} needs a value", opt);
                        return 2;
                    }
                };
                let root = std::path::Path::new(d);
                if opt == "--dir" {
                    collect_files(root, &mut files);
                } else if opt == "--rust-strings" {
                    let mut rs = Vec::new();
                    collect_with_ext(root, "rs", &mut rs);
                    for f in rs {
                        let text = match std::fs::read_to_string(&f) {
                            Ok(t) => t,
                            Err(_) => continue,
                        };
                        for (k, lit) in rust_string_literals(&text).into_iter().enumerate() {
                            if lit.trim().is_empty() || !seen_snippets.insert(lit.clone()) {
                                continue;
                            }
                            cases.push((format!("{}#str{}", f.display(), k), lit.into_bytes()));
                        }
                    }
                } else {
                    let mut snaps = Vec::new();
                    collect_with_ext(root, "snap", &mut snaps);
                    for f in snaps {
                        let text = match std::fs::read_to_string(&f) {
                            Ok(t) => t,
                            Err(_) => continue,
                        };
                        // `---\n<yaml header>\n---\n<body>`
                        let body = text
                            .strip_prefix("---\n")
                            .and_then(|r| r.find("\n---\n").map(|p| &r[p + 5..]))
                            .unwrap_or(&text);
                        if !body.trim().is_empty() && seen_snippets.insert(body.to_string()) {
                            cases.push((f.display().to_string(), body.as_bytes().to_vec()));
                        }
                    }
                }
            }
            "--synthetic" => {
                // optional value: directory to also write the generated programs into
                synthetic = Some(String::new());
                if let Some(d) = args.get(i + 1) {
                    if !d.starts_with("--") {
                        synthetic = Some(d.clone());
                        i += 1;
                    }
                }
            }
            f => files.push(f.to_string()),
        }
        i += 1;
    }
    for f in &files {
        match std::fs::read(f) {
            Ok(b) => cases.push((f.clone(), b)),
            Err(e) => eprintln!("{}: {}", f, e),
        }
    }
    if let Some(dir) = &synthetic {
        for (name, src) in crate::astsynth::generate() {
            if !dir.is_empty() {
                let _ = std::fs::create_dir_all(dir);
                let _ = std::fs::write(format!("{}/{}.luau", dir, name), &src);
            }
            cases.push((format!("synthetic:{}", name), src.into_bytes()));
        }
    }
    if truncations {
        for (name, src) in crate::astsynth::truncations() {
            if let Some(dir) = synthetic.as_ref().filter(|d| !d.is_empty()) {
                let _ = std::fs::create_dir_all(dir);
                let _ = std::fs::write(format!("{}/{}.luau", dir, name), &src);
            }
            cases.push((format!("synthetic:{}", name), src.into_bytes()));
        }
    }
    for (name, src) in crate::astsynth::random_programs(random) {
        if let Some(dir) = synthetic.as_ref().filter(|d| !d.is_empty()) {
            let _ = std::fs::create_dir_all(dir);
            let _ = std::fs::write(format!("{}/{}.luau", dir, name), &src);
        }
        cases.push((format!("synthetic:{}", name), src.into_bytes()));
    }
    let (mut same, mut both_reject, mut mm_accept, mut mm_tree, mut unexplained) = (0usize, 0usize, 0usize, 0usize, 0usize);
    let mut per_class: std::collections::BTreeMap<&'static str, usize> = Default::default();
    let n = cases.len();
    on_big_stack(|| {
        for (name, bytes) in &cases {
            let outcome = check_source(bytes, dialect);
            let mut tag = |class: Option<&'static str>| match class {
                Some(k) => {
                    *per_class.entry(k).or_insert(0) += 1;
                    format!("[known:{}] ", k)
                }
                None => {
                    unexplained += 1;
                    "[UNEXPLAINED] ".to_string()
                }
            };
            match outcome {
                Outcome::Same => {
                    same += 1;
                    if verbose {
                        println!("same {}", name);
                    }
                }
                Outcome::BothReject => {
                    both_reject += 1;
                    if !quiet {
                        println!("both-reject {}", name);
                    }
                }
                Outcome::MismatchAccept(e, class) => {
                    mm_accept += 1;
                    println!("MISMATCH-ACCEPT {}: {}{}", name, tag(class), e);
                }
                Outcome::MismatchTree(e, class) => {
                    mm_tree += 1;
                    println!("MISMATCH-TREE {}: {}{}", name, tag(class), e);
                }
            }
        }
    });
    for (k, c) in &per_class {
        println!("CLASS {} count={}", k, c);
    }
    println!(
        "ASTCHECK files={} same={} both_reject={} mismatch_accept={} mismatch_tree={} unexplained={}",
        n, same, both_reject, mm_accept, mm_tree, unexplained
    );
    0
}

#[cfg(test)]
mod tests {
    use super::*;

    fn lp(src: &str) -> Program {
        luaparse::parse(src.as_bytes(), Dialect::Luau).expect("reference parse")
    }

    fn dl(src: &str) -> Program {
        let block = darklua_core::Parser::default().preserve_tokens().parse(src).expect("darklua parse");
        flatten_with_source(&block, Some(src))
    }

    #[test]
    fn flattener_agrees_with_luaparse_on_every_node_kind() {
        for src in [
            "local a, b = nil, true, false, ...",
            "local n = 0x10 + 1e3 - .5 * 1_000 / 0b11 // 2 % 3 ^ 4 .. 'x'",
            "local s = \"a\\n\\065\\x41\\u{48}\" .. [[long]] .. `i{a}j{ {1} }k`",
            "local c = a == b or a ~= b and a < b or a <= b or a > b or a >= b",
            "local u = not a, -a, #a, (a), (f()), (...)",
            "f{} f's' o:m() o.x:y'z'{} a.b[c](d)(e)",
            "local t = {1, x = 2, [3] = 4; f()}",
            "a, b.c, d[e] = 1, 2 a += 1 a.b ..= 'x' a[1] //= 2",
            "do end while a do break end repeat continue until a",
            "if a then elseif b then else end if a then end",
            "for i = 1, 2 do end for i = 1, 2, 3 do end for k, v in pairs(t) do end",
            "function a.b.c:d(x, ...) return self, x, ... end function f() end",
            "local function f(a: number, ...: string): boolean return true end",
            "const x = 1 const function g() end",
            "local v = if a then 1 elseif b then 2 elseif c then 3 else 4",
            "type A<T> = {T} export type B = A<number> type function tf() end",
            "local y = (a :: any) :: number local z = f<<number>>() local w = o:m<<T>>(1)",
            "@native function h() end local k = @native function() end",
            "return function(...) return ... end",
        ] {
            let r = same_structure(&dl(src), &lp(src), CompareOptions::default());
            assert_eq!(r, Ok(()), "{}", src);
        }
    }

    #[test]
    fn number_spelling_needs_the_source_or_a_content_token() {
        let src = "return 0x10";
        let block = darklua_core::Parser::default().preserve_tokens().parse(src).unwrap();
        let with = flatten_with_source(&block, Some(src));
        let without = flatten(&block);
        let num = |p: &Program| p.nodes.iter().find(|n| n.k == "num").unwrap().clone();
        assert_eq!(num(&with).s, b"0x10");
        assert_eq!(num(&without).s, b"");
        assert_eq!(num(&with).num, 16.0);
        let strict = CompareOptions::default();
        assert!(same_structure(&without, &lp(src), strict).unwrap_err().contains("num.s"));
        let loose = CompareOptions { ignore_num_spelling: true, ..strict };
        assert_eq!(same_structure(&without, &lp(src), loose), Ok(()));
        // a number built in memory has no token at all
        let e = Expression::Number(DecimalNumber::new(0.5).into());
        let p = flatten_expression(&e);
        assert_eq!(num(&p).s, b"");
        assert_eq!(num(&p).num, 0.5);
        // a token that carries its own content needs no source
        let n: NumberExpression = DecimalNumber::new(16.0).into();
        let e = Expression::Number(n.with_token(Token::from_content("0x10")));
        assert_eq!(num(&flatten_expression(&e)).s, b"0x10");
    }

    #[test]
    fn flatten_expression_wraps_in_block_ret() {
        let e = Expression::identifier("x").in_parentheses();
        let p = flatten_expression(&e);
        assert_eq!(same_structure(&p, &lp("return (x)"), CompareOptions::default()), Ok(()));
        assert_eq!(p.node(p.root).unwrap().k, "block");
    }

    #[test]
    fn comparison_options_and_paths() {
        let o = CompareOptions::default();
        let e = same_structure(&lp("local a = 1 f() return a + b"), &lp("local a = 1 f() return a(b)"), o).unwrap_err();
        assert_eq!(e, "root.l[3].l[1]: kind bin vs call");
        let e = same_structure(&lp("x = a.b"), &lp("x = a.c"), o).unwrap_err();
        assert!(e.starts_with("root.l[1].m[1]: field.s"), "{}", e);
        // parentheses
        let t = CompareOptions { transparent_parens: true, ..o };
        assert!(same_structure(&lp("return (a + b) * c"), &lp("return ((a + b)) * (c)"), o).is_err());
        assert_eq!(same_structure(&lp("return (a + b) * c"), &lp("return ((a + b)) * (c)"), t), Ok(()));
        assert!(same_structure(&lp("return (f())"), &lp("return f()"), t).is_err());
        assert!(same_structure(&lp("return (...)"), &lp("return ..."), t).is_err());
        assert!(same_structure(&lp("return (o:m())"), &lp("return o:m()"), t).is_err());
        assert_eq!(same_structure(&lp("return ((f()))"), &lp("return (f())"), t), Ok(()));
        // const
        assert!(same_structure(&lp("const x = 1"), &lp("local x = 1"), o).unwrap_err().contains("const flag"));
        let c = CompareOptions { ignore_const: true, ..o };
        assert_eq!(same_structure(&lp("const x = 1 const function f() end"), &lp("local x = 1 local function f() end"), c), Ok(()));
        // numbers: bit patterns
        let s = CompareOptions { ignore_num_spelling: true, ..o };
        assert_eq!(same_structure(&lp("return 16"), &lp("return 0x10"), s), Ok(()));
        assert!(same_structure(&lp("return 16"), &lp("return 0x10"), o).is_err());
        let mut zero = lp("return 0");
        let mut negzero = zero.clone();
        for n in negzero.nodes.iter_mut().filter(|n| n.k == "num") {
            n.num = -0.0;
        }
        assert!(same_structure(&zero, &negzero, s).unwrap_err().contains("num value"));
        for n in zero.nodes.iter_mut().filter(|n| n.k == "num") {
            n.num = f64::NAN;
        }
        for n in negzero.nodes.iter_mut().filter(|n| n.k == "num") {
            n.num = f64::from_bits(0xfff8_0000_0000_0001);
        }
        assert_eq!(same_structure(&zero, &negzero, s), Ok(()));
        // variadic flag and name lists
        assert!(same_structure(&lp("function f(a) end"), &lp("function f(a, ...) end"), o).unwrap_err().contains("variadic"));
        assert!(same_structure(&lp("function f(a) end"), &lp("function f(b) end"), o).unwrap_err().contains("fn.ns"));
        assert!(same_structure(&lp("if a then end"), &lp("if a then else end"), o).unwrap_err().contains("root.l[1].c"));
    }

    #[test]
    fn known_classes_are_detected_not_hidden() {
        let class = |src: &str| match check_source(src.as_bytes(), Dialect::Luau) {
            Outcome::MismatchAccept(_, c) | Outcome::MismatchTree(_, c) => c,
            Outcome::Same => Some("same"),
            Outcome::BothReject => Some("both-reject"),
        };
        assert_eq!(class("return 1 return 2"), Some("K-TRAILING-DROPPED"));
        assert_eq!(class("break"), Some("K-CTX"));
        assert_eq!(class("type A =\nreturn 1"), Some("K-NOTFOUND-SWALLOWED"));
        assert_eq!(class("local t = {if local y = 1"), Some("K-NOTFOUND-SWALLOWED"));
        assert_eq!(class("a=1and 2"), Some("K-NUMSUFFIX"));
        assert_eq!(class("return [[\r\na]]"), Some("K-CR-IN-STRING"));
        assert_eq!(class("local a = 1 --x\rlocal b = 2\nreturn a"), Some("K-CR-COMMENT"));
        assert_eq!(class("do return 1 return 2 end"), Some("both-reject"));
        assert_eq!(class("return 1"), Some("same"));
    }
}
