//! dlv — conformance harness binding the TLA+ specifications in /verif/spec to the real darklua_core
//! built from /repo's working tree. One subcommand per driver; each reads cases (ndjson) and writes
//! observations (ndjson) that the trace specifications validate.
mod util;
mod resolve;
mod frontend;
mod batch;
mod text;
mod rename;
mod sem;
mod census;
mod robust;
mod config;
mod filters;
mod astjson;
mod astsynth;
mod gen;
mod literals;
mod evaluator;
mod dataconv;
mod bundle;
mod roblox;

fn main() {
    let args: Vec<String> = std::env::args().skip(1).collect();
    if std::env::var("DLV_LOUD").is_err() {
        util::install_quiet_panic_hook();
    }
    let code = match args.first().map(String::as_str) {
        Some("resolve") => resolve::main(&args[1..]),
        Some("frontend") => frontend::main(&args[1..]),
        Some("batch") => batch::main(&args[1..]),
        Some("config") => config::main(&args[1..]),
        Some("filters") => filters::main(&args[1..]),
        Some("robust") => robust::main(&args[1..]),
        Some("census") => census::main(&args[1..]),
        Some("sem") => sem::main(&args[1..]),
        Some("evaluator") => evaluator::main(&args[1..]),
        Some("rename") => rename::main(&args[1..]),
        Some("text") => text::main(&args[1..]),
        Some("astcheck") => astjson::main_astcheck(&args[1..]),
        Some("astjson") => astjson::main_astjson(&args[1..]),
        Some("gen") => gen::main(&args[1..]),
        Some("literals") => literals::main(&args[1..]),
        Some("dataconv") => dataconv::main(&args[1..]),
        Some("bundle") => bundle::main(&args[1..]),
        Some("roblox") => roblox::main(&args[1..]),
        Some("version") => {
            println!("dlv 0.1");
            0
        }
        _ => {
            eprintln!("usage: dlv <resolve|...> ...");
            2
        }
    };
    std::process::exit(code);
}
