fn main() { println!("dlv"); }
