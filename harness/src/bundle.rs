//! C05 driver: module graphs enumerated by spec/mc/MC_Bundle.tla are rendered as REAL files in
//! `Resources::from_memory()` so that the precondition of the property holds BY CONSTRUCTION (module bodies make no
//! external call while loading; every body bumps its own counter in the global table LOADS, registers its closures in
//! the global table REG and returns one value; the ENTRY reports -- after all requires ran -- the counters, the
//! identities of the values different requirers received and the results of calling exported closures to `ext1`).
//! Every file declares the SAME module-level locals (`counter`, `name`, `deps`, `bump`).  The entry is bundled by the
//! real `darklua_core::process`.
//!
//! case: {id, n, kind[], calls[][]{t,lit,shadow,excl,sp,pos}, exports[], mode, generator, rules, ext, dataext, sub}
//!   file 1 = entry (src/main.lua), files 2.. = modules a, b, c.  sp = spelling index, pos = local|stmt|expr|fn|late
//! outputs
//!   --out    LuaEquiv cases (non-error graphs): a = entry + every module appended, `req` maps every literal require
//!            string to the module root it denotes (data modules: the table constructor of the ground-truth datum);
//!            b = the bundle text read by the independent parser
//!   --obs    one observation per case for spec/trace/BundleTrace.tla: {id, g, error, named[], panic, hang, ms, ndefs}
//!   --status one line per case {id, status, out, files, text}
//! `--corrupt dup-body` makes the first module accessor of the bundle text ignore its cache, so that the module body
//! runs once per requirer; `--corrupt hide-error` / `drop-name` falsify the error observation (binding demonstrations only).
use crate::dataconv;
use crate::sem::default_env;
use crate::util::{arg_value, guarded, read_ndjson, Out};
use darklua_core::{Configuration, Options, Resources};
use luaparse::{Dialect, Node, Program};
use serde_json::{json, Value};
use std::collections::HashMap;
use std::path::Path;
use std::sync::mpsc;
use std::time::{Duration, Instant};

const NAMES: [&str; 5] = ["main", "a", "b", "c", "d"];
pub const DEFAULT_RULES: &str = "'remove_spaces', 'remove_comments', 'compute_expression', 'remove_unused_if_branch', 'remove_unused_while', 'filter_after_early_return', 'remove_empty_do', 'remove_unused_variable', 'remove_method_definition', 'convert_index_to_field', 'remove_nil_declaration', 'rename_variables', 'remove_function_call_parens'";

struct Case<'a> {
    c: &'a Value,
    n: usize,
    /// reference rendering of a TWIN graph: file 3 names its dependency by a canonical string, because the model
    /// `require` of the reference semantics is keyed by the literal alone while a real require string denotes a file
    /// only relative to the requiring file
    canon: bool,
}

impl<'a> Case<'a> {
    fn kind(&self, f: usize) -> &str {
        self.c["kind"][f - 1].as_str().unwrap_or("lua")
    }
    fn calls(&self, f: usize) -> &[Value] {
        self.c["calls"][f - 1].as_array().map(|a| a.as_slice()).unwrap_or(&[])
    }
    fn excluded(&self, f: usize) -> bool {
        (1..=self.n).any(|g| self.calls(g).iter().any(|c| c["t"] == json!(f) && c["excl"] == json!(1)))
    }
    fn ext(&self) -> &str {
        self.c["ext"].as_str().unwrap_or("lua")
    }
    fn dataext(&self) -> &str {
        self.c["dataext"].as_str().unwrap_or("json")
    }
    /// TWIN graph (1->2, 1->3, 2->4, 3->5): "dot" | "dotdot" -- files 2 and 3 sit in sibling directories and write the
    /// SAME literal (`./c` / `../c`) for files 4 (src/one/c) and 5 (src/two/c)
    fn twin(&self) -> Option<&str> {
        if self.c["feat"]["k"] == json!("twin") {
            Some(self.c["feat"]["kind"].as_str().unwrap_or("dot"))
        } else {
            None
        }
    }
    /// directory of file f below proj/ ("src" or "src/sub" when the case puts module c in a sub-directory)
    fn dir(&self, f: usize) -> &'static str {
        match (self.twin(), f) {
            (Some("dotdot"), 2) => "src/one/p",
            (Some("dotdot"), 3) => "src/two/p",
            (Some(_), 2) | (Some(_), 4) => "src/one",
            (Some(_), 3) | (Some(_), 5) => "src/two",
            (Some(_), _) => "src",
            (None, _) => {
                if self.root() && f != 1 {
                    ""                       // ROOT layout: every module sits at the very root of the resource tree
                } else if f == 4 && self.c["sub"] == json!(1) {
                    "src/sub"
                } else {
                    "src"
                }
            }
        }
    }
    /// base name of file f without extension
    fn stem(&self, f: usize) -> &'static str {
        if self.twin().is_some() && f == 5 {
            "c"
        } else if f == 3 && self.c["casetwin"] == json!(1) && self.twin().is_none() {
            "A"                 // CASE TWINS: files 2 and 3 are `a.lua` and `A.lua`, two different files of one directory
        } else {
            NAMES[f - 1]
        }
    }
    fn file_name(&self, f: usize) -> String {
        if f == 1 {
            return "main.lua".into();
        }
        match self.kind(f) {
            "data" => format!("{}.{}", self.stem(f), self.dataext()),
            _ => format!("{}.{}", self.stem(f), self.ext()),
        }
    }
    /// ROOT layout (`root: 1`): no project directory -- the entry is `src/main.lua` and the modules are `a.lua`, `b.lua` ...
    /// directly at the root of the resources, so that a module has NO parent directory (a file is then located as
    /// `a.lua` from `src/` and as `./a.lua` from a sibling)
    /// aliases through `.luaurc`: proj/.luaurc maps `lib` to ./src (never in the ROOT layout nor with twins)
    fn rc(&self) -> bool {
        self.c["rc"] == json!(1) && !self.root() && self.twin().is_none()
    }
    fn root(&self) -> bool {
        self.c["root"] == json!(1) && self.twin().is_none()
    }
    fn prefix(&self) -> &'static str {
        if self.root() { "" } else { "proj/" }
    }
    fn path(&self, f: usize) -> String {
        if self.dir(f).is_empty() {
            format!("{}{}", self.prefix(), self.file_name(f))
        } else {
            format!("{}{}/{}", self.prefix(), self.dir(f), self.file_name(f))
        }
    }
    /// the literal require string for target t written in file f (spelling sp); by construction every string
    /// denotes the same file wherever it is used (all requirers of one directory use that directory's spellings)
    fn spelling(&self, f: usize, t: usize, sp: u64) -> String {
        if let Some(kind) = self.twin() {
            let with_ext = self.c["sp0"] == json!(1) && self.kind(t) != "missing";
            let tail = if with_ext { self.file_name(t) } else { self.stem(t).to_string() };
            return match (f, t) {
                (3, 5) if self.canon => "@twin-d".to_string(),
                (2, 4) | (3, 5) => format!("{}{}", if kind == "dotdot" { "../" } else { "./" }, tail),
                _ => format!("./{}/{}", &self.dir(t)[4..], if sp % 2 == 1 && self.kind(t) != "missing" { self.file_name(t) } else { self.stem(t).to_string() }),
            };
        }
        let stem = self.stem(t);
        let full = self.file_name(t);
        let data = self.kind(t) == "data";
        let from_sub = self.dir(f) == "src/sub";
        let to_sub = self.dir(t) == "src/sub";
        let rel = if self.root() {
            match (self.dir(f).is_empty(), self.dir(t).is_empty()) {
                (true, true) => "./".to_string(),
                (false, true) => "../".to_string(),
                (true, false) => "./src/".to_string(),
                (false, false) => "./".to_string(),
            }
        } else {
            match (from_sub, to_sub) {
                (false, false) | (true, true) => "./".to_string(),
                (false, true) => "./sub/".to_string(),
                (true, false) => "../".to_string(),
            }
        };
        if self.excluded(t) || self.kind(t) == "missing" {
            return format!("{}{}", rel, stem); // one spelling only: the exclusion pattern / the error text names it
        }
        let name = if data { full.clone() } else { stem.to_string() };
        if self.rc() && sp % 4 == 2 {
            return format!("@lib/{}{}", if to_sub { "sub/" } else { "" }, name);
        }
        match sp % 4 {
            0 => format!("{}{}", rel, name),
            1 => format!("{}{}", rel, full),
            2 => format!("{}x/../{}", rel, name),
            _ => {
                if from_sub == to_sub && !from_sub && !self.root() {
                    format!("../src/{}", name)
                } else {
                    format!("{}y/./../{}", rel, full)
                }
            }
        }
    }
}

fn export_expr(kind: &str, name: &str) -> String {
    match kind {
        "function" => "function() return \"fn:\" .. name end".into(),
        "nil" => "nil".into(),
        "false" => "false".into(),
        "number" => format!("{}", 40 + name.len() + name.as_bytes()[0] as usize),
        "string" => format!("\"val:{}\"", name),
        _ => "{name = name, bump = bump, id = {}}".into(),
    }
}

/// the statements of one require-like call (index i, 1-based) of file f
fn call_text(case: &Case, f: usize, i: usize, c: &Value, o: &mut String) {
    let t = c["t"].as_u64().unwrap() as usize;
    let lit = c["lit"] == json!(1);
    let shadow = c["shadow"] == json!(1);
    let pos = c["pos"].as_str().unwrap_or("local");
    let s = case.spelling(f, t, c["sp"].as_u64().unwrap_or(0));
    let arg = if lit {
        format!("\"{}\"", s)
    } else {
        // a computed argument is never inlined: it goes to the run-time require, which serves the separate module `dyn`
        o.push_str(&format!("local dynamic{} = \"./dy\" .. \"n\"\n", i));
        format!("dynamic{}", i)
    };
    let (pre, post) = if shadow { ("do\nlocal function require(x) return \"shadow:\" .. x end\n", "end\n") } else { ("", "") };
    o.push_str(pre);
    match pos {
        "strcall" if lit => o.push_str(&format!("local r{} = require {}\ndeps[{}] = r{}\n", i, arg, i, i)),
        "stmt" => o.push_str(&format!("require({})\ndeps[{}] = \"stmt\"\n", arg, i)),
        "expr" => o.push_str(&format!("local holder{} = {{first = require({}), tag = \"x\"}}\ndeps[{}] = holder{}.first\n", i, arg, i, i)),
        "fn" => o.push_str(&format!("local function load{}() return require({}) end\ndeps[{}] = load{}()\n", i, arg, i, i)),
        "late" => o.push_str(&format!("deps[\"late{}\"] = function() return require({}) end\n", i, arg)),
        _ => o.push_str(&format!("local r{} = require({})\ndeps[{}] = r{}\n", i, arg, i, i)),
    }
    o.push_str(post);
}

fn module_text(case: &Case, f: usize) -> String {
    let name = NAMES[f - 1];
    match case.kind(f) {
        "broken" => return format!("local name = \"{}\"\nlocal function (\nreturn name\n", name),
        _ => {}
    }
    let mut o = String::new();
    o.push_str(&format!("local counter = 0\nlocal name = \"{}\"\nlocal deps = {{}}\n", name));
    o.push_str(&format!("LOADS = LOADS or {{}}\nLOADS.{} = (LOADS.{} or 0) + 1\nREG = REG or {{}}\n", name, name));
    if !case.excluded(f) {
        for (i, c) in case.calls(f).iter().enumerate() {
            call_text(case, f, i + 1, c, &mut o);
        }
    }
    o.push_str("local function bump() counter = counter + 1 return name .. \":\" .. counter end\n");
    o.push_str(&format!("REG.{} = {{bump = bump, deps = deps}}\n", name));
    let export = case.c["exports"][f - 1].as_str().unwrap_or("table");
    // `semi: 1`: the last statement of the module is closed by a semicolon (a token of its own: `return value;`), and a
    // nested block of the module ends with `return;` / `break;`
    let semi = if case.c["semi"] == json!(1) { ";" } else { "" };
    if !semi.is_empty() {
        o.push_str("local function early(flag) if flag then return name; end while flag do break; end return flag; end\nearly(false);\n");
    }
    match case.kind(f) {
        "ret0" => o.push_str(&if case.c["sp0"] == json!(1) { format!("return{}\n", semi) } else { "counter = counter + 0\n".to_string() }),
        "ret2" => o.push_str(&format!("return {}, name{}\n", export_expr(export, name), semi)),
        _ => o.push_str(&format!("return {}{}\n", export_expr(export, name), semi)),
    }
    o
}

fn entry_text(case: &Case) -> String {
    let mut o = String::new();
    o.push_str("local counter = 1000\nlocal name = \"entry\"\nlocal deps = {}\nLOADS = {}\nREG = {}\n");
    for (i, c) in case.calls(1).iter().enumerate() {
        call_text(case, 1, i + 1, c, &mut o);
    }
    o.push_str("local function bump() counter = counter + 1 return name .. \":\" .. counter end\n");
    // ---- report phase: after all requires ran
    o.push_str("ext1(\"loads\", LOADS)\n");
    // late requires: entry's own first, then every module's, twice each (second call must be served from the cache)
    for f in 1..=case.n {
        if f > 1 && (!matches!(case.kind(f), "lua") || case.excluded(f)) {
            continue;
        }
        for (i, c) in case.calls(f).iter().enumerate() {
            if c["pos"] == json!("late") {
                let d = if f == 1 { "deps".to_string() } else { format!("REG.{}.deps", NAMES[f - 1]) };
                let guard = if f == 1 { "true".to_string() } else { format!("REG.{}", NAMES[f - 1]) };
                o.push_str(&format!(
                    "if {} then local l1, l2 = {}.late{}(), {}.late{}() ext1(\"late\", {}, {}, l1, rawequal(l1, l2)) end\n",
                    guard, d, i + 1, d, i + 1, f, i + 1
                ));
            }
        }
    }
    o.push_str("ext1(\"loads-after-late\", LOADS)\n");
    o.push_str("ext1(\"entry-deps\", deps)\n");
    for f in 2..=case.n {
        let m = NAMES[f - 1];
        o.push_str(&format!("if REG.{} then ext1(\"reg\", \"{}\", REG.{}.bump(), REG.{}.bump(), REG.{}.deps) end\n", m, m, m, m, m));
    }
    // identities: every pair of (non-late, value-keeping) requirers of the same target received the same value
    let mut sites: Vec<(usize, usize, usize)> = Vec::new(); // (target, file, index)
    for f in 1..=case.n {
        if f > 1 && (!matches!(case.kind(f), "lua") || case.excluded(f)) {
            continue;
        }
        for (i, c) in case.calls(f).iter().enumerate() {
            let pos = c["pos"].as_str().unwrap_or("local");
            if pos != "stmt" && pos != "late" && c["lit"] == json!(1) {
                sites.push((c["t"].as_u64().unwrap() as usize, f, i + 1));
            }
        }
    }
    for x in 0..sites.len() {
        for y in (x + 1)..sites.len() {
            if sites[x].0 == sites[y].0 {
                let side = |s: &(usize, usize, usize)| if s.1 == 1 { format!("deps[{}]", s.2) } else { format!("REG.{}.deps[{}]", NAMES[s.1 - 1], s.2) };
                let guard = |s: &(usize, usize, usize)| if s.1 == 1 { "true".to_string() } else { format!("REG.{}", NAMES[s.1 - 1]) };
                o.push_str(&format!(
                    "if {} and {} then ext1(\"same\", {}, {}, {}, {}, rawequal({}, {})) end\n",
                    guard(&sites[x]), guard(&sites[y]), sites[x].1, sites[x].2, sites[y].1, sites[y].2, side(&sites[x]), side(&sites[y])
                ));
            }
        }
    }
    // data modules: look below the rendering depth
    for (i, c) in case.calls(1).iter().enumerate() {
        let t = c["t"].as_u64().unwrap() as usize;
        let pos = c["pos"].as_str().unwrap_or("local");
        if case.kind(t) == "data" && case.dataext() != "txt" && pos != "stmt" && pos != "late" && c["lit"] == json!(1) && c["shadow"] == json!(0) && c["excl"] == json!(0) {
            o.push_str(&format!("ext1(\"data\", deps[{}].list, deps[{}].nested, deps[{}].nested.k)\n", i + 1, i + 1, i + 1));
        }
    }
    o.push_str("ext1(\"locals\", name, counter, bump())\n");
    o.push_str("return deps[1]\n");
    o
}

// ------------------------------------------------------------------------------------------------ data modules
fn leaf(k: &str) -> Value {
    json!({"k": k, "b": 0, "hi": 0, "lo": 0, "tx": "", "s": [], "ks": [], "l": []})
}
fn dnum(tx: &str) -> Value {
    let x: f64 = tx.parse().unwrap();
    let (hi, lo) = luaparse_hi_lo(x);
    let mut v = leaf("num");
    v["hi"] = json!(hi);
    v["lo"] = json!(lo);
    v["tx"] = json!(tx);
    v
}
fn luaparse_hi_lo(x: f64) -> (i32, i32) {
    let bits = x.to_bits();
    ((bits >> 32) as u32 as i32, bits as u32 as i32)
}
fn dstr(s: &str) -> Value {
    let mut v = leaf("str");
    v["s"] = json!(s.as_bytes());
    v
}
fn dbool(b: bool) -> Value {
    let mut v = leaf("bool");
    v["b"] = json!(if b { 1 } else { 0 });
    v
}
fn darr(l: Vec<Value>) -> Value {
    let mut v = leaf("arr");
    v["l"] = json!(l);
    v
}
fn dobj(m: Vec<(&str, Value)>) -> Value {
    let mut v = leaf("obj");
    v["ks"] = json!(m.iter().map(|(k, _)| k.as_bytes().to_vec()).collect::<Vec<_>>());
    v["l"] = json!(m.into_iter().map(|(_, x)| x).collect::<Vec<_>>());
    v
}
/// the ground-truth datum of a data module (TOML has no null)
fn data_datum(ext: &str) -> Value {
    if ext == "txt" {
        return dstr("plain text\nwith \"quotes\" and a back\\slash\n");
    }
    let mut list = vec![dnum("1"), dstr("two"), dbool(false)];
    if ext != "toml" {
        list.push(leaf("null"));
    }
    list.push(dnum("2.5"));
    dobj(vec![
        ("name", dstr(ext)),
        ("list", darr(list)),
        ("nested", dobj(vec![("k", darr(vec![dbool(true), dnum("-3")]))])),
        ("end", dnum("9007199254740993")),
        ("a b", dstr("x\ty")),
        // keys made of letters only, but not of ASCII letters: not Lua names
        ("caf\u{e9}", dnum("7")),
        ("gr\u{f6}\u{df}e", dstr("\u{df}")),
        ("m\u{b2}", dbool(true)),
    ])
}
/// nodes of the Lua expression denoting datum d (built directly, no text involved); returns the expression id
fn datum_nodes(d: &Value, nodes: &mut Vec<Node>) -> usize {
    let push = |nodes: &mut Vec<Node>, n: Node| {
        nodes.push(n);
        nodes.len()
    };
    match d["k"].as_str().unwrap() {
        "null" => push(nodes, Node::new("nil")),
        "bool" => push(nodes, Node::new(if d["b"] == json!(1) { "true" } else { "false" })),
        "num" => {
            let mut n = Node::new("num");
            let hi = d["hi"].as_i64().unwrap() as i32 as u32 as u64;
            let lo = d["lo"].as_i64().unwrap() as i32 as u32 as u64;
            n.num = f64::from_bits((hi << 32) | lo);
            push(nodes, n)
        }
        "str" => {
            let mut n = Node::new("str");
            n.s = d["s"].as_array().unwrap().iter().map(|x| x.as_u64().unwrap() as u8).collect();
            push(nodes, n)
        }
        "arr" => {
            let mut entries = Vec::new();
            for m in d["l"].as_array().unwrap() {
                let v = datum_nodes(m, nodes);
                let mut e = Node::new("tpos");
                e.a = v;
                entries.push(push(nodes, e));
            }
            let mut t = Node::new("table");
            t.l = entries;
            push(nodes, t)
        }
        _ => {
            let mut entries = Vec::new();
            let ks = d["ks"].as_array().unwrap();
            for (i, m) in d["l"].as_array().unwrap().iter().enumerate() {
                let mut k = Node::new("str");
                k.s = ks[i].as_array().unwrap().iter().map(|x| x.as_u64().unwrap() as u8).collect();
                let kid = push(nodes, k);
                let v = datum_nodes(m, nodes);
                let mut e = Node::new("tkey");
                e.a = kid;
                e.b = v;
                entries.push(push(nodes, e));
            }
            let mut t = Node::new("table");
            t.l = entries;
            push(nodes, t)
        }
    }
}
fn datum_program(d: &Value) -> Program {
    let mut nodes = Vec::new();
    let e = datum_nodes(d, &mut nodes);
    let mut r = Node::new("ret");
    r.l = vec![e];
    nodes.push(r);
    let rid = nodes.len();
    let mut b = Node::new("block");
    b.l = vec![rid];
    nodes.push(b);
    let root = nodes.len();
    Program { root, nodes }
}

/// appends `m` to `p` (ids shifted) and returns the shifted root of `m`
fn merge(p: &mut Program, m: &Program) -> usize {
    let off = p.nodes.len();
    for n in &m.nodes {
        let mut n = n.clone();
        if n.a != 0 {
            n.a += off;
        }
        if n.b != 0 {
            n.b += off;
        }
        if (n.k == "if" || n.k == "ifexp") && n.c != 0 {
            n.c += off;
        }
        for x in n.l.iter_mut() {
            *x += off;
        }
        for x in n.m.iter_mut() {
            *x += off;
        }
        p.nodes.push(n);
    }
    m.root + off
}

fn prog_json(p: &Program, req: &[(String, usize)]) -> Value {
    let mut v = p.to_json();
    v["req"] = Value::Array(req.iter().map(|(s, r)| json!({"s": luaparse_latin1(s), "root": r})).collect());
    v
}
fn luaparse_latin1(s: &str) -> String {
    s.bytes().map(|b| b as char).collect()
}

fn config_text(case: &Case, excludes: &[String]) -> String {
    let rc = case.rc();
    let mode = match case.c["mode"].as_str().unwrap_or("path") {
        "luau" => format!("{{ name: 'luau', use_luau_configuration: {} }}", rc),
        _ => format!("{{ name: 'path', use_luau_configuration: {} }}", rc),
    };
    let generator = match case.c["generator"].as_str() {
        Some(g) if g.starts_with('{') => g.to_string(),
        Some(g) => format!("'{}'", g),
        None => "'retain_lines'".to_string(),
    };
    let rules = if case.c["rules"] == json!(1) { DEFAULT_RULES } else { "" };
    let ex = excludes.iter().map(|e| format!("'{}'", e)).collect::<Vec<_>>().join(", ");
    format!("{{ generator: {}, rules: [{}], bundle: {{ require_mode: {}, excludes: [{}] }} }}", generator, rules, mode, ex)
}

/// the first module accessor no longer consults its cache: the body of that module runs once per requirer
fn corrupt_dup_body(text: &str) -> String {
    // turn the cached accessor into an uncached one: `if not v then` -> `if true then`
    if text.contains("if not v then") {
        text.replacen("if not v then", "if true then", 1)
    } else {
        text.to_string()
    }
}

pub fn main(args: &[String]) -> i32 {
    let cases = read_ndjson(arg_value(args, "--cases").expect("--cases"));
    let mut out = Out::new(arg_value(args, "--out"));
    let mut obs = Out::new(arg_value(args, "--obs"));
    let mut status = Out::new(arg_value(args, "--status"));
    let how = arg_value(args, "--corrupt").unwrap_or("");
    let mut seen: HashMap<String, Value> = HashMap::new();
    let mut hung = false;
    for c in &cases {
        let id = c["id"].clone();
        let n = c["n"].as_u64().unwrap() as usize;
        let case = Case { c, n, canon: false };
        let g = json!({"n": n, "kind": c["kind"], "calls": c["calls"].as_array().unwrap().iter().map(|cs| Value::Array(cs.as_array().unwrap().iter().map(|x| json!({"t": x["t"], "lit": x["lit"], "shadow": x["shadow"], "excl": x["excl"]})).collect())).collect::<Vec<_>>()});
        if hung {
            status.emit(&json!({"id": id, "status": "not-run-after-hang", "out": "", "files": {}, "text": ""}));
            continue;
        }
        // ---- files
        let resources = Resources::from_memory();
        let mut files = serde_json::Map::new();
        let mut texts: HashMap<usize, String> = HashMap::new();
        // `override`: {path: text} replaces generated texts (pinned reproducers / probes beyond the generated family)
        let over = |path: &str, text: String| c["override"][path].as_str().map(|s| s.to_string()).unwrap_or(text);
        let entry = over(&case.path(1), entry_text(&case));
        resources.write(case.path(1), &entry).expect("write");
        files.insert(case.path(1), json!(entry));
        texts.insert(1, entry);
        let mut excludes = Vec::new();
        for f in 2..=n {
            if case.excluded(f) {
                excludes.push(case.spelling(1, f, 0));
                if c["sub"] == json!(1) {
                    excludes.push(case.spelling(4, f, 0));
                }
                if case.root() {
                    // `excludes` patterns are matched against the require STRING: the spelling used by the sibling modules too
                    if let Some(g) = (2..=n).find(|g| *g != f) {
                        excludes.push(case.spelling(g, f, 0));
                    }
                }
            }
            let text = match case.kind(f) {
                "missing" => continue,
                "data" => dataconv::render(&data_datum(case.dataext()), case.dataext(), 0).expect("data module renders"),
                _ => module_text(&case, f),
            };
            let text = over(&case.path(f), text);
            resources.write(case.path(f), &text).expect("write");
            files.insert(case.path(f), json!(text));
            texts.insert(f, text);
        }
        excludes.sort();
        excludes.dedup();
        // the separate module served by the run-time require for computed arguments
        let dyn_text = "LOADS.dyn = (LOADS.dyn or 0) + 1\nreturn {name = \"dyn\"}\n";
        resources.write(format!("{}src/dyn.lua", case.prefix()), dyn_text).expect("write");
        // aliases: proj/.luaurc; and a DECOY project (same files, `lib` -> ./decoy, whose modules announce themselves) that is
        // bundled first on the same thread: what a bundling resolves must not depend on what the thread bundled before
        let mut decoy: Option<Resources> = None;
        if case.rc() {
            resources.write("proj/.luaurc", "{ \"aliases\": { \"lib\": \"./src\" } }").expect("write");
            let d = Resources::from_memory();
            for (path, text) in files.iter() {
                let text = text.as_str().unwrap_or("");
                d.write(path, text).expect("write");
                if let Some(rest) = path.strip_prefix("proj/src/") {
                    if path != &case.path(1) {
                        d.write(format!("proj/decoy/{}", rest), &format!("ext1(\"decoy\")\n{}", text)).expect("write");
                    }
                }
            }
            d.write("proj/.luaurc", "{ \"aliases\": { \"lib\": \"./decoy\" } }").expect("write");
            d.write("proj/src/dyn.lua", dyn_text).expect("write");
            decoy = Some(d);
        }
        let cfg_text = config_text(&case, &excludes);
        let config: Configuration = match json5::from_str(&cfg_text) {
            Ok(x) => x,
            Err(e) => {
                eprintln!("bad configuration {}: {}", cfg_text, e);
                return 2;
            }
        };
        drop(config);
        // ---- run the real bundler (in a thread: a hang must not hang the driver)
        let (tx, rx) = mpsc::channel();
        let res2 = resources.clone();
        let cfg2 = cfg_text.clone();
        let rooted = case.root();
        let t0 = Instant::now();
        std::thread::Builder::new()
            .stack_size(256 * 1024 * 1024)
            .spawn(move || {
                if let Some(d) = decoy {
                    let _ = guarded(|| {
                        let config: Configuration = json5::from_str(&cfg2).expect("configuration parsed above");
                        let config = config.with_location("proj");
                        darklua_core::process(&d, Options::new(Path::new("proj/src/main.lua")).with_output("out/out.lua").with_configuration(config)).map(|_| ())
                    });
                }
                let r = guarded(|| {
                    let config: Configuration = json5::from_str(&cfg2).expect("configuration parsed above");
                    let config = config.with_location(if rooted { "" } else { "proj" });
                    darklua_core::process(&res2, Options::new(Path::new(if rooted { "src/main.lua" } else { "proj/src/main.lua" })).with_output("out/out.lua").with_configuration(config))
                        .map(|tree| tree.collect_errors().iter().map(|e| e.to_string()).collect::<Vec<String>>())
                        .map_err(|e| e.to_string())
                });
                let _ = tx.send(r);
            })
            .expect("spawn");
        let r = rx.recv_timeout(Duration::from_secs(20));
        let ms = t0.elapsed().as_millis() as u64;
        let (mut error, mut panic, mut hang, mut text) = (0, 0, 0, String::new());
        match r {
            Err(_) => {
                hang = 1;
                hung = true;
            }
            Ok(Err(p)) => {
                panic = 1;
                text = p;
            }
            Ok(Ok(Err(e))) => {
                error = 1;
                text = e;
            }
            Ok(Ok(Ok(errors))) => {
                if !errors.is_empty() {
                    error = 1;
                    text = errors.join(" | ");
                }
            }
        }
        // which files does the message name: the path of an existing file, the requested string of a missing one
        let mut named = Vec::new();
        for f in 1..=n {
            let last = if case.kind(f) == "missing" { case.stem(f).to_string() } else { case.file_name(f) };
            let hit = if case.dir(f).is_empty() {
                // ROOT layout: the file has no directory; it is named as `a.lua`, `./a.lua` or `../a.lua`
                text.contains(&format!("`{}", last)) || text.contains(&format!("/{}", last))
            } else {
                text.contains(&format!("{}/{}", case.dir(f), last))
            };
            if hit {
                named.push(f);
            }
        }
        let output = if error == 0 && panic == 0 && hang == 0 { resources.get("out/out.lua").ok() } else { None };
        let output = output.map(|t| if how == "dup-body" { corrupt_dup_body(&t) } else { t });
        let ndefs: i64 = match (&output, c["rules"] == json!(1)) {
            // each definition mentions its implementation three times: `local function __modImpl`, `typeof(__modImpl())`, `{c = __modImpl()}`
            (Some(t), false) => (t.matches("__modImpl").count() / 3) as i64,
            _ => -1,
        };
        // binding demonstrations on the error path: pretend the error was not reported / forget one named file
        if how == "hide-error" && error == 1 && named.len() >= 2 {
            error = 0;
        }
        if how == "drop-name" && error == 1 && !named.is_empty() {
            named.remove(0);
        }
        obs.emit(&json!({"id": id, "g": g, "error": error, "named": named, "panic": panic, "hang": hang, "ms": ms, "ndefs": ndefs,
                         "nooutput": if error == 0 && panic == 0 && hang == 0 && output.is_none() { 1 } else { 0 }}));
        let files_v = Value::Object(files);
        let output = match output {
            Some(t) => t,
            None => {
                let st = if hang == 1 { "hang" } else if panic == 1 { "panic" } else if error == 1 { "error" } else { "no-output" };
                status.emit(&json!({"id": id, "status": st, "out": "", "files": files_v, "text": text, "config": cfg_text}));
                continue;
            }
        };
        // ---- program a: the entry with every module appended and the require map known by construction
        let mut a = match luaparse::parse(texts[&1].as_bytes(), Dialect::Luau) {
            Ok(p) => p,
            Err(e) => {
                eprintln!("case {}: the independent parser rejects the generated entry: {:?}", id, e);
                return 2;
            }
        };
        let mut b = match luaparse::parse(output.as_bytes(), Dialect::Luau) {
            Ok(p) => p,
            Err(e) => {
                let own = darklua_core::Parser::default().parse(&output).is_ok();
                status.emit(&json!({"id": id, "status": format!("output-rejected-by-reference-parser: {:?} (darklua's own parser accepts: {})", e, own), "out": output, "files": files_v, "text": "", "config": cfg_text}));
                continue;
            }
        };
        let mut req_a: Vec<(String, usize)> = Vec::new();
        let mut req_b: Vec<(String, usize)> = Vec::new();
        for t in 2..=n {
            if case.kind(t) == "missing" {
                continue;
            }
            let canon_case = Case { c, n, canon: true };
            let canon_text;
            let ref_text: &String = if case.twin().is_some() && t == 3 && !c["override"].is_object() {
                canon_text = module_text(&canon_case, t);
                &canon_text
            } else {
                &texts[&t]
            };
            let mp = if case.kind(t) == "data" {
                datum_program(&data_datum(case.dataext()))
            } else {
                match luaparse::parse(ref_text.as_bytes(), Dialect::Luau) {
                    Ok(p) => p,
                    Err(_) if matches!(case.kind(t), "broken") => continue,
                    Err(e) => {
                        eprintln!("case {}: the independent parser rejects generated module {}: {:?}", id, t, e);
                        return 2;
                    }
                }
            };
            let root_a = merge(&mut a, &mp);
            let root_b = if case.excluded(t) { merge(&mut b, &mp) } else { 0 };
            let mut strings: Vec<String> = Vec::new();
            for f in 1..=n {
                for cl in case.calls(f) {
                    if cl["t"] == json!(t) && cl["lit"] == json!(1) {
                        let s = canon_case.spelling(f, t, cl["sp"].as_u64().unwrap_or(0));
                        if !strings.contains(&s) {
                            strings.push(s);
                        }
                    }
                }
            }
            for s in strings {
                req_a.push((s.clone(), root_a));
                if root_b != 0 {
                    req_b.push((s, root_b));
                }
            }
        }
        let dynp = luaparse::parse(dyn_text.as_bytes(), Dialect::Luau).expect("dyn parses");
        let ra = merge(&mut a, &dynp);
        let rb = merge(&mut b, &dynp);
        req_a.push(("./dyn".into(), ra));
        req_b.push(("./dyn".into(), rb));
        let pa = prog_json(&a, &req_a);
        let pb = prog_json(&b, &req_b);
        let key = format!("{}\u{1}{}", pa, pb);
        if let Some(first) = seen.get(&key) {
            status.emit(&json!({"id": id, "status": "ok", "alias": first, "out": output, "files": files_v, "text": "", "config": cfg_text}));
            continue;
        }
        seen.insert(key, id.clone());
        out.emit(&json!({"id": id, "mode": "equiv", "a": pa, "b": pb, "enva": default_env(), "envb": default_env()}));
        status.emit(&json!({"id": id, "status": "ok", "out": output, "files": files_v, "text": "", "config": cfg_text}));
    }
    out.flush();
    obs.flush();
    status.flush();
    0
}
