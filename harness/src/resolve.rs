//! C15 driver: replays Resolve cases (layout, request, requiring file, mode) into the real bundler
//! and the real convert_require rule, and records what was observed.
//!
//! A case: {id, mode: "path"|"luau", req: "./m", src: "src/main.lua", mfn: "init", fs: ["src/m.lua", ...]}
//! Observation adds: got (path | "!notfound" | "!panic:<msg>" | "!error:<msg>"), and
//! conv: {target, newreq, got2} when the request resolved and a conversion was attempted.
use crate::util::{arg_value, guarded, read_ndjson, Out};
use darklua_core::{Configuration, Options, Resources};
use serde_json::{json, Value};
use std::path::Path;

const PROJ: &str = "proj";

/// `rc` cases: the alias `@pkg` is configured by proj/.luaurc (`use_luau_configuration: true`) instead of the rule / bundle
/// configuration, and every darklua run is preceded -- on the same thread -- by a run over a DECOY project whose `.luaurc`
/// gives `pkg` another target: what a run resolves must not depend on what the thread processed before.
static RC: std::sync::atomic::AtomicBool = std::sync::atomic::AtomicBool::new(false);
fn rc() -> bool {
    RC.load(std::sync::atomic::Ordering::SeqCst)
}

fn mode_config(mode: &str, mfn: &str) -> String {
    if rc() {
        return if mode == "luau" {
            "{ name: 'luau', use_luau_configuration: true }".to_string()
        } else {
            format!("{{ name: 'path', module_folder_name: '{}', use_luau_configuration: true }}", mfn)
        };
    }
    if mode == "luau" {
        "{ name: 'luau', use_luau_configuration: false, aliases: { '@pkg': './lib' } }".to_string()
    } else {
        format!(
            "{{ name: 'path', module_folder_name: '{}', use_luau_configuration: false, sources: {{ '@pkg': './lib' }} }}",
            mfn
        )
    }
}

fn seg_json(name: &str) -> Value {
    // Rust's Path::extension rule: the part after the last dot, unless the name starts with its only dot
    if name == "." || name == ".." {
        return json!({"stem": name, "ext": ""});
    }
    match name.rfind('.') {
        Some(i) if i > 0 => json!({"stem": &name[..i], "ext": &name[i + 1..]}),
        _ => json!({"stem": name, "ext": ""}),
    }
}

pub fn path_segs(p: &str) -> Value {
    if p == "." || p.is_empty() {
        return json!([]);
    }
    Value::Array(p.split('/').filter(|s| !s.is_empty()).map(seg_json).collect())
}

fn setup(fs: &[String], src: &str, entry: &str) -> Resources {
    let resources = Resources::from_memory();
    for f in fs {
        resources
            .write(format!("{}/{}", PROJ, f), &format!("return 'MARK:{}'", f))
            .expect("write memory file");
    }
    resources.write(format!("{}/{}", PROJ, src), entry).expect("write entry");
    if rc() {
        resources.write(format!("{}/.luaurc", PROJ), "{ \"aliases\": { \"pkg\": \"./lib\" } }").expect("write .luaurc");
    }
    resources
}

/// the decoy run of an `rc` case: same requiring file, `pkg` -> ./decoy (which holds a copy of ./lib)
fn decoy_run(fs: &[String], src: &str, entry: &str, cfg_text: &str, prefix: &str) {
    if !rc() {
        return;
    }
    let resources = setup(fs, src, entry);
    for f in fs {
        if let Some(rest) = f.strip_prefix("lib/") {
            resources.write(format!("{}/decoy/{}", PROJ, rest), &format!("return 'MARK:decoy/{}'", rest)).expect("write decoy");
        }
    }
    resources.write(format!("{}/.luaurc", PROJ), "{ \"aliases\": { \"pkg\": \"./decoy\" } }").expect("write .luaurc");
    if let Ok(config) = json5::from_str::<Configuration>(cfg_text) {
        let config = config.with_location(format!("{}{}", prefix, PROJ));
        let input = format!("{}{}/{}", prefix, PROJ, src);
        let _ = guarded(|| {
            darklua_core::process(&resources, Options::new(Path::new(&input)).with_output("out/decoy.lua").with_configuration(config)).map(|_| ())
        });
    }
}

fn classify_error(msg: &str) -> String {
    // the require resolved to a file that exists but cannot be loaded (unknown or missing extension):
    // resolution itself is what C15 is about, so report the resolved path
    if let Some(i) = msg.find("unable to require resource with") {
        if let Some(j) = msg[i..].find(" at `") {
            let rest = &msg[i + j + 5..];
            if let Some(k) = rest.find('`') {
                let p = rest[..k].trim_start_matches("./");
                let p = p.strip_prefix("proj/").unwrap_or(p);
                return format!("?{}", p);
            }
        }
    }
    if msg.contains("unable to find") || msg.contains("not found") || msg.contains("tried `") {
        "!notfound".to_string()
    } else {
        format!("!error:{}", msg.chars().take(200).collect::<String>())
    }
}

/// Bundles `src` under `mode` and reports which file's marker ended up in the bundle.
fn bundle_target(fs: &[String], src: &str, entry: &str, mode: &str, mfn: &str, prefix: &str) -> String {
    let resources = setup(fs, src, entry);
    let cfg_text = format!(
        "{{ generator: 'dense', rules: [], bundle: {{ require_mode: {} }} }}",
        mode_config(mode, mfn)
    );
    decoy_run(fs, src, entry, &cfg_text, prefix);
    let config: Configuration = match json5::from_str(&cfg_text) {
        Ok(c) => c,
        Err(e) => return format!("!config:{}", e),
    };
    let config = config.with_location(format!("{}{}", prefix, PROJ));
    let input = format!("{}{}/{}", prefix, PROJ, src);
    let r = guarded(|| {
        darklua_core::process(
            &resources,
            Options::new(Path::new(&input)).with_output("out/out.lua").with_configuration(config),
        )
    });
    match r {
        Err(p) => format!("!panic:{}", p.chars().take(200).collect::<String>()),
        Ok(Err(e)) => classify_error(&e.to_string()),
        Ok(Ok(tree)) => {
            let errors: Vec<String> = tree.collect_errors().iter().map(|e| e.to_string()).collect();
            if !errors.is_empty() {
                return classify_error(&errors.join(" | "));
            }
            match resources.get("out/out.lua") {
                Ok(text) => match text.find("MARK:") {
                    Some(i) => {
                        let rest = &text[i + 5..];
                        let end = rest.find('\'').or_else(|| rest.find('"')).unwrap_or(rest.len());
                        rest[..end].to_string()
                    }
                    None => format!("!nomarker:{}", text.chars().take(120).collect::<String>()),
                },
                Err(e) => format!("!nooutput:{:?}", e),
            }
        }
    }
}

/// Runs convert_require current -> target on the entry and returns the new require argument.
fn convert(fs: &[String], src: &str, entry: &str, cur: &str, tgt: &str, mfn: &str, prefix: &str) -> Result<String, String> {
    let resources = setup(fs, src, entry);
    let cfg_text = format!(
        "{{ generator: 'dense', rules: [{{ rule: 'convert_require', current: {}, target: {} }}] }}",
        mode_config(cur, mfn),
        mode_config(tgt, mfn)
    );
    decoy_run(fs, src, entry, &cfg_text, prefix);
    let config: Configuration = json5::from_str(&cfg_text).map_err(|e| format!("!config:{}", e))?;
    let config = config.with_location(format!("{}{}", prefix, PROJ));
    let input = format!("{}{}/{}", prefix, PROJ, src);
    let r = guarded(|| {
        darklua_core::process(
            &resources,
            Options::new(Path::new(&input)).with_output("out/conv.lua").with_configuration(config),
        )
    });
    match r {
        Err(p) => Err(format!("!panic:{}", p)),
        Ok(Err(e)) => Err(format!("!error:{}", e)),
        Ok(Ok(tree)) => {
            let errors: Vec<String> = tree.collect_errors().iter().map(|e| e.to_string()).collect();
            if !errors.is_empty() {
                return Err(format!("!error:{}", errors.join(" | ")));
            }
            let text = resources.get("out/conv.lua").map_err(|e| format!("!nooutput:{:?}", e))?;
            // dense output: return require('...')
            let i = text.find("require(").ok_or_else(|| format!("!norequire:{}", text))?;
            let rest = &text[i + 8..];
            let q = rest.chars().next().ok_or("!norequire")?;
            let rest = &rest[1..];
            let end = rest.find(q).ok_or("!norequire")?;
            Ok(rest[..end].to_string())
        }
    }
}

pub fn main(args: &[String]) -> i32 {
    let cases = read_ndjson(arg_value(args, "--cases").expect("--cases"));
    let mut out = Out::new(arg_value(args, "--out"));
    for c in cases {
        let mode = c["mode"].as_str().unwrap();
        let req = c["req"].as_str().unwrap();
        let src = c["src"].as_str().unwrap();
        let mfn = c["mfn"].as_str().unwrap();
        let fs: Vec<String> = c["fs"].as_array().unwrap().iter().map(|v| v.as_str().unwrap().to_string()).collect();
        let entry = format!("return require('{}')", req);
        let prefix = c["prefix"].as_str().unwrap_or("");
        RC.store(c["rc"].as_bool().unwrap_or(false), std::sync::atomic::Ordering::SeqCst);
        let got = bundle_target(&fs, src, &entry, mode, mfn, prefix);
        // "?path": resolved to `path`, which darklua then refused to load (reported as an error value)
        let unloadable = got.starts_with('?');
        let got = got.trim_start_matches('?').to_string();
        let mut obs = json!({
            "id": c["id"], "prefix": prefix, "mode": mode, "req": req, "src": src, "mfn": mfn, "fs": fs,
            "reqp": path_segs(req), "srcp": path_segs(src), "mfnp": seg_json(mfn),
            "fsp": fs.iter().map(|f| path_segs(f)).collect::<Vec<_>>(),
            "got": got, "gotp": if got.starts_with('!') { json!([]) } else { path_segs(&got) },
            "unloadable": unloadable, "rc": c["rc"].as_bool().unwrap_or(false), "conv": 0, "target": "", "newreq": "", "newreqp": [], "got2": "", "got2p": [],
        });
        // the folder name is a parameter of the path mode only (the luau mode is fixed to `init`)
        if !got.starts_with('!') && !unloadable && (mfn == "init" || mode == "path") && c["convert"].as_bool().unwrap_or(true) {
            let tgt = if mode == "path" { "luau" } else { "path" };
            obs["conv"] = json!(1);
            obs["target"] = json!(tgt);
            match convert(&fs, src, &entry, mode, tgt, mfn, prefix) {
                Ok(newreq) => {
                    let entry2 = format!("return require('{}')", newreq);
                    let got2 = bundle_target(&fs, src, &entry2, tgt, mfn, prefix);
                    obs["newreqp"] = path_segs(&newreq);
                    obs["newreq"] = json!(newreq);
                    obs["got2p"] = if got2.starts_with('!') { json!([]) } else { path_segs(&got2) };
                    obs["got2"] = json!(got2);
                }
                Err(e) => {
                    obs["newreq"] = json!(e.clone());
                    obs["got2"] = json!(e);
                }
            }
        }
        out.emit(&obs);
    }
    out.flush();
    0
}
