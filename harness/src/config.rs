//! C19 driver: replays configuration texts (rendered from the abstract texts of spec/darklua/Config.tla)
//! into the real darklua_core: json5::from_str::<Configuration> -> serde_json::to_string -> read again ->
//! serialize again, and runs darklua_core::process over an in-memory probe project once with the original
//! and once with the re-read configuration. Everything goes through public API only; a panic is data.
//!
//! A case: {id, t: {top:[Entry], rules:[{form, entries:[Entry]}], bundle:[Entry]}}   (or {id, text} for raw cases)
//! Entry = {k, ty, v:[string]}, ty in bool|str|num|strs|null|obj|RULES|BUNDLE; an `obj` value is a flat list of
//! (key, type, value) triples with inner types bool|str|num|map|strs (map: "k=v", strs: "a,b").
//! Observation: {id, t, text, accepted, error, text_out, out (text_out decomposed into the same abstract form),
//!   reparsed, reparse_error, out2 (second serialisation decomposed), text_out2_same, ran, same_outputs,
//!   digest, digest2, changed (files whose output differs from the no-rule baseline), panic}
use crate::util::{arg_value, guarded, read_ndjson, Out};
use darklua_core::{Configuration, Options, Resources};
use serde_json::{json, Map, Value};
use std::path::Path;

pub const ENV_DEFINED: &str = "DLV_C19_DEFINED";
pub const ENV_UNDEFINED: &str = "DLV_C19_UNDEFINED";

// ------------------------------------------------------------------------------------------ rendering

fn q(s: &str) -> String {
    let mut o = String::from("'");
    for c in s.chars() {
        match c {
            '\'' => o.push_str("\\'"),
            '\\' => o.push_str("\\\\"),
            '\n' => o.push_str("\\n"),
            _ => o.push(c),
        }
    }
    o.push('\'');
    o
}

fn strs(v: &Value) -> Vec<String> {
    v.as_array().map(|a| a.iter().map(|x| x.as_str().unwrap_or("").to_string()).collect()).unwrap_or_default()
}

fn render_inner(ty: &str, val: &str) -> String {
    match ty {
        "bool" | "num" => val.to_string(),
        "str" => q(val),
        "null" => "null".to_string(),
        "map" => {
            if val.is_empty() {
                "{}".to_string()
            } else {
                let items: Vec<String> = val
                    .split(',')
                    .map(|kv| {
                        let (k, v) = kv.split_once('=').unwrap_or((kv, ""));
                        format!("{}: {}", q(k), q(v))
                    })
                    .collect();
                format!("{{ {} }}", items.join(", "))
            }
        }
        "strs" => {
            if val.is_empty() {
                "[]".to_string()
            } else {
                format!("[{}]", val.split(',').map(q).collect::<Vec<_>>().join(", "))
            }
        }
        _ => format!("'?{}'", ty),
    }
}

fn render_value(e: &Value, t: &Value) -> String {
    let ty = e["ty"].as_str().unwrap_or("");
    let v = strs(&e["v"]);
    match ty {
        "bool" | "num" => v.first().cloned().unwrap_or_default(),
        "str" => q(v.first().map(String::as_str).unwrap_or("")),
        "null" => "null".to_string(),
        "strs" => format!("[{}]", v.iter().map(|s| q(s)).collect::<Vec<_>>().join(", ")),
        "obj" => {
            let items: Vec<String> = v.chunks(3).map(|c| format!("{}: {}", q(&c[0]), render_inner(&c[1], &c[2]))).collect();
            format!("{{ {} }}", items.join(", "))
        }
        "RULES" => {
            let rules: Vec<String> = t["rules"].as_array().map(|a| a.iter().map(|r| render_rule(r, t)).collect()).unwrap_or_default();
            format!("[{}]", rules.join(", "))
        }
        "BUNDLE" => render_entries(&t["bundle"], t),
        _ => format!("'?{}'", ty),
    }
}

fn render_entries(entries: &Value, t: &Value) -> String {
    let items: Vec<String> = entries
        .as_array()
        .map(|a| a.iter().map(|e| format!("{}: {}", q(e["k"].as_str().unwrap_or("")), render_value(e, t))).collect())
        .unwrap_or_default();
    format!("{{ {} }}", items.join(", "))
}

fn render_rule(r: &Value, t: &Value) -> String {
    match r["form"].as_str().unwrap_or("") {
        "object" => render_entries(&r["entries"], t),
        // "string" and "raw": the value of the first entry as it is
        _ => r["entries"].as_array().and_then(|a| a.first()).map(|e| render_value(e, t)).unwrap_or_else(|| "null".into()),
    }
}

pub fn render(t: &Value) -> String {
    render_entries(&t["top"], t)
}

// ------------------------------------------------------------------------------------------ decomposition

fn inner_of(v: &Value) -> (String, String) {
    match v {
        Value::Bool(b) => ("bool".into(), b.to_string()),
        Value::Number(n) => ("num".into(), n.to_string()),
        Value::String(s) => ("str".into(), s.clone()),
        Value::Null => ("null".into(), String::new()),
        Value::Array(a) => ("strs".into(), a.iter().map(|x| x.as_str().map(str::to_string).unwrap_or_else(|| x.to_string())).collect::<Vec<_>>().join(",")),
        Value::Object(m) => {
            let mut kv: Vec<String> = m.iter().map(|(k, x)| format!("{}={}", k, x.as_str().map(str::to_string).unwrap_or_else(|| x.to_string()))).collect();
            kv.sort();
            ("map".into(), kv.join(","))
        }
    }
}

fn entry_of(k: &str, v: &Value) -> Value {
    let (ty, vals): (&str, Vec<String>) = match v {
        Value::Bool(b) => ("bool", vec![b.to_string()]),
        Value::Number(n) => ("num", vec![n.to_string()]),
        Value::String(s) => ("str", vec![s.clone()]),
        Value::Null => ("null", vec![]),
        Value::Array(a) if a.iter().all(Value::is_string) => ("strs", a.iter().map(|x| x.as_str().unwrap().to_string()).collect()),
        Value::Array(a) => ("json", vec![Value::Array(a.clone()).to_string()]),
        Value::Object(m) => {
            let mut out = Vec::new();
            for (ik, iv) in m {
                let (ity, ival) = inner_of(iv);
                out.push(ik.clone());
                out.push(ity);
                out.push(ival);
            }
            ("obj", out)
        }
    };
    json!({"k": k, "ty": ty, "v": vals})
}

fn entries_of(m: &Map<String, Value>) -> Vec<Value> {
    m.iter().map(|(k, v)| entry_of(k, v)).collect()
}

/// JSON text written by darklua -> the abstract text form of Config.tla
pub fn decompose(text: &str) -> Value {
    let v: Value = match serde_json::from_str(text) {
        Ok(v) => v,
        Err(e) => return json!({"top": [{"k": "!notjson", "ty": "str", "v": [e.to_string()]}], "rules": [], "bundle": []}),
    };
    let mut top = Vec::new();
    let mut rules = Vec::new();
    let mut bundle = Vec::new();
    if let Value::Object(m) = &v {
        for (k, val) in m {
            match (k.as_str(), val) {
                ("rules", Value::Array(a)) | ("process", Value::Array(a)) => {
                    top.push(json!({"k": k, "ty": "RULES", "v": []}));
                    for r in a {
                        match r {
                            Value::Object(rm) => rules.push(json!({"form": "object", "entries": entries_of(rm)})),
                            Value::String(_) => rules.push(json!({"form": "string", "entries": [entry_of("rule", r)]})),
                            other => rules.push(json!({"form": "raw", "entries": [entry_of("rule", other)]})),
                        }
                    }
                }
                ("bundle", Value::Object(bm)) => {
                    top.push(json!({"k": k, "ty": "BUNDLE", "v": []}));
                    bundle = entries_of(bm);
                }
                _ => top.push(entry_of(k, val)),
            }
        }
    }
    json!({"top": top, "rules": rules, "bundle": bundle})
}

// ------------------------------------------------------------------------------------------ probe project

/// Every rule, every rule property and every filter is meant to change the output of some probe file.
fn probe_source(marker: &str, requires: &[&str]) -> String {
    let mut s = String::new();
    s.push_str("--!strict\n");
    s.push_str(&format!("-- KEEP {}\n", marker));
    s.push_str("--[[ DROP block ]]\n");
    s.push_str("type T = number\n");
    s.push_str("local t = {}\n");
    s.push_str("local typed: T = 0xFF_FF\n");
    s.push_str("local cfg = CFG\n");
    s.push_str("local cfg2 = CFG2\n");
    s.push_str("do end\n");
    s.push_str("assert(effect(), 'msg')\n");
    s.push_str("debug.profilebegin(label())\n");
    s.push_str("debug.profileend()\n");
    s.push_str("local interp = `v={cfg} {typed}`\n");
    s.push_str("typed += 1\n");
    s.push_str("local floor = typed // 2\n");
    s.push_str("local ifexp = if cfg then 1 else 2\n");
    s.push_str("local root = math.sqrt(typed)\n");
    s.push_str("local field = t['field']\n");
    s.push_str("local sum = 1 + 2\n");
    s.push_str("local nothing = nil\n");
    s.push_str("local unusedvariable = 1\n");
    s.push_str("local g1 = 1\nlocal g2 = 2\n");
    s.push_str("local function helper(argument) return argument end\n");
    s.push_str("function globalfn() return a, zz end\n");
    s.push_str("function t:method() return self end\n");
    s.push_str("t:method()\n");
    s.push_str("print('parens')\n");
    s.push_str("@native\nlocal function attributed() end\n");
    s.push_str("@checked\nlocal function attributed2() end\n");
    s.push_str("while false do effect() end\n");
    s.push_str("if true then effect() else other() end\n");
    s.push_str("for i = 1, 3 do if i == 2 then continue end effect(i) end\n");
    s.push_str("const constant = 1\n");
    for (i, r) in requires.iter().enumerate() {
        s.push_str(&format!("local m{} = require('{}')\n", i, r));
    }
    s.push_str("local function early() do return 1 end effect('unreachable') end\n");
    s.push_str("return { interp, floor, ifexp, root, field, sum, nothing, g1, g2, helper, attributed, attributed2, cfg2, constant, early }\n");
    s
}

pub const PROBE_FILES: [&str; 3] = ["src/a.lua", "src/sub/a.lua", "src/sub/b.lua"];
/// every source of the probe project (the last two are small: they make path and luau resolution differ)
pub const PROBE_SOURCES: [&str; 5] = ["src/a.lua", "src/sub/a.lua", "src/sub/b.lua", "src/sub/init.lua", "src/b.lua"];

fn probe_resources() -> Resources {
    let r = Resources::from_memory();
    // acyclic: a -> sub/a -> sub/b; every probe also requires through the alias `@pkg` (.luaurc: ./lib; sample
    // `sources`: ./lib2) and a module folder (init.lua vs index.lua)
    r.write("src/a.lua", &probe_source("A", &["./sub/a.lua", "@pkg/m", "../lib/folder"])).unwrap();
    r.write("src/sub/a.lua", &probe_source("SA", &["./b.lua", "@pkg/m", "../../lib/folder"])).unwrap();
    r.write("src/sub/b.lua", &probe_source("SB", &["../../lib/m.lua", "@pkg/m", "../../lib/folder"])).unwrap();
    // in path mode `./b.lua` is src/sub/b.lua, in luau mode (init file: relative to the parent) it is src/b.lua
    r.write("src/sub/init.lua", "local m = require('./b.lua')\nreturn m\n").unwrap();
    r.write("src/b.lua", "return 'SRC-B'\n").unwrap();
    r.write("lib/m.lua", "return 'LIB-M'\n").unwrap();
    r.write("lib2/m.lua", "return 'LIB2-M'\n").unwrap();
    r.write("lib/folder/init.lua", "return 'FOLDER-INIT'\n").unwrap();
    r.write("lib/folder/index.lua", "return 'FOLDER-INDEX'\n").unwrap();
    r.write(".luaurc", "{\"aliases\": {\"pkg\": \"./lib\"}}").unwrap();
    r.write("header.txt", "FROM FILE").unwrap();
    r.write("header2.txt", "FROM FILE 2").unwrap();
    r
}

fn fnv(s: &str, h: &mut u64) {
    for b in s.bytes() {
        *h ^= b as u64;
        *h = h.wrapping_mul(0x100000001b3);
    }
}

/// Runs the real pipeline over the probe project; returns (per-file outputs, digest).
fn behaviour(config: Configuration) -> Result<(Vec<String>, String), String> {
    let resources = probe_resources();
    let config = config.with_location(".");
    let r = guarded(|| darklua_core::process(&resources, Options::new(Path::new("src")).with_output("out").with_configuration(config)));
    let mut outs = Vec::new();
    match r {
        Err(p) => return Err(format!("!panic:{}", p.chars().take(300).collect::<String>())),
        Ok(Err(e)) => outs.push(format!("!error:{}", e)),
        Ok(Ok(tree)) => {
            let mut errors: Vec<String> = tree.collect_errors().iter().map(|e| e.to_string()).collect();
            errors.sort();
            for f in PROBE_SOURCES {
                let o = f.replacen("src/", "out/", 1);
                outs.push(resources.get(&o).unwrap_or_else(|_| "!missing".to_string()));
            }
            outs.push(errors.join(" | "));
        }
    }
    let mut h: u64 = 0xcbf29ce484222325;
    for o in &outs {
        fnv(o, &mut h);
        fnv("\u{1}", &mut h);
    }
    Ok((outs, format!("{:016x}", h)))
}

thread_local! {
    static BASELINE: std::cell::RefCell<Option<Vec<String>>> = const { std::cell::RefCell::new(None) };
}

fn baseline() -> Vec<String> {
    BASELINE.with(|b| {
        if b.borrow().is_none() {
            let c: Configuration = json5::from_str("{ rules: [] }").expect("baseline configuration");
            let (outs, _) = behaviour(c).expect("baseline run");
            *b.borrow_mut() = Some(outs);
        }
        b.borrow().clone().unwrap()
    })
}

fn parse(text: &str) -> Result<Result<Configuration, String>, String> {
    guarded(|| json5::from_str::<Configuration>(text).map_err(|e| e.to_string()))
}

pub fn observe(id: &Value, t: &Value, text: &str, with_outputs: bool) -> Value {
    let mut o = json!({
        "id": id, "t": t, "text": text, "accepted": false, "error": "", "text_out": "", "out": {"top": [], "rules": [], "bundle": []},
        "reparsed": false, "reparse_error": "", "out2": {"top": [], "rules": [], "bundle": []}, "text_out2_same": false,
        "ran": false, "same_outputs": false, "digest": "", "digest2": "", "changed": [], "panic": "",
    });
    let c1 = match parse(text) {
        Err(p) => {
            o["panic"] = json!(format!("parse: {}", p));
            return o;
        }
        Ok(Err(e)) => {
            o["error"] = json!(e.chars().take(300).collect::<String>());
            return o;
        }
        Ok(Ok(c)) => c,
    };
    o["accepted"] = json!(true);
    let text_out = match guarded(|| serde_json::to_string(&c1).map_err(|e| e.to_string())) {
        Err(p) => {
            o["panic"] = json!(format!("serialize: {}", p));
            return o;
        }
        Ok(Err(e)) => {
            o["panic"] = json!(format!("serialize error: {}", e));
            return o;
        }
        Ok(Ok(s)) => s,
    };
    o["out"] = decompose(&text_out);
    o["text_out"] = json!(text_out);
    let c2 = match parse(&text_out) {
        Err(p) => {
            o["panic"] = json!(format!("reparse: {}", p));
            None
        }
        Ok(Err(e)) => {
            o["reparse_error"] = json!(e.chars().take(300).collect::<String>());
            None
        }
        Ok(Ok(c)) => Some(c),
    };
    if let Some(c2) = &c2 {
        o["reparsed"] = json!(true);
        if let Ok(Ok(t2)) = guarded(|| serde_json::to_string(c2).map_err(|e| e.to_string())) {
            o["text_out2_same"] = json!(t2 == text_out);
            o["out2"] = decompose(&t2);
        }
    }
    // behaviour under the original configuration and under the re-read one
    match behaviour(c1) {
        Err(p) => o["panic"] = json!(format!("process: {}", p)),
        Ok((outs, d)) => {
            o["ran"] = json!(true);
            o["digest"] = json!(d);
            let base = baseline();
            let changed: Vec<&str> = PROBE_FILES.iter().enumerate().filter(|(i, _)| outs.get(*i) != base.get(*i)).map(|(_, f)| *f).collect();
            o["changed"] = json!(changed);
            if with_outputs {
                o["outputs"] = json!(outs);
            }
            if let Some(c2) = c2 {
                match behaviour(c2) {
                    Err(p) => o["panic"] = json!(format!("process(reread): {}", p)),
                    Ok((outs2, d2)) => {
                        o["digest2"] = json!(d2);
                        o["same_outputs"] = json!(outs == outs2);
                    }
                }
            }
        }
    }
    o
}

pub fn main(args: &[String]) -> i32 {
    // SAFETY: single-threaded at this point
    unsafe {
        std::env::set_var(ENV_DEFINED, "true");
        std::env::remove_var(ENV_UNDEFINED);
    }
    let cases = read_ndjson(arg_value(args, "--cases").expect("--cases"));
    let mut out = Out::new(arg_value(args, "--out"));
    let with_outputs = args.iter().any(|a| a == "--outputs");
    for c in cases {
        let text = match c.get("text").and_then(Value::as_str) {
            Some(t) => t.to_string(),
            None => render(&c["t"]),
        };
        let t = c.get("t").cloned().unwrap_or_else(|| json!({"top": [], "rules": [], "bundle": []}));
        let mut o = observe(&c["id"], &t, &text, with_outputs);
        if let Some(tag) = c.get("tag") {
            o["tag"] = tag.clone();
        }
        out.emit(&o);
    }
    out.flush();
    0
}
