use serde_json::Value;
use std::io::{BufRead, BufReader, Write};
use std::panic::{catch_unwind, AssertUnwindSafe};

static LAST_PANIC_LOCATION_ANY_THREAD: std::sync::Mutex<String> = std::sync::Mutex::new(String::new());
thread_local! {
    static LAST_PANIC_LOCATION: std::cell::RefCell<String> = std::cell::RefCell::new(String::new());
}

/// The hook prints nothing but remembers WHERE the panic was raised (crate-relative file and line):
/// a known finding is identified by its call site, not only by its message.
pub fn install_quiet_panic_hook() {
    std::panic::set_hook(Box::new(|info| {
        let loc = info
            .location()
            .map(|l| {
                let f = l.file();
                // .../registry/src/<index>/<crate-version>/src/... -> <crate-version>/src/...
                let f = match f.find("/registry/src/") {
                    Some(k) => f[k + 14..].splitn(2, '/').nth(1).unwrap_or(f).to_string(),
                    None => f.trim_start_matches("/repo/").to_string(),
                };
                format!("{}:{}", f, l.line())
            })
            .unwrap_or_default();
        if let Ok(mut g) = LAST_PANIC_LOCATION_ANY_THREAD.lock() {
            *g = loc.clone();
        }
        LAST_PANIC_LOCATION.with(|c| *c.borrow_mut() = loc);
    }));
}

/// Location of the last panic raised on this thread ("" if none was recorded).
pub fn last_panic_location() -> String {
    let here = LAST_PANIC_LOCATION.with(|c| c.borrow().clone());
    if !here.is_empty() {
        return here;
    }
    // the panic was raised on a thread of the code under test
    LAST_PANIC_LOCATION_ANY_THREAD.lock().map(|g| g.clone()).unwrap_or_default()
}

/// Runs `f`, turning a panic into `Err(message)`: a panic in the code under test is data.
pub fn guarded<T>(f: impl FnOnce() -> T) -> Result<T, String> {
    match catch_unwind(AssertUnwindSafe(f)) {
        Ok(v) => Ok(v),
        Err(e) => {
            let msg = if let Some(s) = e.downcast_ref::<&str>() {
                s.to_string()
            } else if let Some(s) = e.downcast_ref::<String>() {
                s.clone()
            } else {
                "panic".to_string()
            };
            Err(msg)
        }
    }
}

pub fn read_ndjson(path: &str) -> Vec<Value> {
    let f = std::fs::File::open(path).unwrap_or_else(|e| {
        eprintln!("cannot open {}: {}", path, e);
        std::process::exit(2)
    });
    BufReader::new(f)
        .lines()
        .map(|l| l.expect("read line"))
        .filter(|l| !l.trim().is_empty())
        .map(|l| serde_json::from_str(&l).unwrap_or_else(|e| {
            eprintln!("bad json line: {} ({})", l, e);
            std::process::exit(2)
        }))
        .collect()
}

pub struct Out {
    w: std::io::BufWriter<Box<dyn Write>>,
}

impl Out {
    pub fn new(path: Option<&str>) -> Self {
        let w: Box<dyn Write> = match path {
            Some(p) => Box::new(std::fs::File::create(p).expect("create output")),
            None => Box::new(std::io::stdout()),
        };
        Out { w: std::io::BufWriter::new(w) }
    }
    pub fn emit(&mut self, v: &Value) {
        // serde_json escapes control characters; non-ASCII is escaped by `ascii` below
        let s = serde_json::to_string(v).expect("serialize");
        let s = ascii(&s);
        self.w.write_all(s.as_bytes()).unwrap();
        self.w.write_all(b"\n").unwrap();
    }
    pub fn flush(&mut self) {
        self.w.flush().unwrap();
    }
}

/// JSON text with every non-ASCII character written as \uXXXX (TLC's Json reader is charset-sensitive).
pub fn ascii(s: &str) -> String {
    let mut o = String::with_capacity(s.len());
    for c in s.chars() {
        if (c as u32) < 0x80 {
            o.push(c);
        } else {
            let mut b = [0u16; 2];
            for u in c.encode_utf16(&mut b) {
                o.push_str(&format!("\\u{:04x}", u));
            }
        }
    }
    o
}

pub fn arg_value<'a>(args: &'a [String], name: &str) -> Option<&'a str> {
    args.iter().position(|a| a == name).and_then(|i| args.get(i + 1)).map(String::as_str)
}
