//! Static-evaluator driver (C08). For every expression text enumerated by spec/mc/MC_Evaluator.tla:
//!
//! 1. `return <expr>` is parsed by darklua's own parser and the expression is handed to the real
//!    `darklua_core::process::Evaluator`: `evaluate`, `has_side_effects`, `can_return_multiple_values`
//!    of the default evaluator, and `has_side_effects` of `assume_pure_metamethods()`, are recorded.
//!    The same expression is parsed by the INDEPENDENT parser (luaparse) and both trees must have
//!    the same structure (otherwise the case is reported with a status, never judged).
//! 2. `return <expr>` goes end-to-end through `darklua_core::process` with the rule
//!    `compute_expression` (retain_lines); the output text is recorded (`fold`).
//! 3. Two TEMPLATE programs are written (original `a`, folded `b`) in which every opaque name is
//!    declared with ALL values of the concretisation universe (spec/darklua/Evaluator.tla prints it);
//!    the trace specification spec/trace/EvalTrace.tla instantiates them per concretisation
//!    (Evaluator!Concretise) and executes them with the TLA+ semantics of Lua. The list of
//!    concretisations to run (`rhos`) is the full product when it has at most `--cap` elements,
//!    else a seeded sample of `--cap`.
//!
//! case in : {expr, depth, shape, ux, uy, uv}
//! --out   : EvalTrace cases {id, expr, depth, shape, nx, va, same, a, b, rhos, ans:{vt,hi,lo,s,se,multi,pse}, fold}
//! --status: one line per case {id, expr, status, ...} (status != "ok" => not in --out)
use crate::astjson::{flatten_expression, same_structure, CompareOptions};
use crate::text::run_text;
use crate::util::{arg_value, guarded, read_ndjson, Out};
use darklua_core::nodes::{Expression, LastStatement};
use darklua_core::process::{Evaluator, LuaValue};
use luaparse::json::{hi_lo, latin1};
use luaparse::Dialect;
use serde_json::{json, Value};

fn darklua_expression(code: &str) -> Result<Expression, String> {
    let block = guarded(|| darklua_core::Parser::default().parse(code))
        .map_err(|p| format!("darklua-parser-panic:{}", p))?
        .map_err(|e| format!("darklua-parse-error:{}", e))?;
    match block.get_last_statement() {
        Some(LastStatement::Return(r)) if r.len() == 1 && block.statements_len() == 0 => {
            Ok(r.iter_expressions().next().unwrap().clone())
        }
        _ => Err("darklua-parse-shape: not a single return".to_string()),
    }
}

/// Trigger of the open finding F-C01-a, evaluated on the INPUT expression with the real evaluator: walking down the
/// right spine of and/or nodes whose left operand has statically known truthiness selecting the right operand, a call
/// or `...` is reached (compute_expression replaces the whole node by that multi-value expression).
fn andor_multi_tail(ev: &Evaluator, e: &Expression) -> bool {
    use darklua_core::nodes::BinaryOperator;
    if let Expression::Binary(b) = e {
        let selects_right = match (b.operator(), ev.evaluate(b.left()).is_truthy()) {
            (BinaryOperator::And, Some(true)) | (BinaryOperator::Or, Some(false)) => true,
            _ => false,
        };
        if selects_right {
            return match b.right() {
                Expression::Call(_) | Expression::VariableArguments(_) => true,
                r => andor_multi_tail(ev, r),
            };
        }
    }
    false
}

fn value_json(v: &LuaValue) -> Value {
    let (vt, hi, lo, s) = match v {
        LuaValue::Nil => ("nil", 0, 0, String::new()),
        LuaValue::True => ("true", 0, 0, String::new()),
        LuaValue::False => ("false", 0, 0, String::new()),
        LuaValue::Number(x) => {
            let (hi, lo) = hi_lo(*x);
            ("num", hi, lo, String::new())
        }
        LuaValue::String(b) => ("str", 0, 0, latin1(b)),
        LuaValue::Table => ("table", 0, 0, String::new()),
        LuaValue::Function => ("function", 0, 0, String::new()),
        LuaValue::Unknown => ("unknown", 0, 0, String::new()),
    };
    json!({"vt": vt, "hi": hi, "lo": lo, "s": s})
}

struct SplitMix(u64);
impl SplitMix {
    fn next(&mut self) -> u64 {
        self.0 = self.0.wrapping_add(0x9e3779b97f4a7c15);
        let mut z = self.0;
        z = (z ^ (z >> 30)).wrapping_mul(0xbf58476d1ce4e5b9);
        z = (z ^ (z >> 27)).wrapping_mul(0x94d049bb133111eb);
        z ^ (z >> 31)
    }
}

fn hash_str(s: &str) -> u64 {
    let mut h: u64 = 0xcbf29ce484222325;
    for b in s.bytes() {
        h ^= b as u64;
        h = h.wrapping_mul(0x100000001b3);
    }
    h
}

/// the concretisations to run: full product if small enough, else a seeded sample without repetition
fn rhos(nx: usize, va: bool, nu: usize, nv: usize, cap: usize, seed: u64, expr: &str) -> (Vec<[usize; 3]>, usize) {
    let mut all: Vec<[usize; 3]> = Vec::new();
    let r1: Vec<usize> = if nx >= 1 { (1..=nu).collect() } else { vec![0] };
    let r2: Vec<usize> = if nx >= 2 { (1..=nu).collect() } else { vec![0] };
    let r3: Vec<usize> = if va { (1..=nv).collect() } else { vec![0] };
    for &a in &r1 {
        for &b in &r2 {
            for &c in &r3 {
                all.push([a, b, c]);
            }
        }
    }
    let total = all.len();
    if total <= cap {
        return (all, total);
    }
    let mut rng = SplitMix(seed ^ hash_str(expr));
    // partial Fisher-Yates
    for i in 0..cap {
        let j = i + (rng.next() % (total - i) as u64) as usize;
        all.swap(i, j);
    }
    all.truncate(cap);
    all.sort();
    (all, total)
}

fn template(names: &[&str], universe: &[String], vararg: &str, va: bool, ret_stmt: &str) -> String {
    let mut s = String::new();
    if !names.is_empty() {
        s.push_str(&format!("local {} = {}\n", names.join(", "), universe.join(", ")));
    }
    if va {
        s.push_str(&format!("local function f(...)\n{}\nend\nreturn f({})\n", ret_stmt, vararg));
    } else {
        s.push_str(ret_stmt);
        s.push('\n');
    }
    s
}

/// the shape Evaluator!TemplateOk requires (checked here too: a mismatch is a tool error, not a verdict)
fn template_ok(p: &luaparse::Program, nx: usize, va: bool, nu: usize) -> bool {
    let blk = match p.node(p.root) {
        Some(b) if b.k == "block" => b,
        _ => return false,
    };
    let want = (if nx > 0 { 1 } else { 0 }) + (if va { 2 } else { 1 });
    if blk.l.len() != want {
        return false;
    }
    if nx > 0 {
        match p.node(blk.l[0]) {
            Some(l) if l.k == "local" && l.ns.len() == nx && l.l.len() == nu => {}
            _ => return false,
        }
    }
    match p.node(*blk.l.last().unwrap()) {
        Some(r) if r.k == "ret" && r.l.len() == 1 => {
            if va {
                matches!(p.node(r.l[0]), Some(c) if c.k == "call" && c.l.len() == 3)
            } else {
                true
            }
        }
        _ => false,
    }
}

fn uses(p: &luaparse::Program) -> (bool, bool, bool) {
    let (mut x, mut y, mut v) = (false, false, false);
    for n in &p.nodes {
        if n.k == "var" && n.s == b"x" {
            x = true;
        }
        if n.k == "var" && n.s == b"y" {
            y = true;
        }
        if n.k == "vararg" {
            v = true;
        }
    }
    (x, y, v)
}

pub fn main(args: &[String]) -> i32 {
    let cases = read_ndjson(arg_value(args, "--cases").expect("--cases"));
    let uni: Value = serde_json::from_str(&std::fs::read_to_string(arg_value(args, "--universe").expect("--universe")).expect("read universe"))
        .expect("universe json");
    let universe: Vec<String> = uni["values"].as_array().expect("values").iter().map(|v| v["t"].as_str().unwrap().to_string()).collect();
    let vararg = uni["vararg"].as_str().expect("vararg").to_string();
    let nchoices = uni["choices"].as_u64().expect("choices") as usize;
    let cap: usize = arg_value(args, "--cap").map(|s| s.parse().expect("--cap")).unwrap_or(200);
    let seed: u64 = arg_value(args, "--seed").map(|s| s.parse().expect("--seed")).unwrap_or(1);
    let mut out = Out::new(arg_value(args, "--out"));
    let mut status = Out::new(arg_value(args, "--status"));
    let empty_prog = json!({"root": 0, "nodes": []});
    let opts = CompareOptions { ignore_num_spelling: true, transparent_parens: false, ignore_const: false };
    for (k, c) in cases.iter().enumerate() {
        let expr = c["expr"].as_str().expect("expr");
        let id = match c["id"].as_str() {
            Some(s) => s.to_string(),
            None => format!("e{}", k + 1),
        };
        let code = format!("return {}\n", expr);
        let mut fail = |st: String| status.emit(&json!({"id": id, "expr": expr, "status": st}));
        // ---- the independent parser's reading of the expression
        let reference = match luaparse::parse(code.as_bytes(), Dialect::Luau) {
            Ok(p) => p,
            Err(e) => {
                fail(format!("input-rejected-by-reference-parser: {:?}", e));
                continue;
            }
        };
        let (ux, uy, uv) = uses(&reference);
        if c["ux"].is_number() && (c["ux"] != json!(ux as u8) || c["uy"] != json!(uy as u8) || c["uv"] != json!(uv as u8)) {
            fail("opaque-name-flags-disagree-with-the-specification".to_string());
            continue;
        }
        // ---- the real evaluator
        let e = match darklua_expression(&code) {
            Ok(e) => e,
            Err(s) => {
                fail(s);
                continue;
            }
        };
        if let Err(d) = same_structure(&flatten_expression(&e), &reference, opts) {
            fail(format!("parsers-disagree: {}", d));
            continue;
        }
        let answers = guarded(|| {
            let ev = Evaluator::default();
            let pure = Evaluator::default().assume_pure_metamethods();
            (ev.evaluate(&e), ev.has_side_effects(&e), ev.can_return_multiple_values(&e), pure.evaluate(&e), pure.has_side_effects(&e), pure.can_return_multiple_values(&e))
        });
        let (value, se, multi, pvalue, pse, pmulti) = match answers {
            Ok(a) => a,
            Err(p) => {
                fail(format!("evaluator-panic:{}", p));
                continue;
            }
        };
        let mut ans = value_json(&value);
        ans["se"] = json!(se as u8);
        ans["multi"] = json!(multi as u8);
        ans["pse"] = json!(pse as u8);
        // evaluate / can_return_multiple_values do not depend on the metamethod assumption: recorded when they do
        let tail = andor_multi_tail(&Evaluator::default(), &e);
        let pure_differs = value_json(&pvalue) != value_json(&value) || pmulti != multi;
        // ---- end to end through the rule
        let fold = match run_text(&code, "['compute_expression']", "'retain_lines'") {
            Ok(t) => t,
            Err(s) => {
                fail(format!("compute_expression-failed: {}", s));
                continue;
            }
        };
        let fold_stmt = fold.trim().to_string();
        let same = fold_stmt == code.trim();
        // ---- templates
        let mut names: Vec<&str> = Vec::new();
        if ux {
            names.push("x");
        }
        if uy {
            names.push("y");
        }
        let nx = names.len();
        let ta = template(&names, &universe, &vararg, uv, code.trim());
        let pa = match luaparse::parse(ta.as_bytes(), Dialect::Luau) {
            Ok(p) if template_ok(&p, nx, uv, universe.len()) => p,
            _ => {
                fail("template-malformed".to_string());
                continue;
            }
        };
        let pb = if same {
            empty_prog.clone()
        } else {
            if !fold_stmt.starts_with("return") {
                fail(format!("fold-output-shape: {}", fold_stmt.chars().take(120).collect::<String>()));
                continue;
            }
            let tb = template(&names, &universe, &vararg, uv, &fold_stmt);
            match luaparse::parse(tb.as_bytes(), Dialect::Luau) {
                Ok(p) if template_ok(&p, nx, uv, universe.len()) => p.to_json(),
                Ok(_) => {
                    fail("fold-template-malformed".to_string());
                    continue;
                }
                Err(e) => {
                    fail(format!("output-rejected-by-reference-parser: {:?}: {}", e, fold_stmt.chars().take(120).collect::<String>()));
                    continue;
                }
            }
        };
        let (rl, total) = rhos(nx, uv, universe.len(), nchoices, cap, seed, expr);
        out.emit(&json!({
            "id": id, "expr": expr, "depth": c["depth"].as_i64().unwrap_or(-1), "shape": c["shape"].as_str().unwrap_or(""),
            "nx": nx, "va": uv as u8, "same": same as u8, "a": pa.to_json(), "b": pb,
            "rhos": rl.iter().map(|r| json!([r[0], r[1], r[2]])).collect::<Vec<_>>(),
            "ans": ans, "fold": fold_stmt,
        }));
        status.emit(&json!({"id": id, "expr": expr, "status": "ok", "ans": ans, "fold": fold_stmt, "same": same as u8,
                            "nrho": rl.len(), "nrho_total": total, "andor_multi_tail": tail as u8, "names": names, "va": uv as u8, "pure_differs": pure_differs as u8}));
    }
    out.flush();
    status.flush();
    0
}
