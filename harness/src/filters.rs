//! C20 driver (under construction)
pub fn main(_args: &[String]) -> i32 {
    2
}
