//! C20 driver: replays Filters cases (a tree of Lua files, apply/skip pattern lists at the top level and on each rule
//! of a three-rule pipeline) into the real darklua_core::process over in-memory resources with an output directory.
//!
//! The pipeline is remove_comments, inject_global_value(CFG -> true), remove_empty_do; every file contains a comment
//! marker, a read of CFG and an empty `do end`, so that each rule's effect is independently observable.
//!
//! A case: {id, files:[{s, segs}], top:{apply:{form, pats:[{s, segs}]}, skip:{..}}, rules:[{apply, skip} x3]}
//! Observation (the case echoed, plus per file):
//!   out      output text under the configuration of the case ("!missing" when nothing was written)
//!   outdel   [3] output text under the same configuration with rule k DELETED from the pipeline
//!   ref      [8] output text of the UNFILTERED pipeline made of the rules in mask m (bit k-1 = rule k), index m+1
//! and errors/panic of the filtered run.
use crate::util::{arg_value, guarded, read_ndjson, Out};
use darklua_core::{Configuration, Options, Resources};
use serde_json::{json, Value};
use std::path::Path;

fn q(s: &str) -> String {
    format!("'{}'", s.replace('\\', "\\\\").replace('\'', "\\'"))
}

fn list_text(key: &str, l: &Value) -> String {
    let pats: Vec<String> = l["pats"].as_array().map(|a| a.iter().map(|p| q(p["s"].as_str().unwrap_or(""))).collect()).unwrap_or_default();
    match l["form"].as_str().unwrap_or("none") {
        "one" => format!(", {}: {}", key, pats.first().cloned().unwrap_or_else(|| "''".into())),
        "many" => format!(", {}: [{}]", key, pats.join(", ")),
        _ => String::new(),
    }
}

fn filters_text(fp: &Value) -> String {
    format!("{}{}", list_text("apply_to_files", &fp["apply"]), list_text("skip_files", &fp["skip"]))
}

const RULE_HEADS: [&str; 3] = [
    "rule: 'remove_comments'",
    "rule: 'inject_global_value', identifier: 'CFG', value: true",
    "rule: 'remove_empty_do'",
];

/// configuration text: the rules in `mask` (bit k = rule k+1), with the filters of the case when `filtered`
pub fn config_text(case: &Value, mask: u8, filtered: bool) -> String {
    let mut rules = Vec::new();
    for k in 0..3 {
        if mask & (1 << k) != 0 {
            let f = if filtered { filters_text(&case["rules"][k]) } else { String::new() };
            rules.push(format!("{{ {}{} }}", RULE_HEADS[k], f));
        }
    }
    let top = if filtered { filters_text(&case["top"]) } else { String::new() };
    format!("{{ rules: [{}]{} }}", rules.join(", "), top)
}

pub fn source_text(path: &str) -> String {
    format!("-- C:{}\nlocal v = CFG\ndo end\nreturn v, '{}'\n", path, path)
}

struct Run {
    outs: Vec<String>,
    errors: String,
    panic: String,
}

/// `inp`: how the input location is spelled (MC_Filters!InputForms); the single-file forms need a one-file tree
fn locations(files: &[String], inp: &str) -> (String, String) {
    let mirrored = |f: &str| f.replacen("src/", "out/", 1);
    match inp {
        "dotdir" => ("./src".to_string(), "./out".to_string()),
        "file" if files.len() == 1 => (files[0].clone(), mirrored(&files[0])),
        "dotfile" if files.len() == 1 => (format!("./{}", files[0]), mirrored(&files[0])),
        "dslashfile" if files.len() == 1 => (files[0].replacen("src/", "src//", 1), mirrored(&files[0])),
        "updownfile" if files.len() == 1 => (files[0].replacen("src/", "src/x/../", 1), mirrored(&files[0])),
        _ => ("src".to_string(), "out".to_string()),
    }
}

fn run(files: &[String], cfg_text: &str, inp: &str) -> Run {
    let resources = Resources::from_memory();
    for f in files {
        resources.write(f, &source_text(f)).expect("write source");
    }
    let config: Configuration = match json5::from_str(cfg_text) {
        Ok(c) => c,
        Err(e) => return Run { outs: files.iter().map(|_| "!config".to_string()).collect(), errors: format!("!config:{}", e), panic: String::new() },
    };
    let (input, output) = locations(files, inp);
    let r = guarded(|| darklua_core::process(&resources, Options::new(Path::new(&input)).with_output(&output).with_configuration(config)));
    let mut errors = String::new();
    let mut panic = String::new();
    match r {
        Err(p) => panic = p.chars().take(300).collect(),
        Ok(Err(e)) => errors = format!("!error:{}", e),
        Ok(Ok(tree)) => {
            let mut es: Vec<String> = tree.collect_errors().iter().map(|e| e.to_string()).collect();
            es.sort();
            errors = es.join(" | ");
        }
    }
    let outs = files
        .iter()
        .map(|f| resources.get(f.replacen("src/", "out/", 1)).unwrap_or_else(|_| "!missing".to_string()))
        .collect();
    Run { outs, errors, panic }
}

pub fn main(args: &[String]) -> i32 {
    let cases = read_ndjson(arg_value(args, "--cases").expect("--cases"));
    let mut out = Out::new(arg_value(args, "--out"));
    // reference outputs depend on the tree only: cache them per tree
    let mut ref_cache: std::collections::HashMap<String, Vec<Run>> = std::collections::HashMap::new();
    for c in cases {
        let files: Vec<String> = c["files"].as_array().unwrap().iter().map(|f| f["s"].as_str().unwrap().to_string()).collect();
        let key = files.join("|");
        if !ref_cache.contains_key(&key) {
            let runs: Vec<Run> = (0u8..8).map(|m| run(&files, &config_text(&c, m, false), "dir")).collect();
            ref_cache.insert(key.clone(), runs);
        }
        let text = config_text(&c, 7, true);
        let inp = c["inp"].as_str().unwrap_or("dir");
        let main_run = run(&files, &text, inp);
        let del: Vec<Run> = (0..3).map(|k| run(&files, &config_text(&c, 7 & !(1u8 << k), true), inp)).collect();
        let refs = &ref_cache[&key];
        let mut fobs = Vec::new();
        for (i, f) in c["files"].as_array().unwrap().iter().enumerate() {
            fobs.push(json!({
                "s": f["s"], "segs": f["segs"],
                "src": source_text(&files[i]),
                "out": main_run.outs[i],
                "outdel": del.iter().map(|r| r.outs[i].clone()).collect::<Vec<_>>(),
                "ref": refs.iter().map(|r| r.outs[i].clone()).collect::<Vec<_>>(),
            }));
        }
        let ref_errors: Vec<String> = refs.iter().map(|r| format!("{}{}", r.errors, r.panic)).filter(|s| !s.is_empty()).collect();
        let del_errors: Vec<String> = del.iter().map(|r| format!("{}{}", r.errors, r.panic)).filter(|s| !s.is_empty()).collect();
        out.emit(&json!({
            "id": c["id"], "fam": c["fam"], "text": text, "top": c["top"], "rules": c["rules"], "files": fobs,
            "errors": main_run.errors, "panic": main_run.panic, "ref_errors": ref_errors.join(" | "), "del_errors": del_errors.join(" | "),
        }));
    }
    out.flush();
    0
}
