"""C08 -- static evaluation never disagrees with real execution.

G: TLC enumerates the expression language of the property as text (spec/darklua/Evaluator.tla via spec/mc/MC_Evaluator):
   every leaf of the alphabet, every operator over per-class leaf sets (depth 1), operators over a pool of depth-1
   operands (depth 2), selected depth-3 shapes; plus the concretisation universe of opaque leaves. Seeded random deeper
   expressions and the reproducers of the known findings are added.
R: `dlv evaluator` asks the REAL darklua_core::process::Evaluator for (value, side effects, multiple values) of each
   expression (default evaluator and assume_pure_metamethods), runs `return <e>` through the rule compute_expression, and
   writes template programs (original and folded) read by the independent parser.
V: TLC (spec/trace/EvalTrace.tla, which EXTENDS the TLA+ semantics spec/lua/LuaSem.tla) instantiates the templates for
   every concretisation (Evaluator!Concretise), executes them and judges per clause (Evaluator!ClauseV/S/M, fold):
   one VERDICT line per expression."""
import json, os, random, time
import vlib
from vlib import Report, tlc, tlc_ok, dlv, write_ndjson, read_ndjson, log

PID = "C08"
CLAUSES = {"v": "value", "s": "side_effects", "m": "multi", "p": "pure_side_effects", "f": "fold"}

# expressions behind findings that were fixed in /repo (regression set: a recurrence is a VIOLATION) and a few
# spellings outside the enumerated alphabet
REGRESSION = [
    "1e-17 == 0", "0.1 + 0.2 == 0.3", "1/0 == 1/0", "-1/0 == -1/0", "1/0 ~= 1/0", "1e-17 ~= 0", "2^53 == 2^53 + 1",
    "`{ x }`", "`a{ x }b`", "`{ x.k }`", "`{ {} }`",
    "0/0 .. ''", "-(0/0) .. ''", "'x' .. 0/0 .. 'y'", "(0/0 .. '') == 'NaN'", "#(0/0 .. '')",
    "0xff + 0", "'0x' .. 1", "1e400", "-1e400 .. ''", "2^53 .. ''", "2^31 .. ''", "100 / 2 .. ''",
    "true and x()", "false or ...", "(true and x())", "nil and x()", "x and x()",
]

_LEAVES = ["nil", "true", "false", "0", "(-0)", "1", "(-1)", "0.5", "2", "3", "1e308", "5e-324", "0.1", "1e15", "1e-7", "255",
           "(1/0)", "(-1/0)", "(0/0)", '""', '"a"', '"1"', '" 2 "', '"0x10"', '"1e1"', '"abc"', '"\\255"', '"-1"', '".5"',
           "{}", "{1}", "function() end", "x", "y", "x.k", "x[1]", "x()", "x:m()", "..."]
_BINOPS = ["+", "-", "*", "/", "%", "^", "//", "..", "==", "~=", "<", "<=", ">", ">=", "and", "or"]


def random_expr(rng, depth):
    """text usable as an operand (composites in parentheses)"""
    if depth == 0 or rng.random() < 0.2:
        return rng.choice(_LEAVES)
    k = rng.random()
    if k < 0.55:
        return "(%s %s %s)" % (random_expr(rng, depth - 1), rng.choice(_BINOPS), random_expr(rng, depth - 1))
    if k < 0.70:
        op = rng.choice(["-", "not ", "#"])
        return "(%s%s)" % (op, random_expr(rng, depth - 1))
    if k < 0.80:
        return "(if %s then %s else %s)" % (random_expr(rng, depth - 1), random_expr(rng, depth - 1), random_expr(rng, depth - 1))
    if k < 0.88:
        return "`a{ %s }{ %s }`" % (random_expr(rng, depth - 1), random_expr(rng, depth - 1))
    if k < 0.94:
        return "(%s :: any)" % random_expr(rng, depth - 1)
    return "(%s)" % random_expr(rng, depth - 1)


def enumerate_cases(tier):
    r = tlc("mc/MC_Evaluator", workers=4, timeout=1800, env={"TIER": tier}, xmx="8g")
    tlc_ok(r, "MC_Evaluator(%s)" % tier)
    uni = r.tagged("UNIVERSE")
    cases = r.tagged("CASE")
    if len(uni) != 1 or not cases or uni[0]["n"] != len(cases):
        raise vlib.ToolError("MC_Evaluator emitted %d universe lines and %d of %s cases" % (len(uni), len(cases), uni[0]["n"] if uni else "?"))
    return uni[0], cases, r


def observe_and_judge(wd, label, cases, uni, cap, chunk=3000, workers=12, override=None):
    """R + V. Returns (verdicts by id, case records by id (without programs), status rows, states, transitions)."""
    cp = os.path.join(wd, "%s-cases.ndjson" % label)
    up = os.path.join(wd, "%s-universe.json" % label)
    ep = os.path.join(wd, "%s-eval.ndjson" % label)
    sp = os.path.join(wd, "%s-status.ndjson" % label)
    write_ndjson(cp, cases)
    with open(up, "w") as f:
        json.dump(uni, f)
    dlv(["evaluator", "--cases", cp, "--universe", up, "--out", ep, "--status", sp, "--cap", cap, "--seed", vlib.seed()], timeout=3600)
    status = read_ndjson(sp)
    verdicts, recs = {}, {}
    states = gen = 0
    part_lines, k = [], 0

    def flush():
        nonlocal part_lines, k, states, gen
        if not part_lines:
            return
        part = os.path.join(wd, "%s-chunk%d.ndjson" % (label, k))
        with open(part, "w") as f:
            f.write("\n".join(part_lines) + "\n")
        r = tlc("trace/EvalTrace", workers=workers, timeout=7200, env={"CASES": part}, xmx="10g", metaname="EvalTrace")
        tlc_ok(r, "EvalTrace(%s chunk %d)" % (label, k))
        vs = r.tagged("VERDICT")
        if len(vs) != len(part_lines):
            raise vlib.ToolError("EvalTrace reported %d of %d expressions (%s chunk %d)" % (len(vs), len(part_lines), label, k))
        for v in vs:
            if v["wf"] != 1:
                raise vlib.ToolError("EvalTrace: malformed template for %s" % v["id"])
            verdicts[v["id"]] = v
        states += r.distinct
        gen += r.generated
        os.remove(part)
        part_lines = []
        k += 1

    with open(ep) as f:
        for ln in f:
            ln = ln.strip()
            if not ln:
                continue
            c = json.loads(ln)
            if override and c["id"] in override:
                c["ans"].update(override[c["id"]])
                ln = json.dumps(c, separators=(",", ":"), ensure_ascii=True)
            recs[c["id"]] = {x: c[x] for x in ("id", "expr", "depth", "shape", "nx", "va", "same", "ans", "fold", "rhos")}
            recs[c["id"]]["nrho"] = len(c["rhos"])
            del recs[c["id"]]["rhos"]
            part_lines.append(ln)
            if len(part_lines) >= chunk:
                flush()
    flush()
    os.remove(ep)
    return verdicts, recs, status, states, gen


def spell_rho(uni, names, va, rho):
    """the first violating concretisation, readable"""
    vals = [u["t"] for u in uni["values"]]
    out = ["%s = %s" % (n, vals[rho[j] - 1]) for j, n in enumerate(names)]
    if va:
        out.append("... = (%s)" % ["", "nil", "1, 2"][rho[2] - 1])
    return ", ".join(out)


def fold_diff(o):
    """what differs between the run of the original (a) and of the folded text (b) at the first violating concretisation"""
    if o["bst"] != "done":
        return "status:" + o["bst"]
    if o["nlog"] != o["bnlog"]:
        return "log"
    a, b = o["ret"], o["bret"]
    if len(a) != len(b):
        first_a = a[0] if a else {"t": "nil", "hi": 0, "lo": 0, "s": "", "sh": []}
        first_b = b[0] if b else {"t": "nil", "hi": 0, "lo": 0, "s": "", "sh": []}
        return "count_only" if first_a == first_b else "count_and_value"
    return "value" if a != b else "log"


def classify(rep, uni, recs, status_by, verdicts, counters):
    for cid, v in verdicts.items():
        rec = recs[cid]
        st = status_by[cid]
        for x, kind in CLAUSES.items():
            counters[kind][v[x]] = counters[kind].get(v[x], 0) + 1
            if v[x] != "viol":
                continue
            o = v["obs"][x]
            nan_concat = o["hit"] > 0
            sig = {"kind": kind, "expr": rec["expr"], "shape": rec["shape"], "depth": rec["depth"], "answer": rec["ans"]["vt"],
                   "trigger_nan_concat": nan_concat,
                   # every violating run stops violating when NaN is spelled the way darklua spells it
                   "nan_spelling_explains": nan_concat and v["expl"][x] == v["viol"][x]}
            if kind == "fold":
                fd = fold_diff(o)
                sig["culprit"] = "compute_expression"
                sig["fold_diff"] = fd
                # F-C01-a as seen from here: the trigger holds on the input AND the only difference is the number of values
                sig["trigger_andor_multi"] = bool(st.get("andor_multi_tail")) and fd == "count_only"
            payload = {"id": cid, "expr": rec["expr"], "clause": kind, "ans": rec["ans"], "fold": rec["fold"],
                       "rho": v["rho"][x], "rho_spelled": spell_rho(uni, st["names"], st["va"], v["rho"][x]), "observed": o, "violating_runs": v["viol"][x], "agreeing_runs": v["ok"][x]}
            rep.violation(sig, payload)


def floors(tier, counters, nexpr, nruns):
    q = tier == "quick"
    need = {"expressions": (nexpr, 5000 if q else 60000), "runs": (nruns, 40000 if q else 600000),
            "value ok": (counters["value"].get("ok", 0), 1500 if q else 15000),
            "side_effects ok": (counters["side_effects"].get("ok", 0), 1500 if q else 15000),
            "multi ok": (counters["multi"].get("ok", 0), 1000 if q else 8000),
            "fold ok": (counters["fold"].get("ok", 0), 1500 if q else 15000)}
    for what, (got, floor) in need.items():
        if got < floor:
            raise vlib.ToolError("vacuity floor: %s = %d < %d" % (what, got, floor))


def run(tier):
    rep = Report(PID, tier, "model_checking")
    rng = random.Random(vlib.seed())
    uni, enum, g = enumerate_cases(tier)
    seen, cases = set(), []
    for c in enum:
        if c["expr"] in seen:
            continue
        seen.add(c["expr"])
        c = dict(c)
        c["id"] = "e%d" % (len(cases) + 1)
        cases.append(c)
    nenum = len(cases)
    nrand = 400 if tier == "quick" else 6000
    nr = 0
    while nr < nrand:
        e = random_expr(rng, rng.randint(2, 4))
        if e.startswith("(") and e.endswith(")") and rng.random() < 0.5:
            e2 = e[1:-1]
            # only strip when the outer parentheses belong together
            d, okp = 0, True
            for ch in e2:
                d += ch == "("
                d -= ch == ")"
                if d < 0:
                    okp = False
                    break
            if okp and d == 0:
                e = e2
        if e in seen:
            continue
        seen.add(e)
        nr += 1
        cases.append({"id": "r%d" % nr, "expr": e, "depth": 4, "shape": "random"})
    for k, e in enumerate(REGRESSION):
        if e not in seen:
            seen.add(e)
            cases.append({"id": "reg%d" % k, "expr": e, "depth": 9, "shape": "regression"})
    pinned = {}
    for r in vlib.pinned_reproducers(PID):
        if "expr" in r:
            pinned[r["id"]] = r["expr"]
            cases.append({"id": r["id"], "expr": r["expr"], "depth": 9, "shape": "pinned"})
    cap = 200
    t0 = time.time()
    verdicts, recs, status, states, gen = observe_and_judge(rep.wd, "main", cases, uni, cap)
    log("judged %d expressions in %.0fs" % (len(verdicts), time.time() - t0))
    status_by = {s["id"]: s for s in status}
    bad = [s for s in status if s["status"] != "ok"]
    # darklua read a string literal as OTHER BYTES than the independent Lua lexer: the evaluator hands out the literal's value
    # as it was read, so the definite value it assigns is not the value execution builds (a verdict, not a tool problem)
    misread = [s for s in bad if s["status"].startswith("parsers-disagree") and ": str.s " in s["status"]]
    for s in misread:
        rep.violation({"kind": "literal-misread", "expr": s["expr"], "detail": s["status"][:200]}, {"id": s["id"], "expr": s["expr"], "status": s["status"]})
    bad = [s for s in bad if s not in misread]
    badkinds = {}
    for s in bad:
        kk = s["status"].split(":")[0]
        badkinds[kk] = badkinds.get(kk, 0) + 1
    if len(bad) > 0.02 * len(cases):
        raise vlib.ToolError("%d of %d expressions could not be observed: %s" % (len(bad), len(cases), badkinds))
    if any(s["id"].startswith(("e", "kf-", "reg")) for s in bad):
        first = [s for s in bad if s["id"].startswith(("e", "kf-", "reg"))][0]
        raise vlib.ToolError("enumerated expression could not be observed: %r: %s" % (first["expr"], first["status"]))
    counters = {k: {} for k in CLAUSES.values()}
    classify(rep, uni, recs, status_by, verdicts, counters)
    nruns = sum(v["nrun"] for v in verdicts.values())
    floors(tier, counters, len(verdicts), nruns)
    not_reproduced = [pid for pid in pinned if not any(verdicts[pid][x] == "viol" for x in CLAUSES)] if pinned else []
    whys = {}
    for v in verdicts.values():
        for w in v["whys"]:
            whys[w] = whys.get(w, 0) + 1
    shapes = {}
    for r in recs.values():
        shapes[r["shape"]] = shapes.get(r["shape"], 0) + 1
    ans_kinds = {}
    for r in recs.values():
        ans_kinds[r["ans"]["vt"]] = ans_kinds.get(r["ans"]["vt"], 0) + 1
    sample_ids = [cases[0]["id"], cases[nenum // 2]["id"], cases[nenum - 1]["id"]]
    rep.coverage.update({
        "states": states + g.distinct, "transitions": gen + g.generated,
        "traces_validated_against_impl": nruns,
        "exhaustive": True,
        "exhaustive_note": "every expression of Evaluator!AllCases(%s) is observed and judged; every concretisation of its opaque names is run when there are at most %d (else a seeded sample of %d)" % (tier, cap, cap),
        "expressions": len(verdicts), "enumerated_expressions": nenum, "random_expressions": nr, "regression_expressions": len(REGRESSION),
        "by_shape": shapes, "answers": ans_kinds,
        "per_clause": counters,
        "decided": {k: counters[k].get("ok", 0) + counters[k].get("viol", 0) for k in counters},
        "undecided": {k: counters[k].get("undecided", 0) for k in counters},
        "machine_runs": sum(v["njobs"] for v in verdicts.values()), "machine_steps": sum(v["steps"] for v in verdicts.values()),
        "runs_done": sum(v["ndone"] for v in verdicts.values()), "runs_error": sum(v["nerror"] for v in verdicts.values()),
        "runs_unspec": sum(v["nunspec"] for v in verdicts.values()), "runs_fuel": sum(v["nfuel"] for v in verdicts.values()),
        "expressions_formatting_nan_in_concat": sum(1 for v in verdicts.values() if v["nnan"] > 0),
        "unspec_reasons": whys, "unobservable": badkinds,
        "pinned_not_reproduced": not_reproduced,
        "samples": [{"expr": recs[i]["expr"], "answer": recs[i]["ans"], "fold": recs[i]["fold"],
                     "verdict": {x: verdicts[i][x] for x in CLAUSES}, "runs": verdicts[i]["nrun"]} for i in sample_ids if i in recs],
    })
    rep.assumptions += [
        "oracle: spec/lua/LuaSem.tla (Lua 5.1 /\\ Luau; 300 litmus programs); runs ending in error / unspec / fuel impose nothing",
        "opaque identifiers are locals holding one of the 13 universe values (Evaluator!Universe); `...` is (), (nil) or (1, 2); reading an identifier is pure (no metatable on the environment); the string metatable is the standard one",
        "a value 'table' / 'function' of the evaluator is judged as a type claim",
        "NaN converted to a string in `..` is continued under both spellings nan / -nan: violated only if violated under both (no reference implementation prints NaN)",
        "number formatting outside the range on which Lua 5.1 and Luau agree is unspec (undecided), e.g. 1e15 .. ''",
        "assume_pure_metamethods() is judged for side effects only, on concretisations without metatables",
        "fold clause: `return <e>` through compute_expression (retain_lines) must behave like the original under every concretisation",
    ]
    return rep.finish()


def replay(path, tier):
    """Re-observes the expression of a replay file on the current code and judges it again. With "use_recorded": true in
    the case, the recorded answer (`ans`) replaces the observed one (used to demonstrate that TLC rejects a wrong answer)."""
    rep = Report(PID, tier, "model_checking")
    with open(path) as f:
        c = json.load(f)["case"]
    uni, _, g = enumerate_cases("quick")
    case = {"id": "replay", "expr": c["expr"], "depth": 9, "shape": "replay"}
    override = {"replay": {k: c["ans"][k] for k in ("vt", "hi", "lo", "s", "se", "multi", "pse") if k in c["ans"]}} if c.get("use_recorded") else None
    verdicts, recs, status, states, gen = observe_and_judge(rep.wd, "replay", [case], uni, 600, override=override)
    status_by = {s["id"]: s for s in status}
    rst = status_by["replay"]["status"]
    if rst.startswith("parsers-disagree") and ": str.s " in rst:
        rep.violation({"kind": "literal-misread", "expr": c["expr"], "detail": rst[:200]}, {"id": "replay", "expr": c["expr"], "status": rst})
        rep.coverage.update({"expressions": 1, "traces_validated_against_impl": 0, "states": states, "transitions": gen})
        return rep.finish()
    if rst != "ok":
        raise vlib.ToolError("replay expression could not be observed: %s" % rst)
    counters = {k: {} for k in CLAUSES.values()}
    classify(rep, uni, recs, status_by, verdicts, counters)
    v = verdicts["replay"]
    log("replay: answer %s; verdict %s; runs %d (done %d)" % (json.dumps(recs["replay"]["ans"]), {x: v[x] for x in CLAUSES}, v["nrun"], v["ndone"]))
    rep.coverage.update({"expressions": 1, "traces_validated_against_impl": v["nrun"], "per_clause": counters, "states": states, "transitions": gen,
                         "samples": [{"expr": c["expr"], "answer": recs["replay"]["ans"], "verdict": {x: v[x] for x in CLAUSES}}]})
    return rep.finish()
