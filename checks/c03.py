"""C03 -- retain_lines with no rules reproduces the source byte for byte.

G: TLC enumerates spec/darklua/Trivia.tla: template programs covering every token kind x every gap x every trivia
   kind (one trivia; two in the same gap; two in adjacent gaps; end-of-file variants).
R: dlv text runs every rendered source through darklua_core::process with an empty rule list and retain_lines,
   plus the repository's own Lua corpus.
V: TLC (TextTrace, kind `identity`) judges out = in byte for byte."""
import glob, json, os, random, re
import vlib
from vlib import Report
from text_common import trivia_cases, run_and_judge, text_of, only_bracket_spaces, rejudge_without_ellipsis_trivia

PID = "C03"


def corpus_cases():
    rows = []
    files = sorted(glob.glob("/repo/tests/test_cases/**/*.lua", recursive=True) + glob.glob("/repo/tests/test_cases/**/*.luau", recursive=True)
                   + glob.glob("/repo/tests/fuzzed_test_cases/*.lua") + glob.glob("/repo/bench_content/**/*.lua", recursive=True))
    for p in files:
        try:
            src = open(p, encoding="utf-8").read()
        except (UnicodeDecodeError, OSError):
            continue
        if len(src) > 60000:
            continue
        rows.append({"id": "corpus:" + os.path.relpath(p, "/repo"), "src": src, "kind": "identity", "rules": "[]"})
    return rows


def has_type_syntax(src):
    # the byte-for-byte clause is claimed for inputs without Luau type syntax only
    import re
    return re.search(r"(^|\s)(export\s+)?type\s+\w+\s*(<[^>]*>)?\s*=|:\s*\w+[\w.<>{}?|&, ]*\s*[=,)]|::|->", src) is not None


def judge_all(rep, cases, label):
    obs, verdicts, res = run_and_judge(rep.wd, label, cases)
    nonparse = 0
    failing = [cid for cid, v in verdicts.items() if not v["ok"] and not obs[cid]["status"].startswith("parse_error")]
    ellipsis = rejudge_without_ellipsis_trivia(rep.wd, label, obs, failing)      # finding F-C03-f, decided by the same TLC judge
    for cid, v in verdicts.items():
        o = obs[cid]
        if o["status"].startswith("parse_error"):
            nonparse += 1            # "every input that parses": outside the property
            continue
        if v["ok"]:
            continue
        src, out = text_of(o["srcb"]), text_of(o["outb"])
        if cid.startswith("corpus:") and has_type_syntax(src):
            continue                 # inputs with type syntax: only the weaker clause is claimed; not judged here
        k = next((n for n in range(min(len(src), len(out))) if src[n] != out[n]), min(len(src), len(out)))
        sig = {"kind": "identity", "status": o["status"][:80],
               "cause": "method-type-instantiation-dropped" if o["status"] == "ok" and out == re.sub(r"(:\s*\w+)\s*<<.*?>>", r"\1", src) and out != src
                        else "const-surplus-values-throwaway" if o["status"] == "ok" and "____darklua_throwaway_var" not in src
                             and re.sub(r"\s", "", out.replace("____darklua_throwaway_var", "")).replace(",=", "=") == re.sub(r"\s", "", src)
                        else "space-between-close-brackets" if o["status"] == "ok" and only_bracket_spaces(src, out)
                        else "trivia-after-type-pack-ellipsis" if cid in ellipsis else "other",
               "first_difference_at": k, "src_excerpt": src[max(0, k - 30):k + 30], "out_excerpt": out[max(0, k - 30):k + 30]}
        rep.violation(sig, {k2: o[k2] for k2 in o if k2 not in ("srcb", "outb")} | {"src": src})
    return res, len(verdicts), nonparse


def run(tier):
    rep = Report(PID, tier, "exploration")
    rng = random.Random(vlib.seed())
    modes = ["single", "eof"] if tier == "quick" else ["single", "eof", "same", "adjacent"]
    cases, st, gen = trivia_cases(modes)
    if tier == "quick":
        # pairs of trivia: one placement in 97 (the residue class is drawn from the seed)
        extra, st2, gen2 = trivia_cases(["same", "adjacent"], stride=97, offset=rng.randrange(97))
        cases += extra
        st += st2
        gen += gen2
    for k, c in enumerate(cases):
        c["id"] = "t%d" % k
        c["kind"] = "identity"
        c["rules"] = "[]"
    corpus = corpus_cases()
    # pinned reproducers of recorded findings (open: expected to fail in the recorded way; fixed: regression inputs)
    pinned = [dict(r, kind="identity", rules="[]") for r in vlib.pinned_reproducers(PID) if r.get("kind", "identity") == "identity"]
    res, n, nonparse = judge_all(rep, cases + corpus + pinned, "identity")
    if nonparse > len(cases) // 50:
        raise vlib.ToolError("%d of %d generated sources did not parse: templates or darklua's parser changed" % (nonparse, n))
    distinct = len(set(c["src"] for c in cases + corpus))
    rep.coverage.update({
        "evaluations": n, "distinct_nontrivial": distinct,
        "rule": "every rendered trivia placement (TLC enumeration of Trivia.tla: template x gap x trivia kind%s) and every Lua file of the repository's own test corpus; distinct = distinct source texts; all are non-trivial (each contains at least one statement and one trivia variation)" % ("" if tier == "thorough" else "; pairs of trivia sampled"),
        "samples": [cases[3]["src"][:300], cases[len(cases) // 2]["src"][:300], corpus[0]["id"] if corpus else ""],
        "exhaustive": tier == "thorough",
        "states": st + res.distinct, "transitions": gen + res.generated,
        "generated_sources": len(cases), "corpus_files": len(corpus), "sources_that_do_not_parse": nonparse,
        "modes": modes,
    })
    rep.assumptions += ["inputs with Luau type syntax are judged by the byte-for-byte clause only when they come from the generated templates (which contain none); corpus files with type syntax are skipped",
                        "sources are UTF-8 (darklua's resource API takes strings)"]
    return rep.finish()


def replay(path, tier):
    rep = Report(PID, tier, "exploration")
    with open(path) as f:
        c = json.load(f)["case"]
    case = {"id": c.get("id", "replay"), "src": c["src"], "kind": "identity", "rules": "[]", "tspans": c.get("tspans", [])}
    res, n, _ = judge_all(rep, [case], "replay")
    rep.coverage.update({"evaluations": 1, "distinct_nontrivial": 2, "rule": "replay of one case (and its pair)", "samples": [case["src"][:300]]})
    return rep.finish()
