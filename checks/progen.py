"""Seeded random generator of closed, terminating Lua programs for the meaning-preservation checks.
Every intermediate value is reported to an external function (ext1), so behaviour = the log of external calls.
Loosely typed to keep run-time errors rare; an original that errors or reaches unspecified behaviour is discarded
by the TLA+ semantics anyway (never a verdict)."""
import random


class Gen:
    def __init__(self, rng, luau=False, max_stmts=14):
        self.r = rng
        self.luau = luau
        self.scopes = [[]]          # lists of (name, type)
        self.n = 0
        self.budget = max_stmts
        self.fdepth = 0
        self.loop = 0
        self.vararg = [True]        # main body runs inside a vararg function

    # ---- names
    def fresh(self):
        self.n += 1
        base = self.r.choice(["a", "b", "c", "v", "x", "k"])
        # deliberate shadowing: reuse a visible name now and then
        if self.r.random() < 0.25:
            vis = [n for s in self.scopes for (n, _) in s]
            if vis:
                return self.r.choice(vis)
        return "%s%d" % (base, self.n)

    def declare(self, name, ty):
        self.scopes[-1].append((name, ty))

    def visible(self, ty=None):
        seen = {}
        for s in self.scopes:
            for (n, t) in s:
                seen[n] = t
        return [n for n, t in seen.items() if ty is None or t == ty]

    # ---- expressions
    def num(self, d=0):
        r = self.r
        c = r.random()
        vs = self.visible("num")
        if d > 2 or c < 0.3:
            return r.choice(["0", "1", "2", "3", "10", "0.5", "7"])
        if c < 0.5 and vs:
            return r.choice(vs)
        if c < 0.8:
            return "%s %s %s" % (self.num(d + 1), r.choice(["+", "-", "*"]), self.num(d + 1))
        if c < 0.85:
            return "(%s)" % self.num(d + 1)
        if c < 0.9:
            return "#%s" % self.str_(d + 1)
        if c < 0.95:
            return "-%s" % self.num(d + 2)
        return "ext1()"

    def str_(self, d=0):
        r = self.r
        c = r.random()
        vs = self.visible("str")
        if d > 2 or c < 0.4:
            return r.choice(['"a"', '"b"', "'s'", '""', '"x y"'])
        if c < 0.6 and vs:
            return r.choice(vs)
        if c < 0.9:
            return "%s .. %s" % (self.str_(d + 1), r.choice([self.str_(d + 1), self.r.choice(["1", "2", "10"])]))
        return "(%s)" % self.str_(d + 1)

    def bool_(self, d=0):
        r = self.r
        c = r.random()
        if d > 2 or c < 0.25:
            return r.choice(["true", "false"])
        if c < 0.5:
            return "%s %s %s" % (self.num(d + 1), r.choice(["==", "~=", "<", "<=", ">", ">="]), self.num(d + 1))
        if c < 0.6:
            return "%s == %s" % (self.str_(d + 1), self.str_(d + 1))
        if c < 0.7:
            return "not %s" % self.any_(d + 1)
        if c < 0.85:
            return "%s %s %s" % (self.bool_(d + 1), r.choice(["and", "or"]), self.bool_(d + 1))
        vs = self.visible("bool")
        return r.choice(vs) if vs else "extf()"

    def tab(self, d=0):
        r = self.r
        vs = self.visible("tab")
        if vs and r.random() < 0.6:
            return r.choice(vs)
        items = []
        for _ in range(r.randint(0, 3)):
            c = r.random()
            if c < 0.5:
                items.append(self.any_(d + 1))
            elif c < 0.8:
                items.append("%s = %s" % (r.choice(["k", "x", "y"]), self.any_(d + 1)))
            else:
                items.append("[%s] = %s" % (r.choice(['"k"', "1", '"a b"']), self.any_(d + 1)))
        return "{" + ", ".join(items) + "}"

    def call(self, d=0):
        r = self.r
        fs = self.visible("fn")
        c = r.random()
        args = ", ".join(self.any_(d + 1) for _ in range(r.randint(0, 3)))
        if fs and c < 0.5:
            return "%s(%s)" % (r.choice(fs), args)
        if c < 0.7:
            return "%s(%s)" % (r.choice(["ext1", "ext2", "ext0", "extn"]), args)
        if c < 0.8 and self.vararg[-1]:
            return "select('#', ...)"
        ts = self.visible("obj")
        if ts and c < 0.95:
            return "%s:m(%s)" % (r.choice(ts), args)
        return "two()"

    def any_(self, d=0):
        r = self.r
        c = r.random()
        if d > 3:
            return r.choice(["nil", "1", '"s"', "true"])
        if c < 0.3:
            return self.num(d)
        if c < 0.45:
            return self.str_(d)
        if c < 0.6:
            return self.bool_(d)
        if c < 0.68:
            return "nil"
        if c < 0.78:
            return self.call(d)
        if c < 0.83:
            return "(%s)" % self.call(d)
        if c < 0.88 and self.vararg[-1]:
            return r.choice(["...", "(...)"])
        if c < 0.93:
            t = self.tab(d)
            return "%s.%s" % (t if not t.startswith("{") else "(" + t + ")", r.choice(["k", "x"]))
        if c < 0.97:
            return "%s %s %s" % (self.any_(d + 1), r.choice(["and", "or"]), self.any_(d + 1))
        if self.luau:
            return "if %s then %s else %s" % (self.bool_(d + 1), self.any_(d + 1), self.any_(d + 1))
        return self.tab(d)

    def report(self):
        vs = self.visible()
        pick = self.r.sample(vs, min(len(vs), self.r.randint(1, 3))) if vs else []
        args = [v for v in pick] + [self.any_(1)]
        return "ext1(%s)" % ", ".join(args)

    # ---- statements
    def block(self, ind, n):
        self.scopes.append([])
        out = []
        for _ in range(n):
            if self.budget <= 0:
                break
            out += self.stmt(ind)
        self.scopes.pop()
        return out

    def stmt(self, ind):
        r = self.r
        self.budget -= 1
        p = "  " * ind
        c = r.random()
        if c < 0.22:
            ty = r.choice(["num", "num", "str", "bool", "any", "tab"])
            e = {"num": self.num, "str": self.str_, "bool": self.bool_, "any": self.any_, "tab": self.tab}[ty]()
            name = self.fresh()
            line = "%slocal %s = %s" % (p, name, e)
            if r.random() < 0.15:
                n2 = self.fresh()
                line = "%slocal %s, %s = %s" % (p, name, n2, r.choice([self.call(), e + ", " + self.any_()]))
                self.declare(name, "any")
                self.declare(n2, "any")
            else:
                self.declare(name, ty if ty != "any" else "any")
            return [line]
        if c < 0.34:
            return [p + self.report()]
        if c < 0.42:
            vs = self.visible("num")
            if vs:
                v = r.choice(vs)
                if self.luau and r.random() < 0.5:
                    return ["%s%s %s= %s" % (p, v, r.choice(["+", "-", "*"]), self.num())]
                return ["%s%s = %s" % (p, v, self.num())]
            return [p + self.report()]
        if c < 0.54:
            out = ["%sif %s then" % (p, self.bool_())]
            out += self.block(ind + 1, r.randint(1, 2))
            if r.random() < 0.4:
                out.append("%selseif %s then" % (p, self.bool_()))
                out += self.block(ind + 1, 1)
            if r.random() < 0.5:
                out.append(p + "else")
                out += self.block(ind + 1, r.randint(1, 2))
            out.append(p + "end")
            return out
        if c < 0.62:
            i = self.fresh()
            out = ["%sfor %s = %s, %s do" % (p, i, r.choice(["1", "0", "2"]), r.choice(["2", "3", "1"]))]
            self.scopes.append([(i, "num")])
            self.loop += 1
            body = self.block(ind + 1, r.randint(1, 3))
            if r.random() < 0.3:
                body.insert(0, "%s  if %s == 2 then %s end" % (p, i, "continue" if self.luau and r.random() < 0.6 else "break"))
            self.loop -= 1
            self.scopes.pop()
            return out + body + [p + "end"]
        if c < 0.67:
            k = self.fresh()
            out = ["%slocal %s = 0" % (p, k), "%swhile %s < 3 do" % (p, k), "%s  %s = %s + 1" % (p, k, k)]
            self.declare(k, "num")
            self.loop += 1
            out += self.block(ind + 1, r.randint(1, 2))
            self.loop -= 1
            return out + [p + "end"]
        if c < 0.71:
            k = self.fresh()
            out = ["%slocal %s = 0" % (p, k), p + "repeat", "%s  %s = %s + 1" % (p, k, k)]
            self.declare(k, "num")
            self.scopes.append([])
            inner = self.fresh()
            out.append("%s  local %s = %s" % (p, inner, k))
            self.declare(inner, "num")
            for _ in range(r.randint(0, 2)):
                if self.budget > 0:
                    out += self.stmt(ind + 1)
            out.append("%suntil %s >= 2" % (p, inner))
            self.scopes.pop()
            return out
        if c < 0.76:
            return [p + "do"] + self.block(ind + 1, r.randint(1, 3)) + [p + "end"]
        if c < 0.88 and self.fdepth < 2:
            f = self.fresh()
            params = [self.fresh() for _ in range(r.randint(0, 2))]
            va = r.random() < 0.4
            sig = ", ".join(params + (["..."] if va else []))
            local_fn = r.random() < 0.6
            self.declare(f, "fn")
            out = ["%slocal function %s(%s)" % (p, f, sig)] if local_fn else ["%slocal %s = function(%s)" % (p, f, sig)]
            self.scopes.append([(q, "any") for q in params])
            self.fdepth += 1
            self.vararg.append(va)
            saved = self.loop
            self.loop = 0
            out += self.block(ind + 1, r.randint(1, 3))
            rets = [self.any_() for _ in range(r.randint(0, 2))]
            if va and r.random() < 0.5:
                rets.append("...")
            out.append("%s  return %s" % (p, ", ".join(rets)))
            self.loop = saved
            self.vararg.pop()
            self.fdepth -= 1
            self.scopes.pop()
            out.append(p + "end")
            return out
        if c < 0.93:
            o = self.fresh()
            self.declare(o, "obj")
            return ["%slocal %s = {v = %s}" % (p, o, self.num()),
                    "%sfunction %s:m(q) return self.v, q end" % (p, o)]
        if c < 0.97:
            t = self.fresh()
            self.declare(t, "loud")
            op = r.choice(["%s + 1", "%s .. 'z'", "%s.k", "%s == %s", "-%s", "%s(1)", "%s < %s"])
            e = op.replace("%s", t)
            return ["%slocal %s = extt()" % (p, t), "%sext1(%s)" % (p, e)]
        return [p + self.report()]


def program(rng, luau=False, max_stmts=14):
    g = Gen(rng, luau, max_stmts)
    lines = ["local function two() return 1, 2 end", "local function va(...)"]
    g.scopes.append([])
    while g.budget > 0:
        lines += g.stmt(1)
    lines.append("  return %s" % ", ".join(g.any_() for _ in range(rng.randint(0, 2))))
    lines.append("end")
    lines.append("return va(ext2())")
    return "\n".join(lines) + "\n"
