"""C18 -- comment and whitespace rules never touch code.

G: TLC enumerates (a) the trivia placements of Trivia.tla (comments in every trivia position) and (b) all comment
   texts of MC_Comments (length <= 3 over ] [ = - LF CR x, plus structured ones), model-checking the
   comment-safety theorem of CommentText.tla (transcription of append_text_comment's comment builder) at design level.
R: dlv text runs remove_comments (with and without `except`), remove_spaces and append_text_comment (start / end)
   through the real darklua.
V: TLC (TextTrace + reference lexer LuaLex) judges: identical code-token stream; exactly the selected comments
   disappear; the appended text sits inside exactly one comment; `end` moves no line, `start` shifts all equally."""
import json, os, random, re
import vlib
from vlib import Report, tlc, tlc_ok
from text_common import trivia_cases, run_and_judge, text_of, lits, rejudge_without_ellipsis_trivia, ends_with_generic_pack

PID = "C18"
EXCEPT = ["KEEP", "^--!"]
EXCEPT_CI = ["(?i)copyright", "^--!", "KEEP"]
END_TEXTS = ["x", "a\nb", "[x[ hi", "[[ z", "]]", "--", "[=[ ]] ]=]", "-"]
FILES = ["", "return 1", "local a = 1 -- tail", "local a = 1\n-- c\nreturn a\n", "--[[ first ]] f()\n\nreturn f --[=[ last ]=]"]


def esc(s):
    return json.dumps(s)


def build_cases(tier, rng):
    modes = ["single", "eof"]
    # quick tier: one residue class in two of the single placements (drawn from the seed inside the specification)
    trivia, st, gen = trivia_cases(modes, stride=(2 if tier == "quick" else 1), offset=rng.randrange(2))
    if tier == "thorough":
        extra, st2, gen2 = trivia_cases(["same", "adjacent"])
        trivia += vlib.sample(extra, 20000, rng)
        st += st2
        gen += gen2
    cases = []
    for k, c in enumerate(trivia):
        base = {"src": c["src"], "tpl": c["tpl"], "gap": c["gap"], "k1": c["k1"], "k2": c["k2"], "mode": c["mode"], "tspans": c.get("tspans", [])}
        cases.append(dict(base, id="rc%d" % k, kind="remove_comments", rules="['remove_comments']", **{"except": []}))
        cases.append(dict(base, id="rx%d" % k, kind="remove_comments",
                          rules="[{ rule: 'remove_comments', except: %s }]" % json.dumps(EXCEPT), **{"except": lits(EXCEPT)}))
        cases.append(dict(base, id="rs%d" % k, kind="remove_spaces", rules="['remove_spaces']"))
        if k % 3 == 0 or c["k1"] >= 19:
            # several patterns, one of them case-insensitive: the flag of one pattern must not reach the others
            cases.append(dict(base, id="ri%d" % k, kind="remove_comments",
                              rules="[{ rule: 'remove_comments', except: %s }]" % json.dumps(EXCEPT_CI), **{"except": lits(EXCEPT_CI)}))
    # append_text_comment
    g = tlc("mc/MC_Comments", workers=8, timeout=1800, env={"MAXLEN": 3 if tier == "quick" else 4}, xmx="8g")
    tlc_ok(g, "MC_Comments")
    texts = g.tagged("CASE")
    if len(texts) < 300:
        raise vlib.ToolError("MC_Comments emitted only %d texts" % len(texts))
    ntext = 0
    for t in texts:
        tb = t["text"]
        ts = bytes(tb).decode("latin-1")
        for loc in ("start", "end"):
            for fi, f in enumerate(FILES):
                if tier == "quick" and fi >= 3 and len(tb) > 2:
                    continue
                cases.append({"id": "ap%d" % ntext, "src": f, "kind": "append", "location": loc, "text": tb,
                              "rules": "[{ rule: 'append_text_comment', text: %s, location: '%s' }]" % (esc(ts), loc),
                              "design_safe": t["safe"], "opens_long": t["opens_long"], "lone_cr": t["lone_cr"], "file": fi})
                ntext += 1
    # every statement kind as the last statement of the file (Trivia!Endings, with and without a closing `;`) x texts of
    # every comment form the rule can choose: where does a comment written at the END land, and does any line move?
    endings, st3, gen3 = trivia_cases(["endings"])
    for ei, e in enumerate(endings):
        for ti, ts in enumerate(END_TEXTS):
            for loc in ("end", "start"):
                if loc == "start" and (tier == "quick" and (ei + ti) % 4 != 0):
                    continue
                cases.append({"id": "ae%d_%d_%s" % (ei, ti, loc), "src": e["src"], "kind": "append", "location": loc, "text": list(ts.encode("latin-1")),
                              "rules": "[{ rule: 'append_text_comment', text: %s, location: '%s' }]" % (esc(ts), loc),
                              "design_safe": True, "opens_long": False, "lone_cr": False, "file": 100 + ei, "ending": e["gap"]})
    # CREATED endings (Trivia!CreatedEndings): the last token of the file belongs to a node that an earlier rule of the same
    # configuration created; the rules of C18 run after it.  Judged against what the earlier rules write alone.
    created, st4, gen4 = trivia_cases(["created"])
    for ei, e in enumerate(created):
        pre = "[%s]" % e["pre"]
        base = {"src": e["src"], "pre_rules": pre, "tpl": -1, "gap": e["gap"], "k1": 0, "k2": 0, "mode": "created", "tspans": []}
        for ti, ts in enumerate(("x", "a\nb")):
            for loc in ("end", "start"):
                cases.append({"id": "ac%d_%d_%s" % (ei, ti, loc), "src": e["src"], "pre_rules": pre, "kind": "append", "location": loc, "text": list(ts.encode("latin-1")),
                              "rules": "[{ rule: 'append_text_comment', text: %s, location: '%s' }]" % (esc(ts), loc),
                              "design_safe": True, "opens_long": False, "lone_cr": False, "file": 300 + ei, "ending": e["gap"]})
        cases.append(dict(base, id="cc%d" % ei, kind="remove_comments", rules="['remove_comments']", **{"except": []}))
        cases.append(dict(base, id="cs%d" % ei, kind="remove_spaces", rules="['remove_spaces']"))
    st3 += st4
    gen3 += gen4
    # the token templates (incl. the typed ones) as files
    for c in trivia:
        if c["mode"] == "single" and c["gap"] == 0 and c["k1"] == 11:
            for ti, ts in enumerate(END_TEXTS[:4]):
                for loc in ("end", "start"):
                    cases.append({"id": "at%d_%d_%s" % (c["tpl"], ti, loc), "src": c["src"], "kind": "append", "location": loc, "text": list(ts.encode("latin-1")),
                                  "rules": "[{ rule: 'append_text_comment', text: %s, location: '%s' }]" % (esc(ts), loc),
                                  "design_safe": True, "opens_long": False, "lone_cr": False, "file": 200 + c["tpl"]})
    return cases, st + st3 + g.distinct, gen + gen3 + g.generated, len(trivia), len(texts), sum(1 for t in texts if not t["safe_unchecked"])


def judge_all(rep, cases, label):
    obs, verdicts, res = run_and_judge(rep.wd, label, cases)
    skipped = 0
    failing = [cid for cid, v in verdicts.items() if not v["ok"] and not obs[cid]["status"].startswith("parse_error")]
    ellipsis = rejudge_without_ellipsis_trivia(rep.wd, label, obs, failing)      # finding F-C03-f, decided by the same TLC judge
    for cid, v in verdicts.items():
        o = obs[cid]
        if o["status"].startswith("parse_error"):
            skipped += 1
            continue
        if v["ok"]:
            continue
        sig = {"kind": o["kind"], "status": o["status"][:100], "code_equal": v["code_equal"], "comments_ok": v["comments_ok"],
               "lines_ok": v["lines_ok"], "lex_out": v["lex_out"], "cause": "trivia-after-type-pack-ellipsis" if cid in ellipsis else "other"}
        if o["kind"] == "append" and o["location"] == "end" and v["code_equal"] and not v["comments_ok"] and ends_with_generic_pack(text_of(o["srcb"])):
            sig["cause"] = "trivia-after-type-pack-ellipsis"      # the comment was attached to a token whose trivia is never written
        if o["kind"] == "remove_spaces":
            # finding F-C18-h: a line comment directly followed (after its line break) by another line comment
            sig["line_comment_pair"] = re.search(r"--(?!\[=*\[)[^\n]*\n[ \t]*--(?!\[=*\[)", text_of(o["srcb"])) is not None
        if o["kind"] == "append":
            sig.update({"location": o["location"], "text": bytes(o["text"]).decode("latin-1"), "opens_long": o.get("opens_long", False),
                        "lone_cr": o.get("lone_cr", False), "file": o.get("file", -1), "ending": o.get("ending", 0)})
        else:
            sig.update({"tpl": o.get("tpl"), "gap": o.get("gap"), "k1": o.get("k1"), "k2": o.get("k2"), "mode": o.get("mode")})
        payload = {k: o[k] for k in o if k not in ("srcb", "outb")}
        payload["src"] = text_of(o["srcb"])
        payload["out"] = text_of(o["outb"])
        rep.violation(sig, payload)
    return res, len(verdicts), skipped


def run(tier):
    rep = Report(PID, tier, "model_checking")
    rng = random.Random(vlib.seed())
    cases, st, gen, ntrivia, ntexts, nunsafe = build_cases(tier, rng)
    pinned = []
    for r in vlib.pinned_reproducers(PID):
        if r.get("kind") != "identity":          # identity reproducers of shared findings belong to C03
            pinned.append(r)
    res, n, skipped = judge_all(rep, cases + pinned, "c18")
    if skipped > n // 20:
        raise vlib.ToolError("%d of %d cases did not parse" % (skipped, n))
    rep.coverage.update({
        "states": st + res.distinct, "transitions": gen + res.generated, "traces_validated_against_impl": n,
        "samples": [{k: c[k] for k in ("id", "kind", "rules", "src")} for c in (cases[0], cases[1], cases[-1])],
        "exhaustive": True,
        "trivia_placements": ntrivia, "comment_texts": ntexts,
        "comment_texts_unsafe_with_the_unchecked_line_comment (design level, before the fix)": nunsafe,
        "cases_by_kind": {k: sum(1 for c in cases if c["kind"] == k) for k in ("remove_comments", "remove_spaces", "append")},
        "cases_that_do_not_parse": skipped,
        "checker_cmd": "tlc MC_Trivia; tlc MC_Comments (design theorem SafeUnlessKnown); dlv text; tlc TextTrace",
    })
    rep.assumptions += ["`except` patterns are literals, optionally anchored with ^ (their regex semantics is then plain substring / prefix matching, evaluated in TLA+)",
                        "the reference lexer is spec/lua/LuaLex.tla (Lua 5.1 + Luau lexical rules; CR and LF both end a line comment)",
                        "line numbers count LF bytes"]
    return rep.finish()


def replay(path, tier):
    rep = Report(PID, tier, "model_checking")
    with open(path) as f:
        c = json.load(f)["case"]
    c = {k: v for k, v in c.items() if k not in ("out", "status")}
    res, n, _ = judge_all(rep, [c], "replay")
    rep.coverage.update({"states": res.distinct, "transitions": res.generated, "traces_validated_against_impl": n, "samples": [c.get("rules", "")]})
    return rep.finish()
