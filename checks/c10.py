"""C10 -- incremental reprocessing equals processing from scratch.

G1: TLC model-checks the IDEAL Frontend (every deviation flag off): the design satisfies
    IncrementalEqualsFresh and NoPanic on the bounded universe (sanity of the model).
G2: TLC model-checks the CODE-SHAPED Frontend (flags of the open findings on) with behaviours cut at the
    open finding's trigger, and emits one history per distinct just-processed state (S->I).
R : dlv frontend replays every emitted history, plus seeded random long histories, on the real WorkerTree.
V1: FrontendObs (observable statement of C10, no model of the internals) judges every `process` event.
V2: FrontendTrace validates every recorded history against the code-shaped model; a history it cannot
    follow is `unexplained`.
Verdict per history: an observable failure that the code-shaped model reproduces is the open finding
(F-C10-e); an observable failure the model cannot explain is a VIOLATION; an unexplained history with no
observable failure is reported as drift only."""
import json, os, random
import vlib
from vlib import Report, tlc, tlc_ok, dlv, write_ndjson, read_ndjson, log
from frontend_common import UNIVERSE, OPEN_FLAGS, BASE_ENV, random_history

PID = "C10"


def validate(rep, histories, label):
    wd = rep.wd
    hp = os.path.join(wd, "hist-%s.ndjson" % label)
    write_ndjson(hp, [UNIVERSE] + histories)
    tp = os.path.join(wd, "trace-%s.ndjson" % label)
    dlv(["frontend", "--histories", hp, "--out", tp])
    nrows = sum(1 for _ in open(tp))
    obs = tlc("trace/FrontendObs", workers=1, dfs=True, timeout=3000, env=dict(BASE_ENV, TRACE=tp), xmx="6g")
    tlc_ok(obs, "FrontendObs(%s)" % label)
    if not obs.tagged("CONSUMED"):
        raise vlib.ToolError("FrontendObs did not consume the whole %s trace (driver and specification disagree on the events)" % label)
    bad = {}
    for b in obs.tagged("BAD"):
        if b["kind"] == "fresh-mismatch":
            raise vlib.ToolError("the specification's fresh-run stamp disagrees with the real fresh run in history %s (event %d): model or driver error" % (b["id"], b["at"]))
        bad.setdefault(b["id"], []).append(b)
    env = dict(BASE_ENV, **OPEN_FLAGS)
    env["TRACE"] = tp
    tr = tlc("trace/FrontendTrace", workers=1, dfs=True, timeout=3000, env=env, xmx="6g")
    tlc_ok(tr, "FrontendTrace(%s)" % label)
    explained = {}
    for h in tr.tagged("HDONE"):
        explained[h["id"]] = explained.get(h["id"], False) or h["explained"]
    byid = {h["id"]: h for h in histories}
    if set(explained) != set(byid):
        raise vlib.ToolError("FrontendTrace reported %d of %d histories" % (len(explained), len(byid)))
    drift = 0
    for hid, h in byid.items():
        if hid in bad:
            kinds = sorted(set(b["kind"] for b in bad[hid]))
            sig = {"kind": kinds[0], "explained_by_code_model": bool(explained[hid]), "first_bad_event": min(b["at"] for b in bad[hid]),
                   "rmdir_of_dependency_dir": any(e.get("ev") == "rmdir" and e.get("d") == "lib" for e in h["events"]),
                   "history": [" ".join(str(e.get(k, "")) for k in ("ev", "f", "v")).strip() for e in h["events"]][:40]}
            rep.violation(sig, h)
        elif not explained[hid]:
            drift += 1
    return {"rows": nrows, "bad": len(bad), "drift": drift, "obs": obs, "tr": tr}


def run(tier):
    rep = Report(PID, tier, "model_checking")
    rng = random.Random(vlib.seed())
    depth = 5 if tier == "quick" else 7
    # G1: ideal design
    g1 = tlc("mc/MC_Frontend", workers=8, timeout=3000, env=dict(BASE_ENV, MAXSTEPS=depth), xmx="12g")
    if g1.rc != 0:
        vlib.tlc_ok(g1, "MC_Frontend (ideal design): the model itself violates C10")
    # G2: code-shaped
    env = dict(BASE_ENV, **OPEN_FLAGS)
    env["MAXSTEPS"] = depth
    g2 = tlc("mc/MC_Frontend", workers=8, timeout=3000, env=env, xmx="12g")
    tlc_ok(g2, "MC_Frontend (code-shaped, cut at open triggers)")
    hs = g2.tagged("HIST")
    if len(hs) < 100:
        raise vlib.ToolError("MC_Frontend emitted only %d histories" % len(hs))
    cap = 4000 if tier == "quick" else 40000
    hs = vlib.sample(hs, cap, rng)
    for k, h in enumerate(hs):
        h["id"] = "m%d" % k
    r1 = validate(rep, hs, "model")
    # random long histories (I->S beyond the bound)
    nrand, length = (300, 30) if tier == "quick" else (3000, 60)
    rh = [{"id": "r%d" % k, "c0": "c1", "events": random_history(rng, length), "outsp": ("out", "./out", "lib/../out", "out/", "./src/../out")[k % 5]} for k in range(nrand)]
    rh += [r for r in vlib.pinned_reproducers(PID) if "events" in r]
    r2 = validate(rep, rh, "random")
    rep.coverage.update({
        "states": g1.distinct + g2.distinct + r1["obs"].distinct + r2["obs"].distinct + r1["tr"].distinct + r2["tr"].distinct,
        "transitions": g1.generated + g2.generated + r1["obs"].generated + r2["obs"].generated + r1["tr"].generated + r2["tr"].generated,
        "traces_validated_against_impl": len(hs) + len(rh),
        "trace_events_validated": r1["rows"] + r2["rows"],
        "samples": [hs[0], hs[len(hs) // 2], {"id": rh[0]["id"], "events": rh[0]["events"][:12]}],
        "exhaustive": True,
        "model_depth": depth + 1,
        "ideal_model_states": g1.distinct,
        "code_shaped_model_states": g2.distinct,
        "histories_from_model": len(hs),
        "random_histories": len(rh), "random_history_length": length,
        "histories_with_observable_failure": r1["bad"] + r2["bad"],
        "histories_the_code_model_could_not_follow_without_observable_failure (drift)": r1["drift"] + r2["drift"],
        "open_deviation_flags": sorted(OPEN_FLAGS),
        "checker_cmd": "tlc MC_Frontend (ideal; code-shaped) ; dlv frontend ; tlc FrontendObs ; tlc FrontendTrace",
    })
    rep.assumptions += [
        "the event->call mapping of cli/utils/file_watcher.rs::process_events is transcribed in the driver (Modify->source_changed, Create->collect_work, Remove->remove_source), the watcher itself (notify, debouncer, symlinks) is not driven",
        "universe: 3 sources (one directory), 2 modules (one outside the input), versions 0..2 (0 = does not parse), 2 configurations, in-memory resources",
        "for a source on which a fresh run fails, C10 does not constrain the output (DESIGN.md 4.8)",
    ]
    return rep.finish()


def replay(path, tier):
    rep = Report(PID, tier, "model_checking")
    with open(path) as f:
        h = json.load(f)["case"]
    r = validate(rep, [h], "replay")
    rep.coverage.update({"states": r["obs"].distinct + r["tr"].distinct, "transitions": r["obs"].generated + r["tr"].generated,
                         "traces_validated_against_impl": 1, "samples": [h]})
    return rep.finish()
