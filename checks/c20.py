"""C20 -- file and rule filters select exactly the matching files.

G: tlapm proves the four design theorems in spec/darklua/FiltersCore.tla for any matching relation, any number of rules and
   any pattern lists (unbounded); TLC enumerates MC_Filters (trees of Lua files x apply/skip pattern lists -- absent, one string, arrays -- at the top
   level and on each rule of a three-rule pipeline) and model-checks RuleFilterIsDeletion / FilterIsLocal /
   RootExcludedUntouched on the abstract pipeline of spec/darklua/Filters.tla; every case is emitted for replay.
R: dlv filters runs the real darklua_core::process (in-memory project, output directory) under the configuration of the
   case, under the same configuration with each rule deleted, and under the eight unfiltered sub-pipelines.
V: FiltersTrace (TLC) judges every file of every observation: its output is the output of the unfiltered pipeline made of
   exactly the rules that Filters!RuleRuns selects; a filtered-out rule equals a deleted rule; nothing else is affected."""
import json, os, random
import vlib
from vlib import Report, tlc, tlc_ok, dlv, write_ndjson, read_ndjson, log

PID = "C20"
CHUNK = 4000
CASE_KEYS = ("id", "fam", "files", "top", "rules", "inp")
FILE_FORMS = ("file", "dotfile", "updownfile", "dslashfile")


def apply_input_form(c):
    """single-file input forms (MC_Filters!InputForms): the tree of the case is reduced to the file given on the command line"""
    if c.get("inp") in FILE_FORMS:
        k = (c.get("fi", 1) - 1) % len(c["files"])
        c["files"] = [c["files"][k]]
        if "expect" in c:
            c["expect"] = [c["expect"][k]]
    return c


def slots_with_filters(c):
    s = []
    for name, fp in [("top", c["top"])] + [("rule%d" % (k + 1), r) for k, r in enumerate(c["rules"])]:
        for key in ("apply", "skip"):
            if fp[key]["form"] != "none":
                s.append("%s.%s=%s" % (name, key, "|".join(p["s"] for p in fp[key]["pats"]) or "[]"))
    return s


def judge(rep, cases, label, stats):
    wd = rep.wd
    res_all = []
    for n in range(0, len(cases), CHUNK):
        chunk = cases[n:n + CHUNK]
        cp = os.path.join(wd, "cases-%s-%d.ndjson" % (label, n))
        write_ndjson(cp, [{k: c[k] for k in CASE_KEYS if k in c} for c in chunk])
        op = os.path.join(wd, "obs-%s-%d.ndjson" % (label, n))
        dlv(["filters", "--cases", cp, "--out", op])
        res = tlc("trace/FiltersTrace", workers=8, timeout=3000, env={"OBS": op}, xmx="10g")
        tlc_ok(res, "FiltersTrace(%s/%d)" % (label, n))
        verdicts = res.tagged("VERDICT")
        if len(verdicts) != len(chunk):
            raise vlib.ToolError("FiltersTrace judged %d of %d observations" % (len(verdicts), len(chunk)))
        obs = {o["id"]: o for o in read_ndjson(op)}
        byid = {c["id"]: c for c in chunk}
        for v in verdicts:
            c = byid[v["id"]]
            o = obs[v["id"]]
            stats["observations"] += 1
            if not v["clean"] and not (o["errors"] or o["panic"]):
                raise vlib.ToolError("reference / deleted-rule runs reported errors for case %s: %s %s" % (v["id"], o["ref_errors"][:200], o["del_errors"][:200]))
            for fv in v["files"]:
                stats["files"] += 1
                stats["rule_decisions"] += 3
                if fv["vacuous"]:
                    raise vlib.ToolError("reference outputs of %s are not pairwise different: the rules' effects are not independently observable" % fv["s"])
                if not fv["root"]:
                    stats["excluded_by_top_level_filter"] += 1
                    if fv["missing"]:
                        stats["excluded_files_without_output (F-C11-a, not a C20 verdict)"] += 1
                stats["files_with_%d_rules" % sum(1 for r in fv["ran"] if r)] += 1
            if v["ok"]:
                continue
            payload = {k: c[k] for k in CASE_KEYS if k in c}
            payload["text"] = o["text"]
            if o["panic"] or o["errors"]:
                rep.violation({"kind": "panic" if o["panic"] else "error", "message": (o["panic"] or o["errors"])[:300], "filters": slots_with_filters(c)}, payload)
                continue
            for fv, fo in zip(v["files"], o["files"]):
                for kind in ("selected", "deletion", "others"):
                    if not fv[kind]:
                        rep.violation({"kind": kind, "file": fv["s"], "expected_root": fv["root"], "expected_ran": fv["ran"], "filters": slots_with_filters(c),
                                       "out": fo["out"][:200], "config": o["text"][:400]}, payload)
        res_all.append(res)
    return res_all


def random_cases(pool, trees, n, rng):
    """The full product of the eight filter slots is far too large to enumerate: seeded samples of it (all slots filled at once)."""
    rows = []
    none = {"form": "none", "pats": []}
    for k in range(n):
        def pick():
            return rng.choice(pool) if rng.random() < 0.6 else none
        rows.append({"id": "r%d" % k, "fam": "random", "files": rng.choice(trees),
                     "top": {"apply": pick() if rng.random() < 0.5 else none, "skip": pick() if rng.random() < 0.5 else none},
                     "rules": [{"apply": pick(), "skip": pick()} for _ in range(3)]})
    return rows


def run(tier):
    rep = Report(PID, tier, "model_checking")
    rng = random.Random(vlib.seed())
    g = tlc("mc/MC_Filters", workers=8, timeout=3000, env={"MODE": tier}, xmx="10g")
    if g.invariant_violated:
        raise vlib.ToolError("MC_Filters: theorem %s fails on the model" % g.invariant_violated)
    tlc_ok(g, "MC_Filters")
    # the same theorems for ANY matching relation and any number of rules: TLAPS proofs of FiltersCore.tla
    proved = vlib.tlapm("darklua/FiltersCore", expect_min=25)
    cases = g.tagged("CASE")
    floor = 5000 if tier == "quick" else 40000
    if len(cases) < floor:
        raise vlib.ToolError("MC_Filters enumerated only %d cases" % len(cases))
    for k, c in enumerate(cases):
        c["id"] = "c%d" % k
    # the pool (before the trees of the single-file cases are reduced) of pattern lists and trees the model used (routing only)
    pool, seen, trees, tseen = [], set(), [], set()
    for c in cases:
        for fp in [c["top"]] + c["rules"]:
            for key in ("apply", "skip"):
                s = json.dumps(fp[key], sort_keys=True)
                if fp[key]["form"] != "none" and s not in seen:
                    seen.add(s)
                    pool.append(fp[key])
        s = json.dumps(c["files"], sort_keys=True)
        if s not in tseen:
            tseen.add(s)
            trees.append(c["files"])
    nrand = 1500 if tier == "quick" else 15000
    rc = random_cases(pool, trees, nrand, rng)
    for k, c in enumerate(rc):
        c["inp"] = ("dir", "dotdir", "dir", "file", "dotfile", "updownfile", "dslashfile")[k % 7]
        c["fi"] = 1 + (k // 7) % len(c["files"])
    cases = [apply_input_form(c) for c in cases]
    rc = [apply_input_form(dict(c)) for c in rc]
    stats = {k: 0 for k in ("observations", "files", "rule_decisions", "excluded_by_top_level_filter",
                            "excluded_files_without_output (F-C11-a, not a C20 verdict)", "files_with_0_rules", "files_with_1_rules",
                            "files_with_2_rules", "files_with_3_rules")}
    r1 = judge(rep, cases, "enumerated", stats)
    r2 = judge(rep, rc, "random", stats)
    if min(stats["files_with_%d_rules" % k] for k in range(4)) < 100 or stats["excluded_by_top_level_filter"] < 100:
        raise vlib.ToolError("vacuous run: %s" % stats)
    fams = {}
    for c in cases:
        fams[c["fam"]] = fams.get(c["fam"], 0) + 1
    rep.coverage.update({
        "states": g.distinct + sum(r.distinct for r in r1 + r2),
        "transitions": g.generated + sum(r.generated for r in r1 + r2),
        "traces_validated_against_impl": stats["observations"],
        "samples": [{k: c[k] for k in ("fam", "top", "rules")} for c in (cases[1], cases[len(cases) // 2], rc[0])],
        "exhaustive": True,
        "enumerated_cases": len(cases), "cases_by_family": fams, "random_cases_over_all_slots": nrand,
        "pattern_lists": len(pool), "trees": [[f["s"] for f in t] for t in trees],
        "patterns": sorted(set(p["s"] for l in pool for p in l["pats"])),
        "real_process_runs": stats["observations"] * 4 + 8 * len(trees),
        "checker_cmd": "tlapm FiltersCore (unbounded proofs); tlc MC_Filters (enumerate + theorems); dlv filters; tlc FiltersTrace (judge)",
        "tlaps_obligations_proved": proved,
    })
    rep.coverage.update(stats)
    rep.assumptions += [
        "glob subset: literal components, `*`, `*.ext`, `**` (15 sample patterns, Filters!Matches transcribed from the wax documentation: `**` matches zero or more components, a pattern matches the whole path); character classes, alternatives and `?` are not generated",
        "paths are matched as darklua passes them: the input location `src` joined with the relative path (`darklua process src out`); other spellings of the input location (`./src`, absolute) are not generated",
        "pipeline: remove_comments, inject_global_value(CFG), remove_empty_do with the retain_lines generator; every file carries one occurrence of what each rule changes, and the eight unfiltered sub-pipelines give pairwise different outputs (checked by TLC per file)",
        "a file excluded by a TOP-LEVEL filter must not be transformed: its output equals its source or is absent; that darklua writes no output for it (F-C11-a) is C11's business and only counted here",
        "filters in one place are enumerated from the full list set; filters in all eight places at once from small sets plus seeded random samples of the full product",
    ]
    return rep.finish()


def replay(path, tier):
    rep = Report(PID, tier, "model_checking")
    with open(path) as f:
        c = json.load(f)["case"]
    c.setdefault("id", "replay")
    stats = {k: 0 for k in ("observations", "files", "rule_decisions", "excluded_by_top_level_filter",
                            "excluded_files_without_output (F-C11-a, not a C20 verdict)", "files_with_0_rules", "files_with_1_rules",
                            "files_with_2_rules", "files_with_3_rules")}
    r = judge(rep, [c], "replay", stats)
    rep.coverage.update({"states": sum(x.distinct for x in r), "transitions": sum(x.generated for x in r), "traces_validated_against_impl": 1,
                         "samples": [{k: c[k] for k in ("top", "rules") if k in c}]})
    return rep.finish()
