"""C11 -- batch runs map files one-to-one, isolate failures and are deterministic.

G: TLC enumerates MC_Batch -- every tree of the universe (each Lua file absent / healthy / faulty(kind), at most two
   faults) x input form (directory, sub-directory, a directory named d.lua, one file) x output form (none, same,
   existing file, existing directory, new path with and without extension) x fail-fast x configuration (no rules, default
   rules, root-level filters, and the two .luaurc configurations: nested `.luaurc` files that define the same alias
   differently, every healthy source requiring through that alias, convert_require resolving it) -- and model-checks the internal theorems of spec/darklua/Batch.tla (destinations injective and inside the output, the
   clauses cannot contradict each other, the reference tree is clean, ...).
R: `dlv batch` renders every (sampled) case into a real temporary directory and, where possible, into in-memory
   resources, runs darklua_core::process, and records the trees before/after, the errors and the paths they name,
   plus the reference runs (second run, reversed creation order, tree without the faulty files); for the .luaurc
   configurations also runs with the sources registered in explicit orders (every file before every other file at
   least once), every healthy file processed alone, and what each output shows of the alias resolution.
V: TLC (BatchTrace) judges every observation against the clauses of Batch.tla, one boolean per clause."""
import json, os, random, collections, concurrent.futures
import vlib
from vlib import Report, tlc, tlc_ok, dlv, write_ndjson, read_ndjson, log

PID = "C11"
CLAUSES = ["onetoone", "nothing_else", "inputs_untouched", "reported", "nothing_for_faulty", "isolation", "deterministic", "no_panic",
           "order_independent", "same_as_alone", "nearest_luaurc"]
RC_CFGS = ("luaurc", "luaurcgap")
DESC = ("root", "fi", "st", "out", "ff", "cfg")
KINDS = ["syntax", "utf8", "rule", "unwparent", "unwdir", "blocked"]


def desc_of(c):
    return {k: c[k] for k in DESC}


def key_of(c):
    return json.dumps(desc_of(c), sort_keys=True)


def expand(descs, label):
    """TLC turns case descriptors into full cases (tree, destinations, reference tree)."""
    wd = os.path.join(vlib.WORK, PID)
    p = os.path.join(wd, "only-%s.ndjson" % label)
    write_ndjson(p, [desc_of(d) for d in descs])
    g = tlc("mc/MC_Batch", workers=2, timeout=600, env={"ONLY": p}, metaname="MC_Batch-only")
    tlc_ok(g, "MC_Batch (expansion of %s)" % label)
    if g.tagged("ILLFORMED"):
        raise vlib.ToolError("the model rejects a %s case descriptor as ill-formed: %s" % (label, json.dumps(g.tagged("ILLFORMED")[0])))
    full = {key_of(c): c for c in g.tagged("CASE")}
    res = []
    for d in descs:
        if key_of(d) not in full:
            raise vlib.ToolError("MC_Batch did not expand %s" % key_of(d))
        c = dict(full[key_of(d)])
        if "id" in d:
            c["id"] = d["id"]
        res.append(c)
    return g, res


def drive(cases, label, shards):
    """R: shards of the case list are replayed by parallel dlv processes (each has its own working directory)."""
    wd = os.path.join(vlib.WORK, PID)
    vlib.build_harness()
    shards = max(1, min(shards, len(cases)))
    parts = [cases[k::shards] for k in range(shards)]

    def one(k):
        cp = os.path.join(wd, "cases-%s-%d.ndjson" % (label, k))
        op = os.path.join(wd, "obs-%s-%d.ndjson" % (label, k))
        write_ndjson(cp, parts[k])
        dlv(["batch", "--cases", cp, "--out", op], timeout=7200)
        return op

    with concurrent.futures.ThreadPoolExecutor(max_workers=shards) as ex:
        return list(ex.map(one, range(shards)))


def judge(rep, obs_paths, cases, label, par):
    """V: TLC judges every observation; returns (verdicts, tlc results)."""
    byid = {c["id"]: c for c in cases}

    def one(op):
        res = tlc("trace/BatchTrace", workers=4, timeout=3000, env={"OBS": op}, xmx="6g",
                  metaname="BatchTrace-" + os.path.basename(op)[:-7])
        tlc_ok(res, "BatchTrace(%s)" % os.path.basename(op))
        return op, res

    with concurrent.futures.ThreadPoolExecutor(max_workers=par) as ex:
        results = list(ex.map(one, obs_paths))
    verdicts = []
    stats = collections.Counter()
    for op, res in results:
        obs = {o["id"]: o for o in read_ndjson(op)}
        vs = res.tagged("VERDICT")
        if len(vs) != len(obs):
            raise vlib.ToolError("BatchTrace judged %d of %d observations (%s)" % (len(vs), len(obs), label))
        for v in vs:
            o = obs[v["id"]]
            c = byid[o["cid"]]
            if not v["wellformed"]:
                raise vlib.ToolError("observation %s carries a case the model calls ill-formed" % v["id"])
            if not v["render_ok"]:
                raise vlib.ToolError("the tree rendered for %s is not the tree of the model (renderer error)" % v["id"])
            if not v["harness_ok"]:
                raise vlib.ToolError("the explicit-order / alone runs recorded for %s are not the ones the model asks for (driver error)" % v["id"])
            if v["rc"]:
                stats["rc_obs"] += 1
                stats["rc_order_runs"] += v["norders"]
                stats["rc_alone_runs"] += v["nalone"]
                stats["rc_outputs_probed"] += v["nprobed"]
                if c["nalias"] >= 2:
                    stats["rc_obs_two_contexts"] += 1
                    if v["norders"] >= 2:
                        stats["rc_obs_two_contexts_reordered"] += 1
            stats["obs"] += 1
            stats["world:" + v["world"]] += 1
            if v["nfaulty"] > 0:
                stats["obs_with_faulty"] += 1
                if v["reported"]:
                    stats["obs_with_faulty_all_reported"] += 1
            if v["nexpected"] > 0 and v["onetoone"]:
                stats["obs_with_expected_outputs_all_present"] += 1
            stats["expected_outputs"] += v["nexpected"]
            stats["faulty_files"] += v["nfaulty"]
            stats["weakly_reported"] += v["nweak"]
            for cl in CLAUSES:
                if v[cl]:
                    continue
                stats["fail:" + cl] += 1
                sig = {"clause": cl, "world": v["world"], "input": c["root"], "file": c["entries"][c["fi"] - 1]["id"] if c["fi"] else "",
                       "output": c["out"], "cfg": c["cfg"], "failfast": c["ff"], "inplace": v["inplace"],
                       "kinds": "+".join(sorted(c["kinds"])), "st": c["st"],
                       "offender": v["off_" + cl], "explained_by_root_filter": v["x_" + cl]}
                rep.violation(sig, {"case": c, "obs": o, "verdict": v})
            verdicts.append(v)
    return verdicts, [r for _, r in results], stats


def pick(cases, tier, rng):
    if tier != "quick":
        return list(cases)
    # anchors: the complete healthy tree under every output form x configuration x fail-fast
    anchors = [c for c in cases if c["root"] == "in" and all(s == "ok" for s in c["st"])]
    plain = [c for c in cases if not c["rc"]]
    rest_in = [c for c in plain if c["root"] == "in" and not all(s == "ok" for s in c["st"])]
    other = [c for c in plain if c["root"] != "in"]
    # the .luaurc configurations cost ~5 times the runs of another case (explicit orders, alone runs): a smaller sample
    rc = [c for c in cases if c["rc"]]
    rc_in = [c for c in rc if c["root"] == "in" and not all(s == "ok" for s in c["st"])]
    rc_other = [c for c in rc if c["root"] != "in"]
    return (anchors + vlib.sample(rest_in, 3400, rng) + vlib.sample(other, 900, rng)
            + vlib.sample(rc_in, 170, rng) + vlib.sample(rc_other, 50, rng))


def run(tier):
    rep = Report(PID, tier, "model_checking")
    rng = random.Random(vlib.seed())
    # G
    try:
        maxf = int(os.environ.get("VERIF_C11_MAXFAULTY", "2" if tier == "quick" else "3"))
    except ValueError:
        maxf = 2
    # the .luaurc configurations: one assigned fault fewer (their cases cost five times the runs; a fault and the shared
    # context interact through ONE faulty file already)
    try:
        rcmaxf = int(os.environ.get("VERIF_C11_RCMAXFAULTY", maxf - 1))
    except ValueError:
        rcmaxf = maxf - 1
    g = tlc("mc/MC_Batch", workers=8, timeout=3000, env={"MAXFAULTY": maxf, "RCMAXFAULTY": rcmaxf}, xmx="8g")
    tlc_ok(g, "MC_Batch (enumeration + internal theorems of the model)")
    cases = g.tagged("CASE")
    if len(cases) < 20000:
        raise vlib.ToolError("MC_Batch enumerated only %d cases" % len(cases))
    for k, c in enumerate(cases):
        c["id"] = "c%d" % k
    log("MC_Batch: %d cases, %d states, %.0fs" % (len(cases), g.distinct, g.wall))
    chosen = pick(cases, tier, rng)
    # pinned reproducers of open findings: always run
    pinned = vlib.pinned_reproducers(PID)
    g2 = None
    if pinned:
        g2, pc = expand(pinned, "pinned")
        chosen = chosen + pc
    # R
    shards = 4 if tier == "quick" else 10
    obs_paths = drive(chosen, "main", shards)
    # V
    verdicts, vres, stats = judge(rep, obs_paths, chosen, "main", 2 if tier == "quick" else 3)
    # vacuity floors
    nobs = stats["obs"]
    cov = collections.Counter()
    for c in chosen:
        cov["input:" + c["root"]] += 1
        cov["output:" + c["out"]] += 1
        cov["cfg:" + c["cfg"]] += 1
        cov["failfast:%s" % c["ff"]] += 1
        for k in c["kinds"]:
            cov["kind:" + k] += 1
        cov["faulty_files:%d" % min(c["nfaulty"], 3)] += 1
    need = (["input:" + r for r in ("in", "sub", "dlua", "file")] + ["output:" + o for o in ("none", "same", "exfile", "exdir", "exdirdot", "newdir", "newext")]
            + ["cfg:" + x for x in ("empty", "default", "rootskip", "rootapply", "retain", "aliasdup") + RC_CFGS] + ["failfast:True", "failfast:False"] + ["kind:" + k for k in KINDS]
            + ["faulty_files:0", "faulty_files:1", "faulty_files:2"])
    floor = 10 if tier == "quick" else 100
    for n in need:
        if cov[n] < floor:
            raise vlib.ToolError("vacuous run: only %d cases cover %s" % (cov[n], n))
    if nobs < (2500 if tier == "quick" else 50000 if maxf <= 2 else 100000):
        raise vlib.ToolError("vacuous run: only %d observations judged" % nobs)
    if stats["world:mem"] < nobs // 10 or stats["obs_with_faulty_all_reported"] < nobs // 10 or stats["obs_with_expected_outputs_all_present"] < nobs // 4:
        raise vlib.ToolError("vacuous run: %s" % dict(stats))
    # per-directory context: enough observations in which two files with DIFFERENT nearest .luaurc were processed in
    # several explicit orders, and every produced output of those observations was probed
    if (stats["rc_obs"] < (200 if tier == "quick" else 5000) or stats["rc_obs_two_contexts_reordered"] < stats["rc_obs"] // 3
            or stats["rc_order_runs"] < 4 * stats["rc_obs"] or stats["rc_alone_runs"] < stats["rc_obs"] or stats["rc_outputs_probed"] < stats["rc_obs"]):
        raise vlib.ToolError("vacuous run (.luaurc configurations): %s" % {k: v for k, v in stats.items() if k.startswith("rc_")})
    allres = [g] + ([g2] if g2 else []) + vres
    rep.coverage.update({
        "states": sum(r.distinct for r in allres),
        "transitions": sum(r.generated for r in allres),
        "traces_validated_against_impl": nobs,
        "samples": [desc_of(chosen[0]), desc_of(chosen[len(chosen) // 2]), desc_of(chosen[-1])],
        "exhaustive": tier != "quick",
        "enumerated_cases": len(cases),
        "cases_replayed": len(chosen),
        "observations": {"file_system": stats["world:fs"], "in_memory": stats["world:mem"]},
        "process_calls_per_observation": "main + second run (separate output) + reversed-order run + reference run without the faulty files; .luaurc configurations: + one run per explicit registration order (rotations of the forward and of the reverse order) + one run per healthy file alone",
        "per_directory_context": {
            "configurations": list(RC_CFGS),
            "enumerated_cases": sum(1 for c in cases if c["rc"]),
            "cases_replayed": sum(1 for c in chosen if c["rc"]),
            "observations": stats["rc_obs"],
            "observations_with_two_different_nearest_luaurc": stats["rc_obs_two_contexts"],
            "of_which_processed_in_several_explicit_orders": stats["rc_obs_two_contexts_reordered"],
            "explicit_order_runs": stats["rc_order_runs"],
            "alone_runs": stats["rc_alone_runs"],
            "outputs_whose_alias_resolution_was_judged": stats["rc_outputs_probed"],
            "clauses": ["order_independent", "same_as_alone", "nearest_luaurc"],
        },
        "fault_enumeration": {
            "fault_kinds_covered": {k: cov["kind:" + k] for k in KINDS},
            "cases_by_number_of_faulty_files": {k[len("faulty_files:"):]: v for k, v in cov.items() if k.startswith("faulty_files:")},
            "fail_fast_cases": cov["failfast:True"],
            "max_assigned_faults_per_case": maxf,
            "max_assigned_faults_per_case_luaurc_configurations": rcmaxf,
        },
        "coverage_by_dimension": {k: v for k, v in sorted(cov.items()) if not k.startswith("kind:") and not k.startswith("faulty_files:")},
        "expected_outputs_checked": stats["expected_outputs"],
        "observations_with_faulty_files_all_reported": stats["obs_with_faulty_all_reported"],
        "faulty_files_checked": stats["faulty_files"],
        "information_write_errors_naming_only_the_blocking_path_not_the_file": stats["weakly_reported"],
        "failing_clauses": {k[5:]: v for k, v in stats.items() if k.startswith("fail:")},
        "model_theorems_checked_on_every_case": ["DestInjective", "DestInsideOutput", "DestOutsideInput", "InPlaceIsSource", "MirrorIsOneToOne",
                                                 "NoConflict", "DestStable", "RefIsClean", "Partition", "RcSound", "AloneIsClean"],
        "checker_cmd": "tlc MC_Batch (enumerate + theorems); dlv batch (render + run + record); tlc BatchTrace (judge)",
    })
    rep.assumptions += ASSUMPTIONS
    rc = rep.finish()
    if tier != "quick" and not os.environ.get("VERIF_KEEP"):
        # the thorough run leaves ~1 GB of observations; replay files are self-contained
        for fn in os.listdir(rep.wd):
            if fn.startswith(("obs-main-", "cases-main-")):
                os.remove(os.path.join(rep.wd, fn))
    return rc


ASSUMPTIONS = [
    "bounded universe: 5 Lua files (top level, nested .luau, `my file.v2.lua`, `%C3%A9.lua` = e-acute, inside a directory named d.lua), 4 non-Lua files, at most 2 (quick) / 3 (thorough) assigned faults per tree, one fewer in the .luaurc configurations (a blocking file can make further files faulty); files outside the input are healthy bystanders",
    "an unwritable destination is produced by a regular file in place of the destination's parent directory or by a non-empty directory at the destination (the checks run as root: permissions are not used); it is only assigned under an existing output directory; a directory given as input with an existing regular FILE as output makes every destination unwritable",
    "a faulty file counts as reported when some error message names its source path, its destination path or, for a blocked destination, the part of the destination path that could not be created",
    "a rule error is a require of a missing module with bundling configured (bundling is configured exactly in the cases that contain such a file); healthy files do not require each other",
    "content of outputs is not judged here (C01-C09 do): outputs are compared between runs (isolation, determinism) and with the tree before the run (written / untouched) by length and FNV-1a hash",
    "with fail-fast and at least one faulty file the contract is the weaker one stated in Batch.tla (Strong = FALSE): determinism and completeness are not demanded",
    "in place, a file excluded by a root-level filter may stay as it is; directories that appear are tolerated by NothingElse",
    "`running twice` = a second process over the tree left by the first (separate output only) and a run on a freshly created tree with files created in reverse order (tmpfs/dir order, fresh hash seeds per thread); no separate OS process is started",
    "per-directory context = the `.luaurc` files of the tree (configurations luaurc: in, in/sub, in/sub/deep; luaurcgap: tree root, in/sub), all defining the alias `lib` with different targets outside the input; it is consulted by convert_require (current: luau with use_luau_configuration, target: path) and, in the cases that configure bundling, by the bundler; these configurations are enumerated with the output forms none / same / existing directory / new directory",
    "`enumerated in another order` is also exercised directly for the .luaurc configurations: the sources are registered with WorkerTree::add_source in explicit orders (every rotation of the forward and of the reverse order: every file precedes every other file in some run -- a dependence that needs three files in a particular order may escape) on fresh trees; the destinations handed to add_source are the model's (the main run, which lets darklua collect the work, is judged against the same destinations)",
    "`as if the bad one were absent` is taken further for the .luaurc configurations: every healthy file is processed alone (the tree minus the other Lua files of the input) and must get the byte-identical output",
    "which `.luaurc` served a file is read off its output: the remaining require strings, followed from the directory of the SOURCE (convert_require writes paths relative to the requiring file), and the `alias_target` marks of inlined modules; the expectation (nearest ancestor wins, Batch!AliasDir) is Luau's documented rule",
    "symlinks, non-UTF-8 file names, a missing input path, an output inside the input and .darklua.json discovery are outside the universe",
]


def replay(path, tier):
    rep = Report(PID, tier, "model_checking")
    with open(path) as f:
        payload = json.load(f)["case"]
    c = payload["case"] if "case" in payload and isinstance(payload["case"], dict) and "root" in payload["case"] else payload
    d = desc_of(c)
    d["id"] = c.get("id", "replay")
    g, full = expand([d], "replay")
    obs_paths = drive(full, "replay", 1)
    verdicts, vres, stats = judge(rep, obs_paths, full, "replay", 1)
    rep.coverage.update({"states": g.distinct + sum(r.distinct for r in vres), "transitions": g.generated + sum(r.generated for r in vres),
                         "traces_validated_against_impl": stats["obs"], "samples": [d],
                         "failing_clauses": {k[5:]: v for k, v in stats.items() if k.startswith("fail:")}})
    rep.assumptions += ASSUMPTIONS
    return rep.finish()
