"""C17 -- removal and injection rules change exactly what they name.  C01 machinery with a MODIFIED reference
environment: the ORIGINAL program runs with `assert` = a function returning its arguments (remove_assertions),
`debug.profilebegin/end` = no-ops (remove_debug_profiling), the injected global preset (inject_global_value);
the OUTPUT runs in the normal environment."""
import json, struct
import sem_common as sc

PID = "C17"


def gval(v):
    if v is None:
        return {"t": "nil", "hi": 0, "lo": 0, "s": "", "b": 0}
    if isinstance(v, bool):
        return {"t": "bool", "hi": 0, "lo": 0, "s": "", "b": 1 if v else 0}
    if isinstance(v, (int, float)):
        bits = struct.unpack(">q", struct.pack(">d", float(v)))[0]
        hi = (bits >> 32) & 0xffffffff
        lo = bits & 0xffffffff
        sgn = lambda x: x - (1 << 32) if x >= (1 << 31) else x
        return {"t": "num", "hi": sgn(hi), "lo": sgn(lo), "s": "", "b": 0}
    return {"t": "str", "hi": 0, "lo": 0, "s": v, "b": 0}


VALUES = [True, False, 5, -1.5, 0, "str", "", None]


def inject(v):
    return "{ rule: 'inject_global_value', identifier: 'INJ', value: %s }" % json.dumps(v)


def env_for(rules):
    e = {"assert": "real", "profile": "real", "gname": "", "gset": 0, "gval": gval(None)}
    for r in rules:
        if r == "remove_assertions":
            e["assert"] = "identity"
        if r == "remove_debug_profiling":
            e["profile"] = "noop"
        if r.startswith("{ rule: 'inject_global_value'"):
            v = json.loads(r.split("value:")[1].rstrip(" }"))
            e["gname"] = "INJ"
            e["gset"] = 1
            e["gval"] = gval(v)
    return e, None


def cfgs(tier, rng):
    out = [("single", ["remove_assertions"], g) for g in ("retain_lines", "dense")]
    out += [("single", ["remove_debug_profiling"], g) for g in ("retain_lines", "dense")]
    out += [("single", [inject(v)], "retain_lines") for v in VALUES]
    out += [("single", [inject(v)], "dense") for v in (VALUES if tier == "thorough" else VALUES[:3])]
    out += [("full", ["remove_assertions", "remove_debug_profiling", inject(5)], g) for g in ("retain_lines", "readable")]
    out += [("full", [inject("str"), "remove_debug_profiling", "remove_assertions"], "dense")]
    out += [("with-default", ["remove_assertions", "remove_debug_profiling", inject(True)] + sc.DEFAULT_RULES, "retain_lines")]
    out += [("with-default", sc.DEFAULT_RULES + ["remove_assertions", "remove_debug_profiling", inject(False)], "dense")]
    return out


def extra(c, prog, v):
    return {"trigger_injected_name_as_shadowed_prefix": trigger_prefix(prog), "trigger_profiling_call_last_in_list": trigger_profile_tail(prog)}


def trigger_profile_tail(prog):
    """F-C17-b: a debug.profilebegin/profileend call that is the LAST expression of an argument / return / table /
    local / assignment list (a no-op returns no value there, the rule writes `nil`)."""
    if prog is None:
        return False
    nodes = prog["nodes"]

    def is_prof(i):
        n = nodes[i - 1]
        if n["k"] != "call":
            return False
        f = nodes[n["a"] - 1]
        return f["k"] == "field" and f["s"] in ("profilebegin", "profileend") and nodes[f["a"] - 1]["k"] == "var" and nodes[f["a"] - 1]["s"] == "debug"

    for n in nodes:
        lists = []
        if n["k"] in ("ret", "call", "mcall", "local"):
            lists.append(n["l"])
        if n["k"] == "assign":
            lists.append(n["m"])
        if n["k"] == "table" and n["l"] and nodes[n["l"][-1] - 1]["k"] == "tpos":
            lists.append([nodes[n["l"][-1] - 1]["a"]])
        for l in lists:
            if l and is_prof(l[-1]):
                return True
    return False


def trigger_prefix(prog):
    """F-C17-a: the injected identifier occurs as the PREFIX of a field / index / call / method call while a local of that name is in scope."""
    if prog is None:
        return False
    nodes = prog["nodes"]
    declared = any((n["k"] == "local" and "INJ" in n["ns"]) or (n["k"] == "fn" and "INJ" in n["ns"]) or (n["k"] == "numfor" and n["s"] == "INJ")
                   or (n["k"] == "genfor" and "INJ" in n["ns"]) or (n["k"] == "localfn" and n["s"] == "INJ") for n in nodes)
    if not declared:
        return False
    for n in nodes:
        if n["k"] in ("field", "index", "call", "mcall") and nodes[n["a"] - 1]["k"] == "var" and nodes[n["a"] - 1]["s"] == "INJ":
            return True
    return False


def run(tier):
    return sc.run_property(PID, tier, "c17", cfgs, luau=False, env_for=env_for, full_labels=("full", "single", "with-default"), extra_sig=extra,
                           nrand=(60, 600))


def replay(path, tier):
    return sc.replay_property(PID, path, tier)
