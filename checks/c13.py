"""C13 -- string and number literals survive generation exactly.

G  TLC (MC_Literals) enumerates ALL byte strings of length <= 2 (65 793) and the structured families of the property
   (every byte followed by a digit, quotes/backslashes, valid and invalid UTF-8, lengths around the long-string
   thresholds, `]]` / `]=]` runs and bracket-like suffixes, leading newline, CR/LF/CRLF), doubles by boundary class,
   numbers with recorded exponents, hexadecimal and binary nodes; on the way it model-checks the design theorem
   Literals!RoundTrip on the TRANSCRIBED string writer with the reference lexer LuaLex.
R  dlv literals writes every literal with the dense, readable and token-based generators in the neighbour contexts
   `return X`, `return f(X)`, `return X .. X` / `X + X`, `return t[X]`, `return {[X]=X}`, `return f X`, `return -X`,
   and via Expression::from(double); number spellings go through darklua_core::Parser and the node's value is recorded.
V  TLC (LiteralTrace) lexes every text with LuaLex in Luau mode and in Lua 5.1 mode and decides: the string token decodes
   to exactly the original bytes (5.1: unless the literal needs the unicode escape), the number's tokens evaluate to the
   bit-identical double (IEEE754 primitives), every context is its template around the same tokens, parsed spellings
   have the value FOfDecimal(spelling)."""
import json, os, random
import vlib
from vlib import Report, tlc, tlc_ok, dlv, write_ndjson, read_ndjson

PID = "C13"


def spellings():
    out = ["0", "1", "42", "007", "123456789", "9007199254740993", "9007199254740992", "18446744073709551616", "123456789012345678901234567890",
           "0.5", ".5", "5.", "3.14159", "0.1", "0.30000000000000004", "1.0000000000000002", "00.500", "0.0", "0.", ".0"]
    for m in ("1", "1.5", ".5", "5.", "12", "0"):
        for e in ("e0", "e1", "E1", "e+1", "e-1", "e10", "E+10", "e-10", "e308", "e309", "e-323", "e-324", "e-400", "e0010", "E-0"):
            out.append(m + e)
    out += ["1_000", "1_0_0", "1__0", "100_", "1_.5", "0._5", ".5_", "1e1_0", "1e_1", "1_e1", "1e+1_0", "1e+_1", "1_000.000_1", "1_2e3_", "1__2.3__4e5__"]
    out += ["0x0", "0x1", "0xff", "0XFF", "0xAbCdEf", "0x7fffffffffffffff", "0x8000000000000000", "0xffffffffffffffff", "0xfffffffffffff800", "0xfffffffffffffbff",
            "0xfffffffffffffc00", "0x20000000000001", "0x20000000000003", "0x_ff", "0xf_f", "0xff_", "0_xff", "0x00000000000000000ff", "0X_F_F_", "0x10000000000000000", "0x1ffffffffffffffff"]
    out += ["0b0", "0b1", "0b101", "0B101", "0b1111_0000", "0b_1", "0b1_", "0_b1", "0b" + "1" * 64, "0b" + "1" * 53 + "0" * 11, "0b1" + "0" * 64, "0B_1_0_1"]
    out += ["1.7976931348623157e308", "1.7976931348623158e308", "1.7976931348623159e308", "2.4703282292062327e-324", "2.4703282292062328e-324", "4.9406564584124654e-324",
            "2.2250738585072011e-308", "2.2250738585072012e-308", "2.2250738585072014e-308", "0.1e1", "1e23", "8.41e21", "6.02214076e23", "9.5e-5", "1e-5", "4.35", "2.675",
            "0.1000000000000000055511151231257827021181583404541015625", "0.10000000000000000555111512312578270211815834045410156250000001",
            "9007199254740992.5", "9007199254740993.000000000000000000001", "4503599627370496.5", "4503599627370497.5", "1e22", "1e21", "123456789012345680", "5e-324", "3e-324", "2e-324",
            "179769313486231570814527423731704356798070567525844996598917476803157260780028538760589558632766878171540458953514382464234321326889464182768467546703537516986049910576551282076245490090389328944075868508455133942304583236903222948165808559332123348274797826204144723168738177180919299881250404026184124858368",
            "179769313486231580793728971405303415079934132710037826936173778980444968292764750946649017977587207096330286416692887910946555547851940402630657488671505820681908902000708383676273854845817711531764475730270069855571366959622842914819860834936475292719074168444365510704342711559699508093042880177904174497791",
            "0." + "0" * 320 + "1", "1" + "0" * 309, "0." + "0" * 323 + "49406564584124654"]
    return out


def is_long_number(c):
    """doubles whose plain decimal text is long (Rust prints no exponent): only three contexts are replayed for them"""
    hi = c["hi"] & 0x7fffffff
    e = (hi >> 20) - 1023
    return e > 90 or e < -80


def build_cases(mc_cases, tier, rng):
    strs = [c for c in mc_cases if c["kind"] == "str"]
    len2 = [c for c in strs if c["fam"] == "len2"]
    short = [c for c in len2 if len(c["b"]) <= 1]
    two = [c for c in len2 if len(c["b"]) == 2]
    other = [c for c in strs if c["fam"] != "len2"]
    if tier == "quick":
        # boundary bytes for both positions + a seeded sample
        edge = {0, 1, 9, 10, 13, 27, 31, 32, 34, 39, 47, 48, 57, 58, 65, 91, 92, 93, 96, 123, 126, 127, 128, 159, 160, 191, 192, 193, 194, 223, 224, 239, 240, 244, 245, 254, 255}
        pick = [c for c in two if c["b"][0] in edge and c["b"][1] in edge]
        rest = [c for c in two if not (c["b"][0] in edge and c["b"][1] in edge)]
        two_sel = pick + vlib.sample(rest, 2500, rng)
    else:
        two_sel = two
    cases = []
    for c in short + two_sel:
        cases.append({"kind": "str", "fam": "len2", "b": c["b"], "trig": c["trig"], "rt": c["rt"], "u": c["u"], "ctxs": ["ret", "sugar", "index"]})
    for c in other:
        cases.append({"kind": "str", "fam": c["fam"], "b": c["b"], "trig": c["trig"], "rt": c["rt"], "u": c["u"]})
    nums = [c for c in mc_cases if c["kind"] in ("num", "nume", "int")]
    longs = [c for c in nums if c["kind"] == "num" and is_long_number(c)]
    normal = [c for c in nums if not (c["kind"] == "num" and is_long_number(c))]
    if tier == "quick":
        longs = vlib.sample(longs, 150, rng)
    for c in normal:
        cases.append(dict(c))
    for c in longs:
        cases.append(dict(c, ctxs=["ret", "cat", "from"]))
    sp = spellings() + [c["text"] for c in mc_cases if c["kind"] == "parse"]      # + MC_Literals!NumberSpellings
    for t in sp:
        cases.append({"kind": "parse", "fam": "spelling", "text": t})
    srcs = [c for c in mc_cases if c["kind"] == "src"]
    for c in srcs:
        cases.append({"kind": "src", "fam": c["fam"], "b": c["b"]})
    for k, c in enumerate(cases):
        c["id"] = "L%d" % k
    return cases, {"strings_len_le_2_total": len(len2), "strings_len_le_2_replayed": len(short) + len(two_sel), "strings_structured": len(other),
                   "numbers": len(normal) + len(longs), "numbers_total_enumerated": len(nums), "spellings": len(sp), "source_string_spellings": len(srcs)}


def cause_of(c, o, x):
    if x["status"] != "ok":
        return "panic"
    if c["kind"] == "str":
        return "long_bracket_level" if c.get("trig") else "string_value"
    if c["kind"] == "parse":
        return "parsed_value"
    neg = (o["hi"] < 0) and c["kind"] in ("num", "nume")
    if neg and x["ctx"] == "cat" and all(g.startswith("dense") for g in x["gens"]):
        return "neg_number_concat"
    return "number_value" if x["ctx"] in ("ret", "from") else "number_neighbour"


def run_cases(rep, cases, label, chunk=8000):
    wd = rep.wd
    st = {"literals": 0, "texts": 0, "generator_runs": 0, "states": 0, "transitions": 0, "by_cause": {}, "drift": 0, "exempt_51": 0, "spellings_rejected": [],
          "spellings_undecided": [], "spellings_judged": 0, "strings_judged": 0, "numbers_judged": 0}
    samples = []
    byid = {c["id"]: c for c in cases}
    # interleave long and short cases so that the stride chains of the judge are balanced
    for ci in range(0, len(cases), chunk):
        part = cases[ci:ci + chunk]
        cp = os.path.join(wd, "cases-%s-%d.ndjson" % (label, ci))
        op = os.path.join(wd, "obs-%s-%d.ndjson" % (label, ci))
        write_ndjson(cp, part)
        dlv(["literals", "--cases", cp, "--out", op], timeout=7200)
        obs = read_ndjson(op)
        if len(obs) != len(part):
            raise vlib.ToolError("dlv literals returned %d observations for %d cases" % (len(obs), len(part)))
        res = tlc("trace/LiteralTrace", workers=12, timeout=14000, env={"OBS": op}, xmx="12g")
        tlc_ok(res, "LiteralTrace(%s)" % label)
        verdicts = {v["id"]: v for v in res.tagged("VERDICT")}
        if set(verdicts) != set(o["id"] for o in obs):
            raise vlib.ToolError("LiteralTrace judged %d of %d observations" % (len(verdicts), len(obs)))
        st["states"] += res.distinct
        st["transitions"] += res.generated
        for o in obs:
            v = verdicts[o["id"]]
            c = byid[o["id"]]
            st["literals"] += 1
            if o["kind"] == "src":
                if o["status"] != "ok":
                    st["src_rejected"] = st.get("src_rejected", 0) + 1
                elif v["undecided"]:
                    st["src_undecided"] = st.get("src_undecided", 0) + 1
                else:
                    st["src_judged"] = st.get("src_judged", 0) + 1
                if not v["ok"]:
                    st["by_cause"]["source_string_value"] = st["by_cause"].get("source_string_value", 0) + 1
                    rep.violation({"cause": "source_string_value", "literal": bytes(c["b"]).decode("latin-1")[:80], "read_as": [ord(ch) for ch in o["val"]][:80],
                                   "after_z": "after-z-vertical-tab-or-form-feed" if bytes(c["b"]).find(b"\\z") >= 0 and any(x in bytes(c["b"]) for x in (b"\x0b", b"\x0c")) else ""},
                                  {"kind": "src", "b": c["b"], "fam": c["fam"]})
                continue
            if o["kind"] == "parse":
                if o["status"] != "ok":
                    st["spellings_rejected"].append({"text": o["text"][:40], "status": o["status"][:60]})
                elif v["undecided"]:
                    st["spellings_undecided"].append(o["text"][:40])
                else:
                    st["spellings_judged"] += 1
                if not v["ok"]:
                    # value_ok: the parser gave the spelling its value; then what convert_luau_number wrote does not read back as it
                    cause = "converted_value" if v["value_ok"] else "parsed_value"
                    st["by_cause"][cause] = st["by_cause"].get(cause, 0) + 1
                    rep.violation({"cause": cause, "text": o["text"][:80], "node": o["node"], "got_hi": o["hi"], "got_lo": o["lo"],
                                   "written": sorted(set(x["out"].strip()[:60] for x in o.get("conv", [])))[:4] if cause == "converted_value" else []},
                                  {"kind": "parse", "text": o["text"], "fam": "spelling"})
                continue
            st["strings_judged" if o["kind"] == "str" else "numbers_judged"] += 1
            if v["exempt51"]:
                st["exempt_51"] += 1
            if o["kind"] == "str" and not v["model_ok"]:
                st["drift"] += 1
                if st["drift"] <= 5:
                    print("DRIFT property=C13 the transcribed string writer (Literals!WriteString) no longer describes the code: bytes=%s" % json.dumps(c["b"])[:200])
            if o["kind"] == "str" and c.get("rt") is not None and v["ok"] != c["rt"] and v["model_ok"]:
                raise vlib.ToolError("design model and real output agree byte for byte but the two judges disagree on %s" % o["id"])
            if not o["outs"]:
                raise vlib.ToolError("no output recorded for %s" % o["id"])
            for k, x in enumerate(o["outs"]):
                st["texts"] += 1
                st["generator_runs"] += len(x["gens"])
                if v["okv"][k]:
                    if len(samples) < 3 and st["literals"] % 997 == 5:
                        samples.append({"kind": o["kind"], "ctx": x["ctx"], "generators": x["gens"], "text": x["out"][:120]})
                    continue
                cause = cause_of(c, o, x)
                st["by_cause"][cause] = st["by_cause"].get(cause, 0) + 1
                sig = {"cause": cause, "kind": o["kind"], "fam": c.get("fam", ""), "ctx": x["ctx"], "generators": sorted(set(g.split(":")[0] for g in x["gens"])), "text": x["out"][:200]}
                if o["kind"] == "str":
                    sig["bytes"] = c["b"][:80]
                else:
                    sig.update({"hi": o["hi"], "lo": o["lo"]})
                payload = {k2: c[k2] for k2 in c if k2 not in ("id",)}
                payload["failing_text"] = x["out"]
                payload["failing_ctx"] = x["ctx"]
                rep.violation(sig, payload)
            if not v["ok"] and all(v["okv"]):
                rep.violation({"cause": "no_plain_output", "kind": o["kind"]}, {k2: c[k2] for k2 in c if k2 != "id"})
        for p in (cp, op):
            if ci > 0:
                try:
                    os.remove(p)
                except OSError:
                    pass
    return st, samples


def run(tier):
    rep = Report(PID, tier, "model_checking")
    rng = random.Random(vlib.seed())
    mc = tlc("mc/MC_Literals", workers=8, timeout=3000, xmx="8g")
    if mc.rc == 12 and mc.invariant_violated:
        import re
        m = re.findall(r"/\\ s = (<<.*>>)", mc.out)
        rep.violation({"cause": "design_theorem", "invariant": mc.invariant_violated, "bytes": m[-1][:300] if m else "?"},
                      {"kind": "design", "note": "Literals!RoundTrip fails on the transcribed writer for a string outside the open finding"})
        rep.coverage.update({"states": mc.distinct, "transitions": mc.generated, "traces_validated_against_impl": 0, "samples": []})
        return rep.finish()
    tlc_ok(mc, "MC_Literals")
    mc_cases = mc.tagged("CASE")
    nstr = sum(1 for c in mc_cases if c["kind"] == "str")
    if nstr < 69000 or len(mc_cases) < 72000:
        raise vlib.ToolError("MC_Literals emitted only %d literals (%d strings)" % (len(mc_cases), nstr))
    bad = [c for c in mc_cases if c["kind"] == "str" and not c["rt"] and not c["trig"]]
    if bad:
        raise vlib.ToolError("RoundTrip fails outside the trigger although the invariant held: %r" % bad[:1])
    cases, sizes = build_cases(mc_cases, tier, rng)
    pinned = vlib.pinned_reproducers(PID)
    for k, r in enumerate(pinned):
        if "kind" in r:
            cases.append(dict(r, id="K%d" % k, fam="pinned"))
    rng.shuffle(cases)
    st, samples = run_cases(rep, cases, "lit")
    rep.coverage.update({
        "states": mc.distinct + st["states"], "transitions": mc.generated + st["transitions"],
        "exhaustive": tier == "thorough",
        "design_theorem": {"strings_checked_by_tlc": nstr, "round_trip_fails_only_under_open_trigger": sum(1 for c in mc_cases if c["kind"] == "str" and not c["rt"]),
                           "strings_using_long_brackets": sum(1 for c in mc_cases if c["kind"] == "str" and c["long"]),
                           "strings_needing_unicode_escape": sum(1 for c in mc_cases if c["kind"] == "str" and c["u"])},
        "enumerated": sizes,
        "traces_validated_against_impl": st["texts"] + st["spellings_judged"],
        "literals_replayed": st["literals"], "texts_lexed_by_tlc": st["texts"], "generator_runs": st["generator_runs"],
        "strings_judged": st["strings_judged"], "numbers_judged": st["numbers_judged"], "strings_exempt_from_lua51_clause": st["exempt_51"],
        "source_strings_judged": st.get("src_judged", 0), "source_strings_rejected_by_darklua_parser": st.get("src_rejected", 0), "source_strings_undecided": st.get("src_undecided", 0),
        "spellings_judged": st["spellings_judged"], "spellings_rejected_by_darklua_parser": st["spellings_rejected"], "spellings_undecided_wider_than_64_bits": st["spellings_undecided"],
        "violating_texts_by_cause": st["by_cause"], "drift_strings": st["drift"],
        "samples": samples[:3],
        "checker_cmd": "tlc MC_Literals; dlv literals; tlc LiteralTrace",
        "level_note": "decided by TLC: RoundTrip on the transcribed string writer for every enumerated string (design); on every real output text: decoding by the reference lexer in Luau and Lua 5.1 mode, "
                      "bit-identity of the evaluated number tokens, neighbour templates, value of parsed spellings. Decimal <-> double rounding itself is the trusted IEEE754 primitive (java.math.BigDecimal).",
    })
    rep.assumptions += [
        "decimal -> double conversion of a numeral is the trusted primitive IEEE754!FOfDecimal (correctly rounded, java.math.BigDecimal / BigInteger); TLA+ decides syntax, escapes, templates and bit identity",
        "the written double must be bit-identical; every NaN is one canonical NaN",
        "Lua 5.1 clause for strings: exempt exactly when the value is valid UTF-8 containing a non-ASCII character (the writer then uses the Luau-only unicode escape), as the property says",
        "hexadecimal and binary spellings that need more than 64 bits are undecided (Luau saturates to 2^64 and lints; darklua rejects them); hexadecimal floats (`0x1p4`) are not Luau and not enumerated",
        "spellings the parser rejects are listed in the evidence, not judged (acceptance is C12's subject)",
        "doubles whose plain decimal text is long (|binary exponent| > ~85) are replayed in three contexts (`return X`, `X .. X`, Expression::from) instead of eight; quick tier samples 150 of them and ~3 900 of the 65 536 two-byte strings (all boundary-byte pairs + a seeded sample)",
        "interpolated-string segments are exercised by C02's catalogue, not here",
    ]
    return rep.finish()


def replay(path, tier):
    rep = Report(PID, tier, "model_checking")
    with open(path) as f:
        c = json.load(f)["case"]
    if c.get("kind") == "design":
        return run(tier)
    case = {k: v for k, v in c.items() if k not in ("failing_text", "failing_ctx")}
    case["id"] = "L0"
    st, _ = run_cases(rep, [case], "replay")
    rep.coverage.update({"states": st["states"], "transitions": st["transitions"], "traces_validated_against_impl": st["texts"] + st["spellings_judged"],
                         "violating_texts_by_cause": st["by_cause"], "samples": [c.get("failing_text", "")[:200]]})
    return rep.finish()
