"""C06 -- Luau-lowering rules preserve program behaviour (same machinery as C01, RuleCases group c06, Luau inputs)."""
import sem_common as sc

PID = "C06"
LOWER = ["remove_types", "remove_compound_assignment", "remove_continue", "remove_if_expression", "remove_interpolated_string",
         "{ rule: 'remove_interpolated_string', strategy: 'tostring' }", "remove_floor_division", "convert_luau_number",
         "make_assignment_local", "remove_attribute"]
ALL = [r for r in LOWER if not r.startswith("{")]


def cfgs(tier, rng):
    out = [("full", ALL, g) for g in ("retain_lines", "dense", "readable")]
    out += [("full", list(reversed(ALL)), "retain_lines")]
    out += [("single", [r], "retain_lines") for r in LOWER]
    out += [("single", [r], "dense") for r in LOWER]
    pairs = [(a, b) for a in ALL for b in ALL if a != b]
    for p in (rng.sample(pairs, 12) if tier == "quick" else pairs):
        out.append(("pair", list(p), rng.choice(["retain_lines", "dense", "readable"])))
    for _ in range(6 if tier == "quick" else 40):
        out.append(("subperm", rng.sample(ALL, rng.randint(3, len(ALL))), rng.choice(sc.GENERATORS)))
    out.append(("full+default", ALL + sc.DEFAULT_RULES, "retain_lines"))
    return out


def run(tier):
    return sc.run_property(PID, tier, "c06", cfgs, luau=True, full_labels=("full", "single", "full+default"))


def replay(path, tier):
    return sc.replay_property(PID, path, tier)
