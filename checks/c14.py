"""C14 -- data files convert to Lua values equal to the data.

G: TLC (spec/mc/MC_DataConv.tla over spec/darklua/DataConv.tla) model-checks the transcribed key-quoting rule against
   the reference lexer LuaLex (a key written bare lexes as ONE name token that is no keyword, both dialects) over every
   byte string up to a length bound plus every (contextual) keyword and its near misses, and enumerates data values:
   every keyword / digit-leading / empty / quote / backslash / newline / NUL / non-ASCII key, strings over the
   escape-relevant families, numbers beyond 2^53, negative, fractional, exponent forms, -0, inf/nan, every shape of
   nesting <= 3 with empty containers and nulls in every position.  Seeded random larger documents are composed from
   the leaves TLC produced.
R: dlv dataconv renders each value as JSON / JSON5 / YAML / TOML (/ txt) TEXT from the value (two spellings each) and
   feeds it through the real paths: the parsers of src/cli/convert.rs + darklua_core::convert_data, and
   `require('./data.<ext>')` while bundling (path/dense and luau/readable).  The emitted Lua is read by the
   independent parser.
V: TLC (spec/trace/DataTrace.tla) runs every emitted program with the TLA+ semantics and judges
   DataConv!LuaEq(returned value, datum) on the final heap; an emitted text the independent parser rejects, a
   conversion error, a panic or a refused valid document is a violation as well."""
import json, os, random, struct
import vlib
from vlib import Report, tlc, tlc_ok, dlv, write_ndjson, read_ndjson, log

PID = "C14"
CHUNK = 6000


# ---------------------------------------------------------------------------------------------- datum helpers
def walk(d):
    yield d
    for m in d["l"]:
        yield from walk(m)


def is_nonfinite(n):
    return n["k"] == "num" and ((n["hi"] & 0xffffffff) >> 20) & 0x7ff == 0x7ff


def is_int_text(tx):
    t = tx[1:] if tx.startswith("-") else tx
    return t.isdigit()


def triggers(d):
    nonfinite = overflow = big = False
    for n in walk(d):
        if n["k"] != "num":
            continue
        if is_nonfinite(n):
            nonfinite = True
            if n["tx"] not in ("inf", "-inf", "nan"):
                overflow = True
        if is_int_text(n["tx"]) and not (-(1 << 63) <= int(n["tx"]) <= (1 << 64) - 1):
            big = True
    return {"nonfinite": nonfinite, "overflow_literal": overflow, "big_int": big}


def family(fmt):
    return {"json": "json", "json5": "json", "yaml": "yaml", "yml": "yaml", "toml": "toml", "txt": "txt"}[fmt]


def random_docs(leaves, keys, n, rng):
    """larger documents (width <= 6, nesting <= 3) composed from the scalar leaves and keys TLC produced"""
    def val(depth):
        r = rng.random()
        if depth == 0 or r < 0.45:
            return dict(rng.choice(leaves))
        width = rng.choice([0, 1, 2, 3, 4, 6])
        base = {"k": "arr", "b": 0, "hi": 0, "lo": 0, "tx": "", "s": [], "ks": [], "l": []}
        if r < 0.72:
            base["l"] = [val(depth - 1) for _ in range(width)]
        else:
            base["k"] = "obj"
            ks = []
            for k in rng.sample(keys, min(width, len(keys))):
                if k not in ks:
                    ks.append(k)
            base["ks"] = ks
            base["l"] = [val(depth - 1) for _ in ks]
        return base
    docs = []
    for i in range(n):
        d = val(3)
        if rng.random() < 0.5 and d["k"] != "obj":          # TOML needs an object on top
            d = {"k": "obj", "b": 0, "hi": 0, "lo": 0, "tx": "", "s": [], "ks": [rng.choice(keys)], "l": [d]}
            if max_depth(d) > 3:
                d = d["l"][0]
        docs.append({"fam": "random", "d": d})
    return docs


def max_depth(d):
    if d["k"] not in ("arr", "obj"):
        return 0
    return 1 + max([max_depth(m) for m in d["l"]] + [0])


# ---------------------------------------------------------------------------------------------- pipeline
def observe_and_judge(rep, cases, label, corrupt=None):
    wd = rep.wd
    cp = os.path.join(wd, "%s-cases.ndjson" % label)
    write_ndjson(cp, cases)
    tp = os.path.join(wd, "%s-trace.ndjson" % label)
    sp = os.path.join(wd, "%s-status.ndjson" % label)
    args = ["dataconv", "--cases", cp, "--out", tp, "--status", sp]
    if corrupt:
        args += ["--corrupt", corrupt]
    dlv(args, timeout=3600)
    status = read_ndjson(sp)
    cli_runs = sum(int(s["status"].split(":")[1]) for s in status if s.get("path") == "cli-summary")
    status = [s for s in status if s.get("path") != "cli-summary"]
    if not corrupt and cli_runs < max(1, len(status) // 40):
        raise vlib.ToolError("the real `darklua convert` binary ran for %d of %d documents only (DLV_DARKLUA_BIN not built?)" % (cli_runs, len(status)))
    lines = open(tp).read().splitlines()
    verdicts = {}
    states = gen = 0
    for k in range(0, len(lines), CHUNK):
        part = os.path.join(wd, "%s-chunk%d.ndjson" % (label, k // CHUNK))
        with open(part, "w") as f:
            f.write("\n".join(lines[k:k + CHUNK]) + "\n")
        r = tlc("trace/DataTrace", workers=12, timeout=3600, env={"CASES": part}, xmx="16g")
        tlc_ok(r, "DataTrace(%s chunk %d)" % (label, k // CHUNK))
        vs = r.tagged("VERDICT")
        if len(vs) != len(lines[k:k + CHUNK]):
            raise vlib.ToolError("DataTrace judged %d of %d programs (%s)" % (len(vs), len(lines[k:k + CHUNK]), label))
        for v in vs:
            verdicts[v["id"]] = v
        states += r.distinct
        gen += r.generated
        os.remove(part)
    os.remove(tp)
    by_case = {c["id"]: c for c in cases}
    counts = {}
    disagreements = 0
    negzero = 0
    for s in status:
        c = by_case[s["case"]]
        trig = triggers(c["d"])
        base = {"fmt_family": family(s["fmt"]), "fmt": s["fmt"], "path": s["path"], "fam": c["fam"]}
        base.update(trig)
        payload = {"case": c, "fmt": s["fmt"], "path": s["path"], "variant": s["variant"], "doc": s["doc"], "out": s["out"]}
        st = s["status"]
        if st == "ok":
            v = verdicts[s.get("alias", s["id"])]
            key = "ok" if v["ok"] else "mismatch"
            if v["negzero"]:
                negzero += 1
            if not v["ok"]:
                disagreements += 1
                sig = dict(base, kind="value", mismatch=(v["where"] or ("status:%s:%s" % (v["st"], v["why"])))[:120], nret=v["nret"])
                payload["verdict"] = v
                rep.violation(sig, payload)
        else:
            key = st.split(":")[0]
            kind = {"input-rejected": "rejected", "output-rejected": "unparsable", "convert-error": "convert-error",
                    "bundle-error": "convert-error", "panic": "panic"}.get(key, "tool")
            if kind == "tool":
                raise vlib.ToolError("dlv dataconv: %s (%s)" % (st[:200], s["id"]))
            disagreements += 1
            rep.violation(dict(base, kind=kind, mismatch=st[:160]), payload)
        counts[key] = counts.get(key, 0) + 1
        fk = "%s/%s" % (s["fmt"], s["path"])
        counts[fk] = counts.get(fk, 0) + 1
    return {"status": status, "counts": counts, "programs": len(status), "executed": len(lines), "states": states, "cli_runs": cli_runs,
            "transitions": gen, "disagreements": disagreements, "negzero": negzero}


def enumerate_cases(tier):
    g = tlc("mc/MC_DataConv", workers=8, timeout=1800, env={"SHAPES": "small" if tier == "quick" else "full", "KEYLEN": 3}, xmx="8g")
    if g.invariant_violated:
        return g, []
    tlc_ok(g, "MC_DataConv")
    cases = g.tagged("CASE")
    for k, c in enumerate(cases):
        c["id"] = "d%d" % k
    return g, cases


def run(tier):
    rep = Report(PID, tier, "translation_validation")
    rng = random.Random(vlib.seed())
    g, cases = enumerate_cases(tier)
    if g.invariant_violated:
        # the transcribed key rule (or the enumeration itself) contradicts the reference lexer: a design-level violation
        rep.violation({"kind": "design", "invariant": g.invariant_violated, "mismatch": "MC_DataConv invariant violated"},
                      {"tlc_tail": "\n".join(g.out.splitlines()[-40:])})
        rep.coverage.update({"programs": 0, "disagreements_checked": 1, "samples": []})
        return rep.finish()
    if len(cases) < 1000:
        raise vlib.ToolError("MC_DataConv enumerated only %d data values" % len(cases))
    incomplete = g.tagged("INCOMPLETE")
    leaves, keys = [], []
    seen = set()
    for c in cases:
        for n in walk(c["d"]):
            if n["k"] in ("null", "bool", "num", "str"):
                t = json.dumps(n, sort_keys=True)
                if t not in seen:
                    seen.add(t)
                    leaves.append(n)
            for k in n["ks"]:
                if k not in keys:
                    keys.append(k)
    nrand = 300 if tier == "quick" else 4000
    rnd = random_docs(leaves, keys, nrand, rng)
    for k, c in enumerate(rnd):
        c["id"] = "r%d" % k
    # decimals with 17+ significant digits (where a decimal -> binary conversion that is not correctly rounded shows): seeded
    # random doubles in their shortest form, with 17 digits and with 21 digits; the expected double is Python's float(text)
    precise = []
    for k in range(40 if tier == "quick" else 400):
        nums = []
        for _ in range(10):
            x = struct.unpack("<d", struct.pack("<Q", rng.getrandbits(64)))[0]
            if x != x or x in (float("inf"), float("-inf")) or abs(x) > 1e300 or (x != 0 and abs(x) < 1e-300):
                x = rng.uniform(-1e6, 1e6)
            tx = rng.choice([repr(x), "%.17g" % x, "%.20e" % x, repr(rng.uniform(-1e12, 1e12)), "%.16f" % rng.uniform(0, 1e5)])
            if tx[0] == "-" and rng.random() < 0.5:
                tx = tx[1:]
            bits = struct.unpack("<Q", struct.pack("<d", float(tx)))[0]
            sgn = lambda w: w - (1 << 32) if w >= (1 << 31) else w
            nums.append({"k": "num", "b": 0, "hi": sgn(bits >> 32), "lo": sgn(bits & 0xffffffff), "tx": tx, "s": [], "ks": [], "l": []})
        precise.append({"id": "n%d" % k, "fam": "precise", "d": {"k": "obj", "b": 0, "hi": 0, "lo": 0, "tx": "", "s": [], "ks": [list(b"n")], "l": [{"k": "arr", "b": 0, "hi": 0, "lo": 0, "tx": "", "s": [], "ks": [], "l": nums}]}})
    pinned = []
    for r in vlib.pinned_reproducers(PID):
        pinned.append({"id": r["id"], "fam": "pinned", "d": r["d"]})
    allc = cases + rnd + precise + pinned
    res = observe_and_judge(rep, allc, "main", corrupt=os.environ.get("C14_CORRUPT"))
    c = res["counts"]
    if res["programs"] < 4 * len(allc) or c.get("ok", 0) + res["disagreements"] != res["programs"]:
        raise vlib.ToolError("only %d conversions of %d documents were observed (%s)" % (res["programs"], len(allc), c))
    ok_status = [s for s in res["status"] if s["status"] == "ok"]
    rep.coverage.update({
        "programs": res["programs"], "disagreements_checked": res["disagreements"], "documents_converted_by_the_real_cli_binary": res["cli_runs"],
        "samples": [{"doc": s["doc"][:300], "fmt": s["fmt"], "path": s["path"], "out": s["out"][:300]} for s in (ok_status[0], ok_status[len(ok_status) // 2], ok_status[-1])],
        "distinct_programs_executed": res["executed"], "data_values_enumerated": len(cases), "random_documents": nrand,
        "key_rule_universe": g.distinct - len(cases), "key_rule_incompleteness": len(incomplete),
        "outcomes": {k: v for k, v in c.items() if "/" not in k}, "per_format_and_path": {k: v for k, v in c.items() if "/" in k},
        "sign_of_zero_differences_tolerated": res["negzero"],
        "states": g.distinct + res["states"], "transitions": g.generated + res["transitions"],
    })
    rep.assumptions += [
        "the ground truth of a document is the value it was rendered from (spec/darklua/DataConv.tla); numbers carry the decimal spelling and the nearest double computed by IEEE754!FOfDecimal, cross-checked against Rust's correctly rounding parser in the driver",
        "sign of zero is not part of the verdict (-0 == 0 in Lua, Lua 5.1 merges the two constants, integer -0 of YAML/TOML/JSON5 has no sign); differences are counted",
        "documents are UTF-8 text: strings and keys range over UTF-8 sequences (every byte value that can occur in UTF-8), not over arbitrary bytes",
        "value shapes a format cannot express are skipped for that format (TOML: no null, table on top; JSON: no inf/nan; decimal literals overflowing binary64 are only written in JSON/JSON5, YAML and TOML leave them to the reader)",
        "YAML mappings with non-string keys, YAML tags/anchors and TOML date-times are outside the data model of the property",
        "`darklua convert` is mimicked at the library boundary exactly as src/cli/convert.rs does it (same parser per extension, then darklua_core::convert_data); the binary itself is not spawned",
    ]
    return rep.finish()


def replay(path, tier):
    rep = Report(PID, tier, "translation_validation")
    with open(path) as f:
        case = json.load(f)["case"]
    if "case" not in case:
        raise vlib.ToolError("replay file carries no data case (design-level violations are replayed by running MC_DataConv)")
    c = dict(case["case"], id="replay")
    res = observe_and_judge(rep, [c], "replay", corrupt=os.environ.get("C14_CORRUPT"))
    rep.coverage.update({"programs": res["programs"], "disagreements_checked": res["disagreements"], "outcomes": res["counts"],
                         "samples": [{"doc": s["doc"][:300], "fmt": s["fmt"], "path": s["path"], "out": s["out"][:300]} for s in res["status"][:3]]})
    return rep.finish()
