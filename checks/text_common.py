"""Shared by the text-level checks (C03, C18, C04): trivia-placement cases from MC_Trivia, the `dlv text`
driver, and the TLC judge TextTrace (reference lexer LuaLex)."""
import os, json, re
import vlib
from vlib import tlc, tlc_ok, dlv, write_ndjson, read_ndjson


def trivia_cases(modes, workers=8, stride=1, offset=0):
    """Runs MC_Trivia once per mode; returns (cases, states, generated). stride > 1: TLC renders only the placements whose index
    is `offset` modulo `stride` (sampling done by the specification's Init predicate)."""
    cases, st, gen = [], 0, 0
    for m in modes:
        r = tlc("mc/MC_Trivia", workers=workers, timeout=1800, env={"MODE": m, "STRIDE": str(stride), "OFFSET": str(offset)}, xmx="8g")
        tlc_ok(r, "MC_Trivia(%s)" % m)
        cs = r.tagged("CASE")
        if not cs:
            raise vlib.ToolError("MC_Trivia(%s) emitted no case" % m)
        cases += cs
        st += r.distinct
        gen += r.generated
    return cases, st, gen


def lits(patterns):
    """except patterns restricted to literals, optionally anchored with ^ and / or case-insensitive with a leading (?i)
    (see TextTrace!MatchesPat)."""
    out = []
    for p in patterns:
        ci = 1 if p.startswith("(?i)") else 0          # an inline flag scoped to THIS pattern only
        if ci:
            p = p[4:]
        anchored = 1 if p.startswith("^") else 0
        lit = p[1:] if anchored else p
        assert not any(ch in lit for ch in ".*+?()[]{}|\\$^"), "literal patterns only"
        out.append({"anchored": anchored, "ci": ci, "lit": list(lit.encode())})
    return out


def run_and_judge(wd, label, cases, workers=12, timeout=3000):
    """cases: dicts with id, src, kind, rules, except, text, location (uniform fields). Returns (obs by id, verdicts by id, tlc result)."""
    for c in cases:
        c.setdefault("except", [])
        c.setdefault("text", [])
        c.setdefault("location", "")
        c.setdefault("rules", "[]")
        c.setdefault("shift", 0)
        c.setdefault("tspans", [])
        c.setdefault("names", 0)
    cp = os.path.join(wd, "cases-%s.ndjson" % label)
    write_ndjson(cp, cases)
    op = os.path.join(wd, "obs-%s.ndjson" % label)
    dlv(["text", "--cases", cp, "--out", op])
    obs_rows = read_ndjson(op)
    obs = {o["id"]: o for o in obs_rows}
    verdicts, res = judge_obs(op, label, obs_rows, workers, timeout)
    return obs, verdicts, res


def judge_obs(op, label, obs_rows, workers=12, timeout=3000):
    """TextTrace over recorded observations (chunked). Returns (verdicts by id, tlc result)."""
    obs = {o["id"]: o for o in obs_rows}
    verdicts = {}
    res = None
    CH = 6000
    for k in range(0, len(obs_rows), CH):
        part = op + ".part%d" % (k // CH)
        write_ndjson(part, obs_rows[k:k + CH])
        r = tlc("trace/TextTrace", workers=workers, timeout=timeout, env={"OBS": part}, xmx="12g")
        tlc_ok(r, "TextTrace(%s, chunk %d)" % (label, k // CH))
        for v in r.tagged("VERDICT"):
            verdicts[v["id"]] = v
        os.remove(part)
        if res is None:
            res = r
        else:
            res.distinct += r.distinct
            res.generated += r.generated
    if set(verdicts) != set(obs):
        raise vlib.ToolError("TextTrace judged %d of %d observations (%s)" % (len(verdicts), len(obs), label))
    return verdicts, res


# ---- finding F-C03-f: the token-based generator writes the `...` of a type pack (`...T`, `T...`) without the trivia that the
# parser attached to that token: its LEADING trivia (what precedes it on its own line(s), after the line of the previous token)
# and its TRAILING trivia (what follows it up to and including the end of its line).  retain_lines then pads line breaks in
# front of the next token so that it keeps its line.  A failing typed case is judged AGAIN by TextTrace with exactly that
# trivia removed from the SOURCE side: if the verdict then holds, the failure is the recorded finding and nothing else.
def _items(s):
    """[(kind, start, end)] over s; kinds: ws (blanks), nl (one line break), lc (line comment without its line break),
    bc (long comment), code (one code token or one character of it)."""
    out, p, n = [], 0, len(s)
    while p < n:
        c = s[p]
        if c in " \t":
            q = p
            while q < n and s[q] in " \t":
                q += 1
            out.append(("ws", p, q))
        elif c == "\r" and s[p:p + 2] == "\r\n":
            q = p + 2
            out.append(("nl", p, q))
        elif c in "\r\n":
            q = p + 1
            out.append(("nl", p, q))
        elif s.startswith("--", p):
            q = p + 2
            m = re.match(r"\[(=*)\[", s[q:])
            if m:
                close = "]" + m.group(1) + "]"
                e = s.find(close, q + len(m.group(0)))
                q = n if e < 0 else e + len(close)
                out.append(("bc", p, q))
            else:
                while q < n and s[q] not in "\r\n":
                    q += 1
                out.append(("lc", p, q))
        elif c in "\"'":
            q = p + 1
            while q < n and s[q] != c:
                q += 2 if s[q] == "\\" else 1
            q = min(n, q + 1)
            out.append(("code", p, q))
        elif s.startswith("...", p):
            q = p + 3
            out.append(("code", p, q))
        elif c.isalnum() or c == "_":
            q = p
            while q < n and (s[q].isalnum() or s[q] == "_"):
                q += 1
            out.append(("code", p, q))
        else:
            m = re.match(r"\[(=*)\[", s[p:])
            if m:
                close = "]" + m.group(1) + "]"
                e = s.find(close, p + len(m.group(0)))
                q = n if e < 0 else e + len(close)
            else:
                q = p + 1
            out.append(("code", p, q))
        p = q
    return out


def without_ellipsis_trivia(src, tspans):
    """(src2, tspans2, changed).  Type packs: a `...` inside a type region (`...T`, `T...`), and `Name...` of a generic
    parameter list (outside the regions a `...` preceded by a name can only be that: a vararg expression never follows a name)."""
    items = _items(src)
    marks = sorted(tspans)
    edits = []                 # (start, end, replacement) over src, ascending and disjoint
    for x, (kind, a, b) in enumerate(items):
        if kind != "code" or src[a:b] != "...":
            continue
        prev = next((y for y in range(x - 1, -1, -1) if items[y][0] == "code"), None)
        nxt = next((y for y in range(x + 1, len(items)) if items[y][0] == "code"), None)
        in_type = any(lo <= a + 1 <= hi + 1 for lo, hi in marks)
        pc = src[items[prev][2] - 1] if prev is not None else ""
        if not (in_type or pc.isalnum() or pc == "_"):
            continue
        # leading trivia of the ellipsis: what follows the first line break after the previous token
        lead_from = None
        for y in range((prev + 1) if prev is not None else 0, x):
            if items[y][0] == "nl":
                lead_from = y + 1
                break
        if prev is None:
            lead_from = 0
        lead = (items[lead_from][1], a) if lead_from is not None and lead_from < x else None
        # trailing trivia: up to and including the first line break
        trail_to = x
        for y in range(x + 1, nxt if nxt is not None else len(items)):
            trail_to = y
            if items[y][0] == "nl":
                break
        trail = (b, items[trail_to][2]) if trail_to > x else None
        removed = (src[lead[0]:lead[1]] if lead else "") + (src[trail[0]:trail[1]] if trail else "")
        lines = sum(1 for k2, a2, b2 in _items(removed) if k2 == "nl") + sum(removed[a2:b2].count("\n") for k2, a2, b2 in _items(removed) if k2 == "bc")
        if lead and lead[1] > lead[0]:
            edits.append((lead[0], lead[1], ""))
        if trail and trail[1] > trail[0]:
            edits.append((trail[0], trail[1], ""))
        if lines and nxt is not None:
            edits.append((items[nxt][1], items[nxt][1], "\n" * lines))
    edits.sort()
    if not edits:
        return src, tspans, False
    res, last = [], 0
    for a, b, rep in edits:
        res.append(src[last:a])
        res.append(rep)
        last = b
    res.append(src[last:])
    src2 = "".join(res)

    def mp(x):           # 1-based byte offset of src -> src2 (texts of the typed templates are ASCII)
        d = 0
        for a, b, rep in edits:
            if x - 1 >= b:
                d += (b - a) - len(rep)
            elif x - 1 >= a:
                d += (x - 1 - a) - min(len(rep), x - 1 - a)
        return x - d
    spans2 = [[mp(lo), mp(hi)] for lo, hi in tspans]
    return src2, spans2, src2 != src


def rejudge_without_ellipsis_trivia(wd, label, obs, failing_ids):
    """Returns the set of ids among failing_ids whose verdict holds once the trivia after type-pack ellipses is removed from
    the SOURCE side (finding F-C03-f)."""
    rows = []
    for cid in failing_ids:
        o = obs[cid]
        if not o.get("tspans") or o["status"] != "ok":
            continue
        src = text_of(o["srcb"])
        if not src.isascii():
            continue
        src2, spans2, changed = without_ellipsis_trivia(src, o["tspans"])
        if not changed:
            continue
        o2 = dict(o, srcb=list(src2.encode()), tspans=spans2)
        rows.append(o2)
    if not rows:
        return set()
    op = os.path.join(wd, "obs-%s-rejudge.ndjson" % label)
    verdicts, _ = judge_obs(op, label + "-rejudge", rows)
    return set(cid for cid, v in verdicts.items() if v["ok"])


def text_of(bs):
    return bytes(bs).decode("utf-8", "replace")


def only_bracket_spaces(src, out):
    """True iff out = src with single spaces inserted between a `]` and a following `]` (finding F-C03-a)."""
    i = j = 0
    inserted = 0
    while j < len(out):
        if i < len(src) and src[i] == out[j]:
            i += 1
            j += 1
        elif out[j] == " " and j > 0 and out[j - 1] == "]" and j + 1 < len(out) and out[j + 1] == "]":
            j += 1
            inserted += 1
        else:
            return False
    return i == len(src) and inserted > 0


def ends_with_generic_pack(src):
    """the last code token of the text is the `...` of a generic type pack (`Name...`): a comment attached to that token is
    not written by the token-based generator (finding F-C03-f)"""
    code = [(a, b) for k, a, b in _items(src) if k == "code"]
    if len(code) < 2:
        return False
    (a1, b1), (a2, b2) = code[-2], code[-1]
    return src[a2:b2] == "..." and (src[b1 - 1].isalnum() or src[b1 - 1] == "_")
