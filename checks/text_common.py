"""Shared by the text-level checks (C03, C18, C04): trivia-placement cases from MC_Trivia, the `dlv text`
driver, and the TLC judge TextTrace (reference lexer LuaLex)."""
import os, json
import vlib
from vlib import tlc, tlc_ok, dlv, write_ndjson, read_ndjson


def trivia_cases(modes, workers=8):
    """Runs MC_Trivia once per mode; returns (cases, states, generated)."""
    cases, st, gen = [], 0, 0
    for m in modes:
        r = tlc("mc/MC_Trivia", workers=workers, timeout=1800, env={"MODE": m}, xmx="8g")
        tlc_ok(r, "MC_Trivia(%s)" % m)
        cs = r.tagged("CASE")
        if not cs:
            raise vlib.ToolError("MC_Trivia(%s) emitted no case" % m)
        cases += cs
        st += r.distinct
        gen += r.generated
    return cases, st, gen


def lits(patterns):
    """except patterns restricted to literals, optionally anchored with ^ (see TextTrace!MatchesPat)."""
    out = []
    for p in patterns:
        anchored = 1 if p.startswith("^") else 0
        lit = p[1:] if anchored else p
        assert not any(ch in lit for ch in ".*+?()[]{}|\\$^"), "literal patterns only"
        out.append({"anchored": anchored, "lit": list(lit.encode())})
    return out


def run_and_judge(wd, label, cases, workers=12, timeout=3000):
    """cases: dicts with id, src, kind, rules, except, text, location (uniform fields). Returns (obs by id, verdicts by id, tlc result)."""
    for c in cases:
        c.setdefault("except", [])
        c.setdefault("text", [])
        c.setdefault("location", "")
        c.setdefault("rules", "[]")
        c.setdefault("shift", 0)
    cp = os.path.join(wd, "cases-%s.ndjson" % label)
    write_ndjson(cp, cases)
    op = os.path.join(wd, "obs-%s.ndjson" % label)
    dlv(["text", "--cases", cp, "--out", op])
    obs_rows = read_ndjson(op)
    obs = {o["id"]: o for o in obs_rows}
    verdicts = {}
    res = None
    CH = 6000
    for k in range(0, len(obs_rows), CH):
        part = op + ".part%d" % (k // CH)
        write_ndjson(part, obs_rows[k:k + CH])
        r = tlc("trace/TextTrace", workers=workers, timeout=timeout, env={"OBS": part}, xmx="12g")
        tlc_ok(r, "TextTrace(%s, chunk %d)" % (label, k // CH))
        for v in r.tagged("VERDICT"):
            verdicts[v["id"]] = v
        os.remove(part)
        if res is None:
            res = r
        else:
            res.distinct += r.distinct
            res.generated += r.generated
    if set(verdicts) != set(obs):
        raise vlib.ToolError("TextTrace judged %d of %d observations (%s)" % (len(verdicts), len(obs), label))
    return obs, verdicts, res


def text_of(bs):
    return bytes(bs).decode("utf-8", "replace")


def only_bracket_spaces(src, out):
    """True iff out = src with single spaces inserted between a `]` and a following `]` (finding F-C03-a)."""
    i = j = 0
    inserted = 0
    while j < len(out):
        if i < len(src) and src[i] == out[j]:
            i += 1
            j += 1
        elif out[j] == " " and j > 0 and out[j - 1] == "]" and j + 1 < len(out) and out[j + 1] == "]":
            j += 1
            inserted += 1
        else:
            return False
    return i == len(src) and inserted > 0
