"""C09 -- renaming variables never changes which binding a name refers to.

G1: TLC model-checks BindingPreserved on the transcription of darklua's name generator (stream, avoid set,
    sorted reuse pool, kept names) for EVERY well-bracketed sequence of scope events up to MaxN (design level).
G2: TLC builds programs statement by statement (MC_Renamer program builder): all closed programs of <= 2
    statements exhaustively, longer ones by TLC simulation; each program is emitted as text + scope events.
R : dlv rename runs the real rename_variables rule (include_functions on/off, a `globals` list) and records the
    identifier tokens of the output in textual order.
V : TLC (RenamerTrace) replays the reference resolver over the events with the recorded names."""
import json, os, random
import vlib
from vlib import Report, tlc, tlc_ok, dlv, write_ndjson, read_ndjson
import renamer_gen

PID = "C09"


def emit_cases(env, simulate=None, depth=None, seed=None, workers=8):
    extra = ["-seed", str(seed)] if seed is not None else None
    r = tlc("mc/MC_Renamer", cfg="mc/MC_RenamerEmit.cfg", workers=workers, timeout=1800, env=env, simulate=simulate, depth=depth, extra=extra, xmx="8g")
    # simulation mode ends with exit status 0 as well
    tlc_ok(r, "MC_Renamer(emit)")
    return r.tagged("CASE"), r


def big_program(rng, nlocals):
    """hundreds of simultaneously live locals force multi-character names; globals named like later locals."""
    text, events, t = [], [], 0
    names = ["v%d" % k for k in range(nlocals)]
    for k, nm in enumerate(names):
        text.append("local %s = g%d" % (nm, k % 7))
        events += [{"e": "use", "x": "g%d" % (k % 7), "t": t + 2}, {"e": "decl", "x": nm, "t": t + 1}]
        t += 2
    for k in range(0, nlocals, 3):
        text.append("u(%s)" % names[k])
        events += [{"e": "use", "x": "u", "t": t + 1}, {"e": "use", "x": names[k], "t": t + 2}]
        t += 2
    # a global whose name equals a two-letter generated name, used after many locals exist
    for gname in ("aa", "ab", "b", "a_"):
        text.append("u(%s)" % gname)
        events += [{"e": "use", "x": "u", "t": t + 1}, {"e": "use", "x": gname, "t": t + 2}]
        t += 2
    return {"text": "\n".join(text) + "\n", "events": events, "globals": [], "keep_functions": rng.random() < 0.5, "nids": t}


def run(tier):
    rep = Report(PID, tier, "model_checking")
    rng = random.Random(vlib.seed())
    # G1 design
    maxn = 7 if tier == "quick" else 9
    g1 = tlc("mc/MC_Renamer", cfg="mc/MC_RenamerEvents.cfg", workers=12, timeout=7000, env={"MAXN": maxn}, xmx="24g")
    tlc_ok(g1, "MC_Renamer(events): the transcription of darklua's generator violates BindingPreserved")
    # sanity of the model: without the globals pre-pass the theorem must fail (otherwise the check is vacuous)
    g1b = tlc("mc/MC_Renamer", cfg="mc/MC_RenamerEvents.cfg", workers=8, timeout=1800, env={"MAXN": 5, "DevNoGlobalsPrepass": 1})
    if g1b.rc == 0:
        raise vlib.ToolError("design model is vacuous: removing the globals pre-pass does not violate BindingPreserved")
    # G2 programs
    cases, g2 = emit_cases({"EMIT": 1, "MAXN": 2})
    nsim, depth = (3000, 18) if tier == "quick" else (30000, 24)
    sim, g3 = emit_cases({"EMIT": 1, "MAXN": depth}, simulate=nsim, depth=depth, seed=vlib.seed(), workers=4)
    seen = set()
    allc = []
    for c in cases + sim:
        key = (c["text"], c["keep_functions"])
        if key in seen:
            continue
        seen.add(key)
        allc.append(c)
    for n in ((60, 130) if tier == "quick" else (60, 130, 700, 1500)):
        allc.append(big_program(rng, n))
    # long structured programs (scopes that close, names declared twice in a scope, kept function names, globals named like locals)
    for k in range(1500 if tier == "quick" else 20000):
        allc.append(renamer_gen.program(rng, nstmts=rng.randint(12, 60), names=rng.choice([("a", "b", "x"), ("a", "b"), ("a", "b", "x", "f", "c"), ("a", "self", "b"), ("self", "x")])))
    allc += [r for r in vlib.pinned_reproducers(PID) if "events" in r]      # regression inputs of the fixed findings
    for k, c in enumerate(allc):
        c["id"] = "p%d" % k
        c["listed"] = ["u"]
    if len(allc) < 2000:
        raise vlib.ToolError("only %d programs generated" % len(allc))
    cp = os.path.join(rep.wd, "cases.ndjson")
    write_ndjson(cp, allc)
    op = os.path.join(rep.wd, "obs.ndjson")
    dlv(["rename", "--cases", cp, "--out", op])
    v = tlc("trace/RenamerTrace", workers=12, timeout=3000, env={"OBS": op}, xmx="12g")
    tlc_ok(v, "RenamerTrace")
    verdicts = {x["id"]: x for x in v.tagged("VERDICT")}
    obs = {o["id"]: o for o in read_ndjson(op)}
    if set(verdicts) != set(obs):
        raise vlib.ToolError("RenamerTrace judged %d of %d programs" % (len(verdicts), len(obs)))
    renamed = 0
    for cid, ver in verdicts.items():
        o = obs[cid]
        renamed += 1 if ver["renamed"] > 0 else 0
        if not ver["ok"]:
            sig = {"kind": "binding", "why": ver["why"][:160], "keep_functions": o["keep_functions"], "text": o["text"][:400]}
            rep.violation(sig, {k: o[k] for k in ("id", "text", "events", "keep_functions", "nids", "listed", "globals", "out")})
    if renamed < len(allc) // 2:
        raise vlib.ToolError("only %d of %d programs were renamed at all: vacuous run" % (renamed, len(allc)))
    rep.coverage.update({
        "states": g1.distinct + g2.distinct + v.distinct, "transitions": g1.generated + g2.generated + g3.generated + v.generated,
        "traces_validated_against_impl": len(allc),
        "samples": [allc[5]["text"], allc[len(allc) // 2]["text"], allc[-3]["text"][:200]],
        "exhaustive": True,
        "design_event_sequences_up_to": maxn, "design_states": g1.distinct,
        "programs_exhaustive_up_to_2_statements": len(cases), "long_structured_random_programs": 1500 if tier == "quick" else 20000, "programs_from_simulation": len(sim), "distinct_programs": len(allc),
        "programs_in_which_some_identifier_was_renamed": renamed,
        "checker_cmd": "tlc MC_Renamer (SpecEvents, design) ; tlc MC_Renamer (program builder, exhaustive + -simulate) ; dlv rename ; tlc RenamerTrace",
    })
    rep.assumptions += ["global detection on (detect_globals = true, the default); `globals` list = ['u']",
                        "programs are built from the statement forms of MC_Renamer (locals, initialisers, do/while/if/repeat/for, local functions, function expressions, methods with self, field access); names a, b, x plus large generated programs",
                        "identifier tokens are aligned between input and output by position (renaming preserves the token sequence)"]
    return rep.finish()


def replay(path, tier):
    rep = Report(PID, tier, "model_checking")
    with open(path) as f:
        c = json.load(f)["case"]
    c.pop("out", None)
    cp = os.path.join(rep.wd, "replay-cases.ndjson")
    write_ndjson(cp, [c])
    op = os.path.join(rep.wd, "replay-obs.ndjson")
    dlv(["rename", "--cases", cp, "--out", op])
    v = tlc("trace/RenamerTrace", workers=1, timeout=600, env={"OBS": op})
    tlc_ok(v, "RenamerTrace")
    o = read_ndjson(op)[0]
    for ver in v.tagged("VERDICT"):
        if not ver["ok"]:
            rep.violation({"kind": "binding", "why": ver["why"][:160], "keep_functions": o["keep_functions"], "text": o["text"][:400]}, c)
    rep.coverage.update({"states": v.distinct, "transitions": v.generated, "traces_validated_against_impl": 1, "samples": [c["text"][:300]]})
    return rep.finish()
