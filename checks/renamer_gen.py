"""Seeded generator of long programs for C09, mirroring the statement forms of spec/mc/MC_Renamer.tla (same text, same
scope events, same token indexes).  The judge stays TLC (RenamerTrace); this only supplies longer, more varied inputs
than TLC's exhaustive / simulated enumeration: scopes that close and are followed by more declarations, names declared
twice in one scope (also kept `local function` names), locals named like globals used later, many live locals."""


def program(rng, nstmts=40, names=("a", "b", "x"), fnnames=("b", "f")):
    G = set(n for n in ("a", "x", "b", "f") if rng.random() < 0.4)
    kf = rng.random() < 0.5
    text, evs, stack, scopes, idx = [], [], [], [set()], 0

    def declared(n):
        return any(n in s for s in scopes)

    def ok_use(n):
        return n in ("u", "self") or declared(n) or n in G

    def E(e, x, t):
        return {"e": e, "x": x, "t": 0 if t == 0 else idx + t}

    def emit(line, seq, nids, closer=None, after=()):
        nonlocal idx
        for ev in seq:
            if ev["e"] == "use" and not ok_use(ev["x"]):
                return False
        text.append(line)
        for ev in seq:
            evs.append(ev)
            if ev["e"] == "push":
                scopes.append(set())
            elif ev["e"] in ("decl", "declfn", "self"):
                scopes[-1].add(ev["x"])
        if closer:
            stack.append((closer, list(after)))
        idx += nids
        return True

    n = 0
    guard = 0
    while n < nstmts and guard < nstmts * 20:
        guard += 1
        c = rng.random()
        x, y = rng.choice(names), rng.choice(names)
        if stack and c < 0.22:
            closer, after = stack.pop()
            if closer == "until":
                z = rng.choice(names)
                if not ok_use(z):
                    stack.append((closer, after))
                    continue
                text.append("until " + z)
                evs.append({"e": "use", "x": z, "t": idx + 1})
                evs.append({"e": "pop", "x": "", "t": 0})
                idx += 1
            else:
                text.append("end")
                evs.append({"e": "pop", "x": "", "t": 0})
            scopes.pop()
            for a in after:
                evs.append(a)
                scopes[-1].add(a["x"])
            n += 1
            continue
        ok = False
        if c < 0.30:
            ok = emit("local " + x, [E("decl", x, 1)], 1)
        elif c < 0.32:
            # Luau type positions (as in MC_Renamer): the namespace of `y.T` is an occurrence of the declared local y
            ok = declared(y) and emit("local %s: %s.T = u" % (x, y), [E("use", "u", 4), E("use", y, 2), E("keep", "T", 3), E("decl", x, 1)], 4)
        elif c < 0.35:
            ok = declared(y) and emit("u(%s :: %s.T)" % (x, y), [E("use", "u", 1), E("use", x, 2), E("use", y, 3), E("keep", "T", 4)], 4)
        elif c < 0.36:
            ok = declared(y) and emit("type T = %s.T" % y, [E("keep", "type", 1), E("keep", "T", 2), E("use", y, 3), E("keep", "T", 4)], 4)
        elif c < 0.48:
            ok = emit("local %s = %s" % (x, y), [E("use", y, 2), E("decl", x, 1)], 2)
        elif c < 0.60:
            ok = emit("u(%s)" % x, [E("use", "u", 1), E("use", x, 2)], 2)
        elif c < 0.64:
            ok = emit("%s = u" % x, [E("use", x, 1), E("use", "u", 2)], 2)
        elif c < 0.67:
            ok = emit("u(%s.a)" % x, [E("use", "u", 1), E("use", x, 2), E("keep", "a", 3)], 3)
        elif c < 0.72:
            ok = emit("do", [E("push", "", 0)], 0, "end")
        elif c < 0.80:
            f = rng.choice(fnnames)
            ok = emit("local function %s(%s)" % (f, x), [E("declfn", f, 1), E("push", "", 0), E("decl", x, 2)], 2, "end")
        elif c < 0.85:
            # the declaration of f happens after the function body closes: its event is emitted at `end`
            f = rng.choice(names)
            after = [{"e": "decl", "x": f, "t": idx + 1}]
            ok = emit("local %s = function(%s)" % (f, x), [E("push", "", 0), E("decl", x, 2)], 2, "end", after)
        elif c < 0.88:
            ok = emit("function u:m(%s)" % x, [E("use", "u", 1), E("keep", "m", 2), E("push", "", 0), E("self", "self", 0), E("decl", x, 3)], 3, "end")
        elif c < 0.90:
            ok = emit("u(self)", [E("use", "u", 1), E("use", "self", 2)], 2)
        elif c < 0.905:
            z = rng.choice(names)
            ok = declared(y) and emit("for %s: %s.T in %s do" % (x, y, z), [E("use", z, 4), E("use", y, 2), E("keep", "T", 3), E("push", "", 0), E("decl", x, 1)], 4, "end")
        elif c < 0.91:
            ok = emit("type function T(%s)" % x, [E("keep", "type", 1), E("keep", "T", 2), E("push", "", 0), E("decl", x, 3)], 3, "end")
        elif c < 0.94:
            ok = emit("for %s = %s, %s do" % (x, y, y), [E("use", y, 2), E("use", y, 3), E("push", "", 0), E("decl", x, 1)], 3, "end")
        elif c < 0.96:
            ok = emit("while %s do" % x, [E("use", x, 1), E("push", "", 0)], 1, "end")
        elif c < 0.98:
            ok = emit("if %s then" % x, [E("use", x, 1), E("push", "", 0)], 1, "end")
        else:
            ok = emit("repeat", [E("push", "", 0)], 0, "until")
        if ok:
            n += 1
    while stack:
        closer, after = stack.pop()
        if closer == "until":
            z = next((m for m in list(names) + ["u"] if ok_use(m)), "u")
            text.append("until " + z)
            evs.append({"e": "use", "x": z, "t": idx + 1})
            evs.append({"e": "pop", "x": "", "t": 0})
            idx += 1
        else:
            text.append("end")
            evs.append({"e": "pop", "x": "", "t": 0})
        scopes.pop()
        for a in after:
            evs.append(a)
            scopes[-1].add(a["x"])
    return {"text": "\n".join(text) + "\n", "events": evs, "globals": sorted(G), "keep_functions": kf, "nids": idx}
