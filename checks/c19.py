"""C19 -- configurations are read strictly and round-trip without loss.

G1: TLC model-checks the IDEAL Config (every deviation flag off) on the bounded schema: RoundTrip, SerInjective
    and Strict hold for every enumerated text (sanity of the model: the repaired design satisfies the property).
G2: TLC model-checks the CODE-SHAPED Config (today's flags): counterexamples under a named trigger (an open
    finding) are counted as DESIGN-* lines, any other counterexample fails the run; every state is emitted as a CASE.
R : dlv config renders every abstract text to json5 and replays it into the real darklua_core: read, write, read
    again, write again, and darklua_core::process over the probe project with the original and the re-read configuration.
V : ConfigTrace (TLC) judges every observation (strict / roundtrip / idempotent / conformance) and every group of
    observations that were written to the same text (injective)."""
import json, os, random
import vlib
from vlib import Report, tlc, tlc_ok, dlv, write_ndjson, read_ndjson, log

PID = "C19"
CASE_KEYS = ("id", "t", "kind", "fam", "ck", "site", "key", "expect", "text", "tag")


def generator_name(t):
    for e in t.get("top", []):
        if e["k"] == "generator":
            if e["ty"] == "str":
                return e["v"][0] if e["v"] else ""
            v = e["v"]
            for k in range(0, len(v) - 2, 3):
                if v[k] == "name":
                    return v[k + 2]
    return ""


def judge(rep, cases, label, stats):
    """R + V on a list of cases; classifies every failing verdict. Returns (obs by id, TLC result)."""
    wd = rep.wd
    cp = os.path.join(wd, "cases-%s.ndjson" % label)
    write_ndjson(cp, [{k: c[k] for k in CASE_KEYS if k in c} for c in cases])
    op = os.path.join(wd, "obs-%s.ndjson" % label)
    dlv(["config", "--cases", cp, "--out", op])
    obs = read_ndjson(op)
    if len(obs) != len(cases):
        raise vlib.ToolError("dlv config returned %d observations for %d cases" % (len(obs), len(cases)))
    byid = {c["id"]: c for c in cases}
    # injectivity groups: observations written to the same text (grouping only; TLC judges)
    groups = {}
    for k, o in enumerate(obs):
        if o["accepted"] and o["ran"] and o["text_out"]:
            groups.setdefault(o["text_out"], []).append(k + 1)
    glist = [{"gid": "g%d" % n, "members": m} for n, (_, m) in enumerate(sorted(groups.items())) if len(m) > 1]
    gp = os.path.join(wd, "groups-%s.ndjson" % label)
    write_ndjson(gp, glist)
    env = {"OBS": op}
    if glist:
        env["GROUPS"] = gp
    env.update(stats.get("flags", {}))
    res = tlc("trace/ConfigTrace", workers=8, timeout=3000, env=env, xmx="8g")
    tlc_ok(res, "ConfigTrace(%s)" % label)
    verdicts = res.tagged("VERDICT")
    gverdicts = res.tagged("GROUP")
    if len(verdicts) != len(obs) or len(gverdicts) != len(glist):
        raise vlib.ToolError("ConfigTrace judged %d/%d observations and %d/%d groups" % (len(verdicts), len(obs), len(gverdicts), len(glist)))
    obyid = {o["id"]: o for o in obs}
    for v in verdicts:
        o = obyid[v["id"]]
        c = byid[v["id"]]
        payload = {"cases": [{k: c[k] for k in CASE_KEYS if k in c}], "text": o["text"], "text_out": o["text_out"], "error": o["error"],
                   "reparse_error": o["reparse_error"], "verdict": v}
        stats["observations"] += 1
        if v["panic"]:
            rep.violation({"kind": "panic", "fam": c.get("fam", ""), "panic": v["panic"][:200]}, payload)
            continue
        if not v["strict_ok"]:
            if v["accepted"]:      # the code silently accepts what the specification rejects
                stats["accepted_invalid"] += 1
                rep.violation({"kind": "strict", "ck": c.get("ck", ""), "site": c.get("site", ""), "key": c.get("key", ""), "fam": c.get("fam", ""),
                               "generator_name": generator_name(c["t"]), "text": o["text"][:300]}, payload)
            else:                  # the code rejects a text of the documented schema: the model is out of date (drift), not a C19 verdict
                stats["rejected_valid"] += 1
                stats["rejected_valid_samples"].append({"text": o["text"][:200], "error": o["error"][:200]})
            continue
        if not v["accepted"]:
            stats["rejected_as_specified"] += 1
            continue
        stats["accepted_valid"] += 1
        stats["round_trips"] += 1
        if v["model_blind"]:
            stats["model_blind"] += 1
        if not v["conform"]:
            stats["drift_written_text_differs_from_Ser"] += 1
            if len(stats["drift_samples"]) < 5:
                stats["drift_samples"].append({"text": o["text"][:200], "text_out": o["text_out"][:200]})
        if not v["rt_ok"]:
            for d in v["diffs"]:
                rep.violation({"kind": "roundtrip", "rule": d["site"], "keys": ",".join(sorted(d["keys"])), "real_outputs_identical": bool(o["same_outputs"]),
                               "reread": bool(o["reparsed"]), "text": o["text"][:300], "text_out": o["text_out"][:300]}, payload)
        elif not v["idem_ok"]:
            rep.violation({"kind": "idempotent", "fam": c.get("fam", ""), "text": o["text"][:300]}, payload)
    for g in gverdicts:
        stats["groups"] += 1
        if g["ok"]:
            continue
        for p in g["pairs"]:
            ca, cb = byid[p["a"]], byid[p["b"]]
            payload = {"cases": [{k: ca[k] for k in CASE_KEYS if k in ca}, {k: cb[k] for k in CASE_KEYS if k in cb}],
                       "text_a": obyid[p["a"]]["text"], "text_b": obyid[p["b"]]["text"], "text_out": obyid[p["a"]]["text_out"], "verdict": p}
            diffs = p["diffs"] or [{"site": "unexplained", "keys": []}]
            for d in diffs:
                rep.violation({"kind": "injective", "rule": d["site"], "keys": ",".join(sorted(d["keys"])), "real_outputs_differ": bool(p["real_differs"]),
                               "text_a": obyid[p["a"]]["text"][:300], "text_b": obyid[p["b"]]["text"][:300], "text_out": obyid[p["a"]]["text_out"][:300]}, payload)
    return obyid, res


def flags_from_env():
    """VERIF_C19_FLAGS="DevX=0,DevY=1": override deviation flags of the trace specification (used to demonstrate the binding)."""
    out = {}
    for kv in os.environ.get("VERIF_C19_FLAGS", "").split(","):
        if "=" in kv:
            k, v = kv.split("=", 1)
            out[k.strip()] = v.strip()
    return out


def new_stats():
    return {"flags": flags_from_env(), "observations": 0, "accepted_valid": 0, "rejected_as_specified": 0, "accepted_invalid": 0, "rejected_valid": 0,
            "rejected_valid_samples": [], "round_trips": 0, "groups": 0, "model_blind": 0,
            "drift_written_text_differs_from_Ser": 0, "drift_samples": []}


def vacuity(cases, obs):
    """The probe project must make every rule, property and filter observable: otherwise the real half of the verdict is vacuous."""
    loud = set()
    fams = set()
    digests = {}
    for c in cases:
        o = obs[c["id"]]
        if c.get("kind") != "valid" or not o["accepted"] or not o["ran"]:
            continue
        fam = c.get("fam", "")
        digests.setdefault(fam, set()).add(o["digest"])
        t = c["t"]
        if fam not in ("top", "pair") and len(t["rules"]) == 1:
            fams.add(fam)
            es = t["rules"][0]["entries"]
            if not any(e["k"] in ("apply_to_files", "skip_files") for e in es) and len(o["changed"]) == 3:
                loud.add(fam)
    if fams - loud or len(fams) < 32:
        raise vlib.ToolError("probe project: %d rules observed; rules that leave some probe file unchanged (their filters would be unobservable): %s" % (len(fams), sorted(fams - loud)))
    for fam in ("remove_empty_do", "rename_variables", "inject_global_value", "append_text_comment", "top"):
        if len(digests.get(fam, ())) < 5:
            raise vlib.ToolError("probe project: family %s shows only %d distinct behaviours" % (fam, len(digests.get(fam, ()))))
    return {f: len(d) for f, d in sorted(digests.items())}


def run(tier):
    rep = Report(PID, tier, "model_checking")
    mode = {"MODE": tier}
    # G1: the ideal design satisfies the theorems
    g1 = tlc("mc/MC_Config", workers=8, timeout=3000, env=dict(mode, CONFIG_IDEAL="1"), xmx="10g")
    if g1.rc != 0 or g1.tagged("DESIGN-ROUNDTRIP") or g1.tagged("DESIGN-STRICT") or g1.tagged("DESIGN-INJECTIVE"):
        if g1.rc == 0:
            raise vlib.ToolError("MC_Config (ideal design) reports design-level counterexamples: the model itself violates C19")
        tlc_ok(g1, "MC_Config (ideal design): the model itself violates C19")
    # G2: the code-shaped model; counterexamples only under the named triggers
    g2 = tlc("mc/MC_Config", workers=8, timeout=3000, env=mode, xmx="10g")
    if g2.invariant_violated:
        raise vlib.ToolError("MC_Config (code-shaped): invariant %s fails outside every named deviation -- the transcription has an unnamed defect" % g2.invariant_violated)
    tlc_ok(g2, "MC_Config (code-shaped)")
    cases = g2.tagged("CASE")
    floor = 1500 if tier == "quick" else 5000
    if len(cases) < floor or len(g1.tagged("CASE")) != len(cases):
        raise vlib.ToolError("MC_Config enumerated %d cases (ideal: %d), expected at least %d" % (len(cases), len(g1.tagged("CASE")), floor))
    for k, c in enumerate(cases):
        c["id"] = "c%d" % k
    nvalid = sum(1 for c in cases if c["kind"] == "valid")
    ncorrupt = len(cases) - nvalid
    if ncorrupt < 300 or nvalid < (1000 if tier == "quick" else 3000):
        raise vlib.ToolError("MC_Config: %d valid and %d corrupted texts only" % (nvalid, ncorrupt))
    pinned = vlib.pinned_reproducers(PID)
    stats = new_stats()
    obs, v = judge(rep, cases + pinned, "enumerated", stats)
    per_family = vacuity(cases, obs)
    if stats["rejected_valid"] > nvalid // 50 or stats["model_blind"] > nvalid // 50:
        raise vlib.ToolError("the code rejects %d texts the model calls valid and writes %d texts the model cannot read: the model is out of date (%s)"
                             % (stats["rejected_valid"], stats["model_blind"], stats["rejected_valid_samples"][:2]))
    ck = {}
    for c in cases:
        if c["kind"] == "corrupt":
            ck[c["ck"]] = ck.get(c["ck"], 0) + 1
    rng = random.Random(vlib.seed())
    if stats["drift_written_text_differs_from_Ser"] or stats["model_blind"] or stats["rejected_valid"]:
        log("DRIFT: %d written texts differ from Ser(c), %d are unreadable by the model, %d texts of the schema were rejected by the code (no verdict; see evidence)"
            % (stats["drift_written_text_differs_from_Ser"], stats["model_blind"], stats["rejected_valid"]))
    open_ids = [f["id"] for f in rep.findings if f.get("status") == "open" and PID in f.get("properties", [])]
    rep.coverage.update({
        "open_findings_not_reproduced (candidates for `fixed`)": [i for i in open_ids if i not in rep.known],
        "states": g1.distinct + g2.distinct + v.distinct,
        "transitions": g1.generated + g2.generated + v.generated,
        "traces_validated_against_impl": stats["observations"],
        "samples": [{"text": obs[c["id"]]["text"], "kind": c["kind"], "ck": c["ck"], "expect": c["expect"]} for c in vlib.sample(cases, 6, rng)],
        "exhaustive": True,
        "enumerated_texts": len(cases), "valid_texts": nvalid, "corrupted_texts": ncorrupt, "corruptions_by_kind": ck,
        "rules_covered": len(set(c["fam"] for c in cases if c["kind"] == "valid") - {"top", "pair"}),
        "pinned_reproducers": len(pinned),
        "accepted_and_round_tripped": stats["round_trips"], "rejected_as_specified": stats["rejected_as_specified"],
        "accepted_although_invalid": stats["accepted_invalid"], "rejected_although_valid (drift)": stats["rejected_valid"],
        "same_text_groups_judged": stats["groups"],
        "written_text_differs_from_Ser (drift)": stats["drift_written_text_differs_from_Ser"], "drift_samples": stats["drift_samples"],
        "written_text_unreadable_by_model (drift)": stats["model_blind"],
        "distinct_real_behaviours_per_family": per_family,
        "design_level_counterexamples": {"roundtrip": len(g2.tagged("DESIGN-ROUNDTRIP")), "injective": len(g2.tagged("DESIGN-INJECTIVE")),
                                         "strict": len(g2.tagged("DESIGN-STRICT"))},
        "design_level_counterexamples_ideal_model": 0,
        "checker_cmd": "tlc MC_Config (ideal; code-shaped) ; dlv config ; tlc ConfigTrace",
    })
    rep.assumptions += [
        "bounded schema: all 32 rule names; every property of every rule at absent / default / non-default sample values; filters none/apply/skip/both as one string or a list of two (thorough: also a list of one and an empty list); generator and bundle forms listed in MC_Config; roblox require mode only by name (rojo_sourcemap / indexing_style not enumerated); object values of inject_global_value.value not enumerated",
        "strings are opaque to the model: validity of globs, regexes, identifiers and numerals is tabulated for the sample strings (Config.tla: InvalidGlobs, InvalidRegexes, InvalidIdents, Usizes)",
        "behaviour is observed on an in-memory probe project of 5 sources on which every rule, every property sample and every filter sample changes some output, except `$roblox` in rename_variables.globals and luau aliases shadowed by .luaurc (compared at model level only)",
        "the environment variable DLV_C19_DEFINED is set to `true` and DLV_C19_UNDEFINED is unset by the driver (inject_global_value env / env_json)",
        "at most one entry in sources / aliases / excludes (HashMap / HashSet iteration order makes the written text of larger maps nondeterministic; texts are compared structurally)",
        "SerInjective is model-checked per family (one rule, or the top level) -- Ser is compositional; on the real code every group of observations written to the same text is judged",
        "a text of the documented schema that the code rejects is counted as drift (C19 allows rejection with an error); more than 2% of them is a tool error",
    ]
    return rep.finish()


def replay(path, tier):
    rep = Report(PID, tier, "model_checking")
    with open(path) as f:
        payload = json.load(f)["case"]
    cases = payload["cases"] if "cases" in payload else [payload]
    for k, c in enumerate(cases):
        c.setdefault("id", "r%d" % k)
        c.setdefault("kind", "valid")
    stats = new_stats()
    obs, v = judge(rep, cases, "replay", stats)
    rep.coverage.update({"states": v.distinct, "transitions": v.generated, "traces_validated_against_impl": len(cases),
                         "samples": [{"text": o["text"], "accepted": o["accepted"], "text_out": o["text_out"]} for o in obs.values()]})
    return rep.finish()
