"""Shared by the meaning-preservation checks (C01, C06, C16, C17, C05, C14): RuleCases enumeration, the `dlv sem`
driver (independent parser on input and output, real darklua in between) and the TLC executor LuaEquiv."""
import json, os, subprocess, sys
import vlib
from vlib import tlc, tlc_ok, dlv, write_ndjson, read_ndjson, log

DEFAULT_RULES = ["remove_spaces", "remove_comments", "compute_expression", "remove_unused_if_branch", "remove_unused_while",
                 "filter_after_early_return", "remove_empty_do", "remove_unused_variable", "remove_method_definition",
                 "convert_index_to_field", "remove_nil_declaration", "rename_variables", "remove_function_call_parens"]
GENERATORS = ["retain_lines", "dense", "readable", "{ name: 'dense', column_span: 1 }", "{ name: 'readable', column_span: 20 }"]


def rules_text(names):
    return "[" + ", ".join(n if n.startswith("{") else "'%s'" % n for n in names) + "]"


def rule_cases(group):
    r = tlc("mc/MC_RuleCases", workers=4, timeout=900, env={"GROUP": group}, xmx="4g")
    tlc_ok(r, "MC_RuleCases(%s)" % group)
    cs = r.tagged("CASE")
    if not cs:
        raise vlib.ToolError("MC_RuleCases(%s) emitted nothing" % group)
    return cs, r


def equiv(wd, label, cases, chunk=3000, workers=12):
    """cases: dicts with id, src, rules, generator (+ enva/envb). Returns {id: verdict-record}; a record has
    `verdict` in equal/differ/discard/unknown, or `status` when darklua / a parser failed before execution."""
    cp = os.path.join(wd, "sem-%s-cases.ndjson" % label)
    write_ndjson(cp, cases)
    ep = os.path.join(wd, "sem-%s-equiv.ndjson" % label)
    sp = os.path.join(wd, "sem-%s-status.ndjson" % label)
    dlv(["sem", "--cases", cp, "--out", ep, "--status", sp], timeout=7200)
    status = {s["id"]: s for s in read_ndjson(sp)}
    results = {}
    for cid, s in status.items():
        if s["status"] != "ok":
            results[cid] = {"id": cid, "verdict": "notrun", "status": s["status"], "out": s["out"]}
    # chunk the LuaEquiv input (JSON loading is single-threaded and memory hungry)
    lines = open(ep).read().splitlines()
    states = gen = 0
    for k in range(0, len(lines), chunk):
        part = os.path.join(wd, "sem-%s-chunk%d.ndjson" % (label, k // chunk))
        with open(part, "w") as f:
            f.write("\n".join(lines[k:k + chunk]) + "\n")
        r = tlc("lua/LuaEquiv", workers=workers, timeout=3600, env={"CASES": part}, xmx="24g", metaname="LuaEquiv")
        tlc_ok(r, "LuaEquiv(%s chunk %d)" % (label, k // chunk))
        vs = r.tagged("VERDICT")
        if len(vs) != len(lines[k:k + chunk]):
            raise vlib.ToolError("LuaEquiv reported %d of %d cases (%s)" % (len(vs), len(lines[k:k + chunk]), label))
        for v in vs:
            v["out"] = status[v["id"]]["out"]
            results[v["id"]] = v
        states += r.distinct
        gen += r.generated
        os.remove(part)
    os.remove(ep)
    # cases whose (input program, output program, environments) equal an earlier case share its verdict
    for cid, s in status.items():
        if s["status"] == "ok" and "alias" in s:
            v = dict(results[s["alias"]])
            v["id"] = cid
            v["out"] = s["out"]
            v["alias"] = s["alias"]
            results[cid] = v
    return results, states, gen


def summarize(results):
    c = {}
    for v in results.values():
        k = v["verdict"] if v["verdict"] != "notrun" else "notrun:" + v["status"].split(":")[0]
        c[k] = c.get(k, 0) + 1
    return c


def attribute(wd, label, differing, rules_of):
    """For each differing case (dict with id, src, generator, enva/envb), find the first rule of its pipeline after
    which the program is no longer equivalent to the original. Returns {id: culprit rule name or 'generator'}."""
    prefix_cases = []
    for c in differing:
        rules = rules_of[c["id"]]
        for k in range(1, len(rules) + 1):
            pc = {"id": "%s|%d" % (c["id"], k), "src": c["src"], "rules": rules_text(rules[:k]), "generator": "retain_lines"}
            for e in ("enva", "envb"):
                if e in c:
                    pc[e] = c[e]
            prefix_cases.append(pc)
    if not prefix_cases:
        return {}, 0, 0
    res, st, gen = equiv(wd, label + "-attr", prefix_cases)
    culprit = {}
    for c in differing:
        rules = rules_of[c["id"]]
        found = None
        for k in range(1, len(rules) + 1):
            v = res.get("%s|%d" % (c["id"], k))
            if v is not None and v["verdict"] in ("differ", "notrun"):
                found = rules[k - 1]
                break
        culprit[c["id"]] = found if found is not None else "generator"
    return culprit, st, gen


# ---- trigger predicates of the open findings, evaluated on the node table of the ORIGINAL program
def parse_nodes(src):
    """node table of a source text through the independent parser (luaparse binary built with the harness)."""
    exe = os.path.join(vlib.HARNESS, "luaparse", "target", "debug", "luaparse")
    if not os.path.exists(exe):
        subprocess.run(["cargo", "build", "--offline", "--quiet"], cwd=os.path.join(vlib.HARNESS, "luaparse"), check=True)
    tmp = os.path.join(vlib.WORK, "tmp-parse-%d.lua" % os.getpid())
    with open(tmp, "w") as f:
        f.write(src)
    r = subprocess.run([exe, tmp], stdout=subprocess.PIPE, stderr=subprocess.PIPE, text=True)
    os.remove(tmp)
    if r.returncode != 0:
        return None
    return json.loads(r.stdout)


def _known_truthiness(nodes, i):
    n = nodes[i - 1]
    k = n["k"]
    if k in ("nil", "true", "false", "num", "str", "fn", "table"):
        return True
    if k == "paren":
        return _known_truthiness(nodes, n["a"])
    if k == "not":
        return _known_truthiness(nodes, n["a"])
    if k == "bin" and n["s"] in ("==", "~=", "<", "<=", ">", ">=", "+", "-", "*", "/", "%", "^", ".."):
        return _known_truthiness(nodes, n["a"]) and _known_truthiness(nodes, n["b"])
    if k in ("and", "or"):
        return _known_truthiness(nodes, n["a"]) and _known_truthiness(nodes, n["b"])
    return False


def trigger_andor_multi(prog):
    """F-C01-a: an and/or whose left operand has statically known truthiness and whose right operand is a call or `...`,
    sitting last in a return / argument / positional-table / local / assignment / generic-for list."""
    if prog is None:
        return False
    nodes = prog["nodes"]

    def multi(i):
        return nodes[i - 1]["k"] in ("call", "mcall", "vararg")

    def hit(i):
        n = nodes[i - 1]
        if n["k"] in ("and", "or") and _known_truthiness(nodes, n["a"]):
            r = nodes[n["b"] - 1]
            if multi(n["b"]):
                return True
            if r["k"] in ("and", "or"):
                return hit(n["b"])
        return False

    for n in nodes:
        lists = []
        if n["k"] in ("ret", "call", "mcall", "local", "genfor"):
            lists.append(n["l"])
        if n["k"] == "assign":
            lists.append(n["m"])
        if n["k"] == "table" and n["l"]:
            last = nodes[n["l"][-1] - 1]
            if last["k"] == "tpos" and hit(last["a"]):
                return True
        for l in lists:
            if l and hit(l[-1]):
                return True
    return False
