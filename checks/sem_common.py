"""Shared by the meaning-preservation checks (C01, C06, C16, C17, C05, C14): RuleCases enumeration, the `dlv sem`
driver (independent parser on input and output, real darklua in between) and the TLC executor LuaEquiv."""
import json, re, os, subprocess, sys
import vlib
from vlib import tlc, tlc_ok, dlv, write_ndjson, read_ndjson, log

DEFAULT_RULES = ["remove_spaces", "remove_comments", "compute_expression", "remove_unused_if_branch", "remove_unused_while",
                 "filter_after_early_return", "remove_empty_do", "remove_unused_variable", "remove_method_definition",
                 "convert_index_to_field", "remove_nil_declaration", "rename_variables", "remove_function_call_parens"]
GENERATORS = ["retain_lines", "dense", "readable", "{ name: 'dense', column_span: 1 }", "{ name: 'readable', column_span: 20 }"]


def rules_text(names):
    return "[" + ", ".join(n if n.startswith("{") else "'%s'" % n for n in names) + "]"


def rule_cases(group, tier="quick"):
    r = tlc("mc/MC_RuleCases", workers=4, timeout=1800, env={"GROUP": group, "TIER": tier}, xmx="6g")
    tlc_ok(r, "MC_RuleCases(%s)" % group)
    cs = r.tagged("CASE")
    if not cs:
        raise vlib.ToolError("MC_RuleCases(%s) emitted nothing" % group)
    return cs, r


# which rules act on the shapes of a generated family (spec/darklua/RuleProducts.tla): routing only -- a configuration
# containing one of these rules gets the whole family, any other configuration a sample of it
FAMILY_RULES = {
    "unused": {"remove_unused_variable", "remove_nil_declaration", "group_local_assignment", "remove_unused_if_branch", "compute_expression"},
    "ifexpr": {"compute_expression", "remove_if_expression", "remove_unused_if_branch"},
    "compound": {"remove_compound_assignment", "remove_floor_division", "remove_types", "remove_interpolated_string", "remove_if_expression"},
    "method": {"remove_method_call", "remove_method_definition"},
    "removed": {"remove_assertions", "remove_debug_profiling"},
    "blocks": {"remove_empty_do", "remove_unused_if_branch", "filter_after_early_return", "remove_unused_while", "remove_unused_variable"},
    "shadow06": {"remove_floor_division", "remove_interpolated_string"},
    "shadow16": {"convert_square_root_call"},
    "shadow17": {"remove_assertions", "remove_debug_profiling", "inject_global_value"},
    "scope": {"remove_unused_variable", "rename_variables", "remove_nil_declaration", "group_local_assignment", "convert_local_function_to_assign",
              "convert_function_to_assignment", "remove_method_definition", "remove_method_call", "convert_square_root_call"},
}


def rule_name(r):
    if isinstance(r, dict):
        return r.get("rule", "")
    r = str(r)
    m = re.search(r"rule:\s*['\"]([a-z_]+)['\"]", r)
    return m.group(1) if m else r.strip("'\" ")


def enum_pool(enum, rules, everything, rng, other_sample=40):
    """The enumerated cases a configuration receives: every hand-listed case; every member of the generated families its
    rules act on (all families when `everything`); a seeded sample of the other families."""
    names = set(rule_name(r) for r in rules)
    out = []
    for fam in [""] + sorted(FAMILY_RULES):
        members = [c for c in enum if c.get("fam", "") == fam]
        if fam == "" or everything or (FAMILY_RULES[fam] & names):
            out += members
        else:
            out += rng.sample(members, min(other_sample, len(members)))
    return out


def equiv(wd, label, cases, chunk=3000, workers=12):
    """cases: dicts with id, src, rules, generator (+ enva/envb). Returns {id: verdict-record}; a record has
    `verdict` in equal/differ/discard/unknown, or `status` when darklua / a parser failed before execution."""
    cp = os.path.join(wd, "sem-%s-cases.ndjson" % label)
    write_ndjson(cp, cases)
    ep = os.path.join(wd, "sem-%s-equiv.ndjson" % label)
    sp = os.path.join(wd, "sem-%s-status.ndjson" % label)
    dlv(["sem", "--cases", cp, "--out", ep, "--status", sp], timeout=7200)
    status = {s["id"]: s for s in read_ndjson(sp)}
    results = {}
    for cid, s in status.items():
        if s["status"] != "ok":
            results[cid] = {"id": cid, "verdict": "notrun", "status": s["status"], "out": s["out"]}
    # chunk the LuaEquiv input (JSON loading is single-threaded and memory hungry)
    lines = open(ep).read().splitlines()
    states = gen = 0
    for k in range(0, len(lines), chunk):
        part = os.path.join(wd, "sem-%s-chunk%d.ndjson" % (label, k // chunk))
        with open(part, "w") as f:
            f.write("\n".join(lines[k:k + chunk]) + "\n")
        r = tlc("lua/LuaEquiv", workers=workers, timeout=3600, env={"CASES": part}, xmx="24g", metaname="LuaEquiv")
        tlc_ok(r, "LuaEquiv(%s chunk %d)" % (label, k // chunk))
        vs = r.tagged("VERDICT")
        if len(vs) != len(lines[k:k + chunk]):
            raise vlib.ToolError("LuaEquiv reported %d of %d cases (%s)" % (len(vs), len(lines[k:k + chunk]), label))
        for v in vs:
            v["out"] = status[v["id"]]["out"]
            results[v["id"]] = v
        states += r.distinct
        gen += r.generated
        os.remove(part)
    os.remove(ep)
    # cases whose (input program, output program, environments) equal an earlier case share its verdict
    for cid, s in status.items():
        if s["status"] == "ok" and "alias" in s:
            v = dict(results[s["alias"]])
            v["id"] = cid
            v["out"] = s["out"]
            v["alias"] = s["alias"]
            results[cid] = v
    return results, states, gen


def summarize(results):
    c = {}
    for v in results.values():
        k = v["verdict"] if v["verdict"] != "notrun" else "notrun:" + v["status"].split(":")[0]
        c[k] = c.get(k, 0) + 1
    return c


STEP_INPUT = {}     # case id -> text of the program that entered the culprit rule step (filled by attribute)


def attribute(wd, label, differing, rules_of, env_for=None):
    """For each differing case (dict with id, src, generator, enva/envb), find the first rule of its pipeline after
    which the program is no longer equivalent to the original. Returns {id: culprit rule name or 'generator'}."""
    prefix_cases = []
    for c in differing:
        rules = rules_of[c["id"]]
        for k in range(1, len(rules) + 1):
            pc = {"id": "%s|%d" % (c["id"], k), "src": c["src"], "rules": rules_text(rules[:k]), "generator": "retain_lines"}
            if env_for:
                # the reference environment of a prefix pipeline only presets what the rules of that prefix name
                ea, eb = env_for(rules[:k])
                if ea:
                    pc["enva"] = ea
                if eb:
                    pc["envb"] = eb
            else:
                for e in ("enva", "envb"):
                    if e in c:
                        pc[e] = c[e]
            prefix_cases.append(pc)
    if not prefix_cases:
        return {}, 0, 0
    res, st, gen = equiv(wd, label + "-attr", prefix_cases)
    culprit = {}
    for c in differing:
        rules = rules_of[c["id"]]
        found = None
        for k in range(1, len(rules) + 1):
            v = res.get("%s|%d" % (c["id"], k))
            if v is not None and v["verdict"] in ("differ", "notrun"):
                found = rules[k - 1]
                # the program the culprit rule received = output of the previous prefix (retain_lines text)
                prev = res.get("%s|%d" % (c["id"], k - 1)) if k > 1 else None
                STEP_INPUT[c["id"]] = prev["out"] if prev is not None and prev.get("out") else c["src"]
                break
        culprit[c["id"]] = found if found is not None else "generator"
    return culprit, st, gen


# ---- trigger predicates of the open findings, evaluated on the node table of the ORIGINAL program
def parse_nodes(src):
    """node table of a source text through the independent parser (luaparse binary built with the harness)."""
    exe = os.path.join(vlib.HARNESS, "luaparse", "target", "debug", "luaparse")
    if not os.path.exists(exe):
        subprocess.run(["cargo", "build", "--offline", "--quiet"], cwd=os.path.join(vlib.HARNESS, "luaparse"), check=True)
    tmp = os.path.join(vlib.WORK, "tmp-parse-%d.lua" % os.getpid())
    with open(tmp, "w") as f:
        f.write(src)
    r = subprocess.run([exe, tmp], stdout=subprocess.PIPE, stderr=subprocess.PIPE, text=True)
    os.remove(tmp)
    if r.returncode != 0:
        return None
    return json.loads(r.stdout)


def _known_truthiness(nodes, i):
    n = nodes[i - 1]
    k = n["k"]
    if k in ("nil", "true", "false", "num", "str", "fn", "table"):
        return True
    if k == "paren":
        return _known_truthiness(nodes, n["a"])
    if k == "not":
        return _known_truthiness(nodes, n["a"])
    if k == "bin" and n["s"] in ("==", "~=", "<", "<=", ">", ">=", "+", "-", "*", "/", "%", "^", ".."):
        return _known_truthiness(nodes, n["a"]) and _known_truthiness(nodes, n["b"])
    if k in ("and", "or"):
        return _known_truthiness(nodes, n["a"]) and _known_truthiness(nodes, n["b"])
    return False


def trigger_andor_multi(prog):
    """F-C01-a: an and/or whose left operand has statically known truthiness and whose right operand is a call or `...`,
    sitting last in a return / argument / positional-table / local / assignment / generic-for list."""
    if prog is None:
        return False
    nodes = prog["nodes"]

    def multi(i):
        return nodes[i - 1]["k"] in ("call", "mcall", "vararg")

    def hit(i):
        n = nodes[i - 1]
        if n["k"] in ("and", "or") and _known_truthiness(nodes, n["a"]):
            r = nodes[n["b"] - 1]
            if multi(n["b"]):
                return True
            if r["k"] in ("and", "or"):
                return hit(n["b"])
        return False

    for n in nodes:
        lists = []
        if n["k"] in ("ret", "call", "mcall", "local", "genfor"):
            lists.append(n["l"])
        if n["k"] == "assign":
            lists.append(n["m"])
        if n["k"] == "table" and n["l"]:
            last = nodes[n["l"][-1] - 1]
            if last["k"] == "tpos" and hit(last["a"]):
                return True
        for l in lists:
            if l and hit(l[-1]):
                return True
    return False


def trigger_underscore_read(prog):
    """F-C01-f: the program itself reads a variable named `_` (the name rules give to the locals that keep side effects)."""
    if prog is None:
        return False
    return any(n.get("k") == "var" and n.get("s") == "_" for n in prog["nodes"])


def run_property(pid, tier, group, cfgs, luau, env_for=None, nrand=(200, 3000), per_cfg=(150, 1200), full_labels=("full",),
                 level_note=None, extra_sig=None):
    """Generic meaning-preservation check: RuleCases group + random programs x configurations -> LuaEquiv verdicts,
    attribution to the first offending rule, classification against known findings."""
    import random
    import progen
    rep = vlib.Report(pid, tier, "translation_validation")
    rng = random.Random(vlib.seed())
    enum, g = rule_cases(group, tier)
    n = nrand[0] if tier == "quick" else nrand[1]
    progs = [{"group": "random", "kind": "random", "ctx": 0, "redex": k, "body": "", "src": progen.program(rng, luau=luau, max_stmts=rng.randint(6, 18))} for k in range(n)]
    cases, rules_of = [], {}
    pc = per_cfg[0] if tier == "quick" else per_cfg[1]
    for ci, (label, rules, gen) in enumerate(cfgs(tier, rng)):
        ep = enum_pool(enum, rules, label in full_labels, rng)
        pool = ep + progs if label in full_labels else ep + rng.sample(progs, min(len(progs), max(20, pc - len(ep))))
        for pi, p in enumerate(pool):
            cid = "c%d_%d" % (ci, pi)
            c = {"id": cid, "src": p["src"], "rules": rules_text(rules), "generator": gen, "cfg": label,
                 "pkind": p["kind"], "ctx": p["ctx"], "redex": p["redex"], "body": p["body"]}
            if env_for:
                ea, eb = env_for(rules)
                if ea:
                    c["enva"] = ea
                if eb:
                    c["envb"] = eb
            cases.append(c)
            rules_of[cid] = rules
    for r in vlib.pinned_reproducers(pid):
        if "src" not in r:
            continue
        cid = r["id"]
        rl = [x.strip(" '") for x in r["rules"].strip("[]").split(",")]
        c = {"id": cid, "src": r["src"], "rules": r["rules"], "generator": r.get("generator", "retain_lines"), "cfg": "pinned", "pkind": "pinned", "ctx": 0, "redex": 0, "body": r["src"]}
        if env_for:
            ea, eb = env_for(rl)
            if ea:
                c["enva"] = ea
            if eb:
                c["envb"] = eb
        cases.append(c)
        rules_of[cid] = rl
    res, st, gen_ = equiv(rep.wd, "main", cases)
    by = {c["id"]: c for c in cases}
    differing = [by[cid] for cid, v in res.items() if v["verdict"] == "differ" or (v["verdict"] == "notrun" and not v["status"].startswith("input-rejected"))]
    culprit, st2, gen2 = attribute(rep.wd, "main", [c for c in differing if len(rules_of[c["id"]]) > 1], rules_of, env_for)
    trig_cache = {}
    for c in differing:
        v = res[c["id"]]
        rules = rules_of[c["id"]]
        cul = culprit.get(c["id"], rules[0] if len(rules) == 1 else "generator")
        # triggers of known findings are evaluated on the input of the culprit STEP, not of the whole pipeline
        step_src = STEP_INPUT.get(c["id"], c["src"])
        for t in (step_src, c["src"]):
            if t not in trig_cache:
                trig_cache[t] = parse_nodes(t)
        prog = trig_cache[step_src]
        prog0 = trig_cache[c["src"]]
        sig = {"kind": "behaviour" if v["verdict"] == "differ" else "failure", "culprit": cul.split(",")[0].replace("{ rule: ", "").strip("'\" {}") if cul.startswith("{") else cul,
               "trigger_andor_multi": trigger_andor_multi(prog), "trigger_repeat_continue_local": trigger_repeat_continue_local(prog),
               "trigger_underscore_read": trigger_underscore_read(prog0),
               "generator": c["generator"], "cfg": c["cfg"], "what": (v.get("detail") or {}).get("what", v.get("status", ""))[:120],
               "body": c["body"][:200]}
        if extra_sig:
            # a trigger holds when it holds on the input of the culprit step OR on the original program
            e1, e0 = extra_sig(c, prog, v), extra_sig(c, prog0, v)
            sig.update({k: (e1[k] or e0[k]) if isinstance(e1[k], bool) else e1[k] for k in e1})
        for tk, fn in (("trigger_andor_multi", trigger_andor_multi), ("trigger_repeat_continue_local", trigger_repeat_continue_local)):
            sig[tk] = sig[tk] or fn(prog0)
        payload = {"id": c["id"], "src": c["src"], "rules": c["rules"], "generator": c["generator"], "out": v.get("out", ""), "detail": v.get("detail")}
        for e in ("enva", "envb"):
            if e in c:
                payload[e] = c[e]
        rep.violation(sig, payload)
    summ = summarize(res)
    decided = summ.get("equal", 0) + summ.get("differ", 0)
    if decided < len(cases) * 0.5:
        raise vlib.ToolError("only %d of %d pairs were decided (%s)" % (decided, len(cases), summ))
    rep.coverage.update({
        "programs": len(cases), "disagreements_checked": len(differing),
        "samples": [{"rules": cases[0]["rules"], "generator": cases[0]["generator"], "src": cases[0]["src"]},
                    {"rules": cases[-1]["rules"], "generator": cases[-1]["generator"], "src": cases[-1]["src"][:600]}],
        "verdicts": summ, "distinct_sources": len(set(c["src"] for c in cases)),
        "enumerated_rule_cases": len(enum), "random_programs": n, "configurations": len(set((c["rules"], c["generator"]) for c in cases)),
        "states": st + st2 + g.distinct, "transitions": gen_ + gen2 + g.generated,
    })
    rep.assumptions += ["behaviour = sequence of external calls (ext*) with rendered arguments + rendered return values of the chunk (LuaEnv)",
                        "an original that errors, exhausts fuel or reaches behaviour on which Lua 5.1 and Luau disagree (`unspec`) is outside the property and discarded",
                        "input and output are read by the independent parser harness/luaparse; the semantics is spec/lua/LuaSem.tla"]
    if level_note:
        rep.assumptions.append(level_note)
    return rep.finish()


def replay_property(pid, path, tier):
    rep = vlib.Report(pid, tier, "translation_validation")
    with open(path) as f:
        c = json.load(f)["case"]
    case = {"id": "replay", "src": c["src"], "rules": c["rules"], "generator": c["generator"]}
    for e in ("enva", "envb"):
        if e in c:
            case[e] = c[e]
    res, st, gen_ = equiv(rep.wd, "replay", [case])
    v = res["replay"]
    if v["verdict"] in ("differ", "notrun"):
        rep.violation({"kind": "behaviour", "culprit": "?", "trigger_andor_multi": trigger_andor_multi(parse_nodes(c["src"])), "what": str(v.get("detail") or v.get("status"))[:160]}, case)
    rep.coverage.update({"programs": 1, "disagreements_checked": 1 if v["verdict"] == "differ" else 0, "samples": [case]})
    return rep.finish()


def trigger_repeat_continue_local(prog):
    """F-C06-a: a `repeat` loop containing a `continue` that belongs to it, whose `until` condition mentions a local
    declared in the loop body."""
    if prog is None:
        return False
    nodes = prog["nodes"]

    def kids(n):
        out = [n["a"], n["b"], n["c"]] + list(n["l"]) + list(n["m"])
        return [k for k in out if k]

    def has_continue(i):
        n = nodes[i - 1]
        if n["k"] == "continue":
            return True
        if n["k"] in ("while", "repeat", "numfor", "genfor", "fn"):
            return False
        if n["k"] in ("localfn", "funcstmt"):
            return False
        return any(has_continue(k) for k in kids(n))

    def names_in(i, acc):
        n = nodes[i - 1]
        if n["k"] == "var":
            acc.add(n["s"])
        for k in kids(n):
            names_in(k, acc)
        return acc

    for n in nodes:
        if n["k"] != "repeat":
            continue
        body = nodes[n["a"] - 1]
        declared = set()
        for s in body["l"]:
            sn = nodes[s - 1]
            if sn["k"] == "local":
                declared.update(sn["ns"])
            if sn["k"] == "localfn":
                declared.add(sn["s"])
        if any(has_continue(s) for s in body["l"]) and declared & names_in(n["b"], set()):
            return True
    return False
