"""C04 -- retain_lines keeps surviving code on its original line.

G: TLC model-checks the line discipline of the retain_lines generator (spec/darklua/TokenGen.tla: LineKept under the
   precondition Pre, every item sequence of length <= 3) and enumerates marker layouts (spec/darklua/Layout.tla): template programs with redexes of every rule whose
   literal slots are rendered as 'L<line>', one statement per line, x every gap x {line feed, blank line, line
   comment, multi-line comment, ...} (pairs of gaps in the thorough tier).
R: dlv text runs each layout through the real darklua with retain_lines and (a) subsets/orders of the default rules,
   (b) remove_spaces followed by line-neutral rules; append_text_comment at the start shifts by a known amount.
V: TLC (TextTrace, kind `markers`, reference lexer LuaLex) checks every marker string that survives is on its line."""
import itertools, json, os, random
import vlib
from vlib import Report, tlc, tlc_ok
from text_common import run_and_judge, text_of

PID = "C04"
DEFAULT = ["remove_spaces", "remove_comments", "compute_expression", "remove_unused_if_branch", "remove_unused_while",
           "filter_after_early_return", "remove_empty_do", "remove_unused_variable", "remove_method_definition",
           "convert_index_to_field", "remove_nil_declaration", "rename_variables", "remove_function_call_parens"]
NEUTRAL = ["remove_types", "remove_compound_assignment", "remove_continue", "remove_if_expression", "remove_interpolated_string",
           "remove_floor_division", "convert_luau_number", "make_assignment_local", "remove_attribute",
           "remove_assertions", "remove_debug_profiling", "{ rule: 'inject_global_value', identifier: 'INJECTED', value: 7 }",
           "convert_local_function_to_assign", "convert_function_to_assignment", "remove_method_call", "convert_square_root_call"]


OPEN_FINDING_RULES = ["remove_nil_declaration", "remove_unused_variable", "remove_unused_if_branch", "convert_local_function_to_assign", "remove_empty_do"]


# rules that delete whole statements (Block::remove_statement hands the comments of the deleted statement to the next one)
BLOCK_RULES = {"remove_unused_variable", "remove_empty_do", "remove_unused_while", "remove_unused_if_branch", "remove_types",
               "filter_after_early_return", "remove_nil_declaration", "remove_function_call_parens", "remove_assertions", "remove_debug_profiling"}


def rules_text(names):
    return "[" + ", ".join(n if n.startswith("{") else "'%s'" % n for n in names) + "]"


def configs(tier, rng):
    cs = [("default", DEFAULT)]
    cs += [("single:" + r, [r]) for r in DEFAULT]
    # the default configuration starts with remove_spaces: without the original spacing a token that lost its line is written
    # right behind the previous one
    cs += [("single:spaces+" + r, ["remove_spaces", r]) for r in DEFAULT if r != "remove_spaces"]
    pairs = [(a, b) for a in DEFAULT for b in DEFAULT if a != b]
    cs += [("pair", list(p)) for p in (rng.sample(pairs, 12) if tier == "quick" else pairs)]
    for _ in range(6 if tier == "quick" else 40):
        k = rng.randint(3, len(DEFAULT))
        cs.append(("subperm", rng.sample(DEFAULT, k)))
    # (b) remove_spaces followed by line-neutral rules
    cs += [("neutral1", ["remove_spaces", r]) for r in NEUTRAL]
    npairs = [(a, b) for a in NEUTRAL for b in NEUTRAL if a != b]
    cs += [("neutral2", ["remove_spaces"] + list(p)) for p in (rng.sample(npairs, 12) if tier == "quick" else npairs)]
    for _ in range(6 if tier == "quick" else 40):
        cs.append(("neutralN", ["remove_spaces"] + rng.sample(NEUTRAL, rng.randint(3, len(NEUTRAL)))))
    cs.append(("default+neutral", DEFAULT + NEUTRAL))
    return cs


def cause_of(o, v):
    """Names the recorded finding a failing run belongs to, from the pipeline, the statement of the template in which the
    layout's gap lies (Layout!StmtTag) and what moved. Anything else is `other` (a violation)."""
    rules, stag = o["rules"], o.get("stag", "")
    moved = set(bytes(x).decode("latin-1") for x in v.get("moved", []))
    has = lambda r: ("'%s'" % r) in rules
    if has("convert_local_function_to_assign") and v["lines_ok"] and moved and moved <= {"g", "h", "hh"}:
        return "local-function-name-moved"
    if has("remove_nil_declaration") and stag in ("local na ,", "local da ,"):
        return "nil-declaration-reordered"
    if has("remove_unused_variable") and stag == "local ua ,":
        return "unused-variable-reordered"
    if o.get("k1") == 8 and ((has("remove_unused_variable") and stag in ("local dead =", "local dead2 =", "local unused =")) or (has("remove_empty_do") and stag in ("local dead2 =", "do end"))):
        return "comments-of-removed-statement"
    if has("remove_unused_if_branch") and stag in ("if false then", "local w ="):
        return "first-branch-removed"
    return "other"


def run(tier):
    rep = Report(PID, tier, "exploration")
    rng = random.Random(vlib.seed())
    # design level: the generator's line discipline (TokenGen.tla) keeps every line-carrying token on its line under Pre
    d = tlc("darklua/TokenGen", cfg="mc/MC_TokenGen.cfg", workers=8, timeout=1800, xmx="8g")
    tlc_ok(d, "TokenGen (LineKept under Pre)")
    g = tlc("mc/MC_Layout", workers=8, timeout=1800, env={"MODE": "single"}, xmx="8g")
    tlc_ok(g, "MC_Layout(single)")
    layouts = g.tagged("CASE")
    st, gen = g.distinct, g.generated
    if tier == "thorough":
        g2 = tlc("mc/MC_Layout", workers=8, timeout=3000, env={"MODE": "pairs"}, xmx="12g")
        tlc_ok(g2, "MC_Layout(pairs)")
        layouts += vlib.sample(g2.tagged("CASE"), 6000, rng)
        st += g2.distinct
        gen += g2.generated
    if len(layouts) < 1000:
        raise vlib.ToolError("only %d layouts" % len(layouts))
    # periodic layouts: a line break / comment in front of every stride-th token (together: in front of EVERY token)
    gd = tlc("mc/MC_Layout", workers=4, timeout=1800, env={"MODE": "dense"}, xmx="6g")
    tlc_ok(gd, "MC_Layout(dense)")
    dense = gd.tagged("CASE")
    st += gd.distinct
    gen += gd.generated
    if len(dense) < 100:
        raise vlib.ToolError("only %d dense layouts" % len(dense))
    cfgs = configs(tier, rng)
    per_cfg = 60 if tier == "quick" else 400
    cases = []
    for ci, (label, rules) in enumerate(cfgs):
        # Luau-lowering rules need the Luau template; default rules get both
        ls = layouts if per_cfg >= len(layouts) else rng.sample(layouts, per_cfg)
        if label in ("default", "default+neutral"):
            ls = layouts if tier == "thorough" else rng.sample(layouts, 600)
        # a dense layout sets off every recorded finding of a pipeline at once and the displacement cascades through the
        # file (no blank line absorbs it), so the periodic layouts go to the pipelines WITHOUT a rule that has an open finding
        if not any(("'%s'" % r) in rules_text(rules) for r in OPEN_FINDING_RULES):
            ls = ls + (dense if tier == "thorough" else rng.sample(dense, 24 if label.startswith(("single", "neutral1")) else 10))
        # comment blocks above statements (gap kinds 9..): to every pipeline that deletes whole statements -- routing only
        if label.startswith(("single", "neutral1")) and any(r in BLOCK_RULES for r in rules):
            ls = ls + [l for l in layouts if l["k1"] >= 9 and l["g2"] == 0 and l not in ls]
        for li, l in enumerate(ls):
            cases.append({"id": "k%d_%d" % (ci, li), "src": l["src"], "kind": "markers", "rules": rules_text(rules), "shift": 0,
                          "names": 0 if "rename_variables" in rules else 1,
                          "cfg": label, "tpl": l["tpl"], "g1": l["g1"], "k1": l["k1"], "g2": l["g2"], "k2": l["k2"], "stag": l.get("stag", "")})
    # append_text_comment at the start: every marker shifts by the number of lines of the comment
    for li, l in enumerate(rng.sample(layouts, 100 if tier == "quick" else 1000)):
        for text, shift in (("one line", 1), ("two\nlines", 4)):
            cases.append({"id": "a%d_%d" % (li, shift), "src": l["src"], "kind": "markers", "shift": shift, "cfg": "append-start",
                          "rules": "['remove_spaces', { rule: 'append_text_comment', text: %s }]" % json.dumps(text),
                          "tpl": l["tpl"], "g1": l["g1"], "k1": l["k1"], "g2": l["g2"], "k2": l["k2"]})
    obs, verdicts, res = run_and_judge(rep.wd, "markers", cases, workers=12)
    with open(os.path.join(rep.wd, "verdicts.json"), "w") as f:       # kept for triage (bin/c04triage)
        json.dump(verdicts, f)
    skipped = 0
    nmarkers = 0
    for cid, v in verdicts.items():
        o = obs[cid]
        if not o["status"] == "ok":
            skipped += 1
            if o["status"].startswith("panic"):
                rep.violation({"kind": "panic", "cfg": o["cfg"], "rules": o["rules"], "status": o["status"][:160]}, {k: o[k] for k in o if k not in ("srcb", "outb")} | {"src": text_of(o["srcb"])})
            continue
        nmarkers += v["ncode"]
        if not v["ok"]:
            sig = {"kind": "markers", "cfg": o["cfg"], "rules": o["rules"], "lex_out": v["lex_out"], "marker_line": v["ncomments"], "found_on_line_offset": v["shift"],
                   "markers_ok": v["lines_ok"], "skeleton_ok": v["comments_ok"], "cause": cause_of(o, v), "stag": o.get("stag", ""), "moved_names": [bytes(x).decode("latin-1") for x in v.get("moved", [])][:6],
                   "tpl": o["tpl"], "g1": o["g1"], "k1": o["k1"], "g2": o["g2"], "k2": o["k2"]}
            payload = {k: o[k] for k in o if k not in ("srcb", "outb")}
            payload["src"] = text_of(o["srcb"])
            payload["out"] = text_of(o["outb"])
            rep.violation(sig, payload)
    if skipped > len(cases) // 10:
        raise vlib.ToolError("%d of %d runs failed (rule/parse errors): templates or rules changed" % (skipped, len(cases)))
    if nmarkers < len(cases) * 5:
        raise vlib.ToolError("too few markers survived (%d over %d runs): vacuous" % (nmarkers, len(cases)))
    distinct = len(set((c["src"], c["rules"]) for c in cases))
    rep.coverage.update({
        "evaluations": len(cases), "distinct_nontrivial": distinct,
        "rule": "layout (TLC enumeration of Layout.tla: template x gap x gap kind) x rule pipeline; distinct = distinct (source, pipeline) pairs; every case has >= 20 markers in the input",
        "samples": [{"rules": cases[0]["rules"], "src": cases[0]["src"][:200]}, {"rules": cases[-1]["rules"], "src": cases[-1]["src"][:200]}],
        "states": st + res.distinct, "transitions": gen + res.generated,
        "design_model_states (TokenGen!LineKept under Pre, all item sequences of length <= 3)": d.distinct,
        "layouts": len(layouts), "dense_layouts": len(dense), "pipelines": len(cfgs) + 1, "markers_checked": nmarkers, "runs_failed_with_an_error (not judged)": skipped,
        "exhaustive": False,
    })
    rep.assumptions += ["markers are string literals 'L<line>s<slot>' (unique per program); a copy of an expression made by a rule is new code: a marker is misplaced only when no occurrence of it is on its line; a literal that a rule folds into a longer string (compute_expression on 'L12' .. 'x') is new code and not a marker any more",
                        "group_local_assignment is excluded as the property says; bundling shift is checked by C05's driver, not here",
                        "line = 1 + number of LF bytes before the token"]
    return rep.finish()


def replay(path, tier):
    rep = Report(PID, tier, "exploration")
    with open(path) as f:
        c = json.load(f)["case"]
    case = {"id": "replay", "src": c["src"], "kind": "markers", "rules": c["rules"], "shift": c.get("shift", 0), "cfg": c.get("cfg", ""), "names": c.get("names", 0),
            "tpl": 0, "g1": 0, "k1": 0, "g2": 0, "k2": 0}
    obs, verdicts, res = run_and_judge(rep.wd, "replay", [case], workers=1)
    for cid, v in verdicts.items():
        if not v["ok"]:
            rep.violation({"kind": "markers", "cfg": case["cfg"], "rules": case["rules"], "lex_out": v["lex_out"], "marker_line": v["ncomments"], "found_on_line_offset": v["shift"]}, case)
    rep.coverage.update({"evaluations": 1, "distinct_nontrivial": 2, "rule": "replay", "samples": [case["rules"]]})
    return rep.finish()
