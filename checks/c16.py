"""C16 -- optional refactoring rules preserve program behaviour (C01 machinery, RuleCases group c16)."""
import sem_common as sc

PID = "C16"
RULES = ["group_local_assignment", "convert_local_function_to_assign", "convert_function_to_assignment", "remove_method_call", "convert_square_root_call"]


def cfgs(tier, rng):
    out = [("single", [r], g) for r in RULES for g in ("retain_lines", "dense")]
    out += [("full", RULES, g) for g in ("retain_lines", "dense", "readable")]
    out += [("full", list(reversed(RULES)), "retain_lines")]
    for r in RULES:
        out.append(("with-default", [r] + sc.DEFAULT_RULES, "retain_lines"))
        out.append(("with-default", sc.DEFAULT_RULES + [r], "dense"))
    out.append(("with-default", sc.DEFAULT_RULES + RULES, "readable"))
    for _ in range(4 if tier == "quick" else 40):
        out.append(("mix", rng.sample(RULES + sc.DEFAULT_RULES, rng.randint(3, 10)), rng.choice(sc.GENERATORS)))
    return out


def extra(c, prog, v):
    return {"trigger_group_local_extra_values": trigger_group_local(prog), "trigger_sqrt_of_negative_zero_or_infinity": trigger_sqrt_special(prog)}


def trigger_sqrt_special(prog):
    """F-C16-b: math.sqrt applied to an expression of the form -x or -x / y (the only way to write -0 or -inf)."""
    if prog is None:
        return False
    nodes = prog["nodes"]
    for n in nodes:
        if n["k"] != "call" or not n["l"]:
            continue
        f = nodes[n["a"] - 1]
        if f["k"] == "field" and f["s"] == "sqrt" and nodes[f["a"] - 1]["k"] == "var" and nodes[f["a"] - 1]["s"] == "math":
            a = nodes[n["l"][0] - 1]
            if a["k"] == "neg" or (a["k"] == "bin" and a["s"] == "/" and nodes[a["a"] - 1]["k"] == "neg"):
                return True
    return False


def trigger_group_local(prog):
    """F-C16-a: two consecutive `local` statements, the first with more values than variables (or a multi-value tail that
    provides more)."""
    if prog is None:
        return False
    nodes = prog["nodes"]
    for n in nodes:
        if n["k"] != "block":
            continue
        ls = n["l"]
        for a, b in zip(ls, ls[1:]):
            x, y = nodes[a - 1], nodes[b - 1]
            if x["k"] == "local" and y["k"] == "local" and len(x["l"]) > len(x["ns"]):
                return True
    return False


def run(tier):
    return sc.run_property(PID, tier, "c16", cfgs, luau=False, full_labels=("full", "single", "with-default"), extra_sig=extra)


def replay(path, tier):
    return sc.replay_property(PID, path, tier)
