"""C01 -- default rules preserve program behaviour.

G: TLC enumerates RuleCases (every context x every redex of the default rules, plus statement-level programs);
   seeded random programs (closures, upvalues, shadowing, varargs, multiple returns, loud metatables, loops with
   break, method calls) are added.
R: dlv sem parses each source with the INDEPENDENT parser, runs the real darklua (default list / single rules /
   ordered pairs / random sub-permutations x retain_lines, dense, readable at several column spans), parses the
   output with the independent parser.
V: TLC executes both programs with the TLA+ semantics (spec/lua/LuaSem.tla) and compares external-call logs and
   returned values (LuaEquiv).  A differing pair is attributed to the first rule after which equivalence is lost."""
import json, os, random
import vlib
from vlib import Report
import sem_common as sc
import progen

PID = "C01"


def configs(tier, rng):
    D = sc.DEFAULT_RULES
    cfg = [("default", D, g) for g in sc.GENERATORS]
    cfg += [("single", [r], "retain_lines") for r in D]
    cfg += [("single", [r], rng.choice(["dense", "readable"])) for r in D]
    pairs = [(a, b) for a in D for b in D if a != b]
    for p in (rng.sample(pairs, 10) if tier == "quick" else pairs):
        cfg.append(("pair", list(p), rng.choice(sc.GENERATORS)))
    for _ in range(8 if tier == "quick" else 60):
        cfg.append(("subperm", rng.sample(D, rng.randint(3, len(D))), rng.choice(sc.GENERATORS)))
    return cfg


def run(tier):
    rep = Report(PID, tier, "translation_validation")
    rng = random.Random(vlib.seed())
    enum, g = sc.rule_cases("c01", tier)
    nrand = 300 if tier == "quick" else 4000
    progs = [{"group": "random", "kind": "random", "ctx": 0, "redex": k, "body": "", "src": progen.program(rng, luau=False, max_stmts=rng.randint(6, 18))} for k in range(nrand)]
    cfgs = configs(tier, rng)
    cases, rules_of = [], {}
    per_cfg = 150 if tier == "quick" else 1200
    for ci, (label, rules, gen) in enumerate(cfgs):
        hand = [c for c in enum if c.get("fam", "") == ""]
        prod = [c for c in enum if c.get("fam", "") != ""]
        if label == "default" and gen == "retain_lines":
            pool = enum + progs
        elif label == "default":
            pool = (rng.sample(hand, 800) + rng.sample(prod, 300) if tier == "quick" else enum) + progs[: nrand // 2]
        else:
            # every member of the generated families the rules of this configuration act on, a sample of everything else
            mine = [c for c in sc.enum_pool(prod, rules, False, rng, other_sample=10)]
            pool = mine + rng.sample(hand + progs, min(per_cfg, len(hand) + len(progs)))
        for pi, p in enumerate(pool):
            cid = "c%d_%d" % (ci, pi)
            cases.append({"id": cid, "src": p["src"], "rules": sc.rules_text(rules), "generator": gen, "cfg": label,
                          "pkind": p["kind"], "ctx": p["ctx"], "redex": p["redex"], "body": p["body"]})
            rules_of[cid] = rules
    for k, r in enumerate(vlib.pinned_reproducers(PID)):
        cid = r["id"]
        cases.append({"id": cid, "src": r["src"], "rules": r["rules"], "generator": r.get("generator", "retain_lines"), "cfg": "pinned", "pkind": "pinned", "ctx": 0, "redex": 0, "body": r["src"]})
        rules_of[cid] = [x.strip(" '") for x in r["rules"].strip("[]").split(",")]
    res, st, gen_ = sc.equiv(rep.wd, "main", cases)
    by = {c["id"]: c for c in cases}
    differing = [by[cid] for cid, v in res.items() if v["verdict"] == "differ" or (v["verdict"] == "notrun" and not v["status"].startswith("input-rejected"))]
    culprit, st2, gen2 = sc.attribute(rep.wd, "main", [c for c in differing if len(rules_of[c["id"]]) > 1], rules_of)
    trig_cache = {}
    for c in differing:
        v = res[c["id"]]
        rules = rules_of[c["id"]]
        cul = culprit.get(c["id"], rules[0] if len(rules) == 1 else "generator")
        step_src = sc.STEP_INPUT.get(c["id"], c["src"])
        if step_src not in trig_cache:
            trig_cache[step_src] = sc.trigger_andor_multi(sc.parse_nodes(step_src))
        sig = {"kind": "behaviour" if v["verdict"] == "differ" else "failure", "culprit": cul, "trigger_andor_multi": trig_cache[step_src],
               "trigger_underscore_read": sc.trigger_underscore_read(sc.parse_nodes(c["src"])),
               "generator": c["generator"], "cfg": c["cfg"], "what": (v.get("detail") or {}).get("what", v.get("status", ""))[:120],
               "body": c["body"][:200]}
        payload = {"id": c["id"], "src": c["src"], "rules": c["rules"], "generator": c["generator"], "out": v.get("out", ""), "detail": v.get("detail")}
        rep.violation(sig, payload)
    summ = sc.summarize(res)
    decided = summ.get("equal", 0) + summ.get("differ", 0)
    if decided < len(cases) * 0.6:
        raise vlib.ToolError("only %d of %d pairs were decided (%s)" % (decided, len(cases), summ))
    rep.coverage.update({
        "programs": len(cases), "disagreements_checked": len(differing),
        "samples": [{"rules": cases[0]["rules"], "generator": cases[0]["generator"], "src": cases[0]["src"]},
                    {"rules": cases[-2]["rules"], "generator": cases[-2]["generator"], "src": cases[-2]["src"][:600]}],
        "verdicts": summ, "distinct_sources": len(set(c["src"] for c in cases)),
        "enumerated_rule_cases": len(enum), "random_programs": nrand, "configurations": len(cfgs),
        "states": st + st2 + g.distinct, "transitions": gen_ + gen2 + g.generated,
        "machine_steps_note": "every TLC transition advances a program by up to 250 steps of the LuaSem machine",
    })
    rep.assumptions += ["behaviour = sequence of external calls (ext*) with rendered arguments + rendered return values of the chunk (LuaEnv)",
                        "an original that errors, exhausts fuel or reaches behaviour on which Lua 5.1 and Luau disagree (`unspec`) is outside the property and discarded",
                        "input and output are read by the independent parser harness/luaparse; the semantics is spec/lua/LuaSem.tla (295 litmus programs)"]
    return rep.finish()


def replay(path, tier):
    rep = Report(PID, tier, "translation_validation")
    with open(path) as f:
        c = json.load(f)["case"]
    case = {"id": "replay", "src": c["src"], "rules": c["rules"], "generator": c["generator"]}
    res, st, gen_ = sc.equiv(rep.wd, "replay", [case])
    v = res["replay"]
    if v["verdict"] in ("differ", "notrun"):
        rep.violation({"kind": "behaviour", "culprit": "?", "trigger_andor_multi": sc.trigger_andor_multi(sc.parse_nodes(c["src"])), "what": str(v.get("detail") or v.get("status"))[:160]}, case)
    rep.coverage.update({"programs": 1, "disagreements_checked": 1 if v["verdict"] == "differ" else 0, "samples": [case]})
    return rep.finish()
