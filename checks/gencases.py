"""Case descriptors (JSON DSL of harness/src/gen.rs) for C02: a hand-enumerated catalogue of statement-level shapes
and a seeded random tree generator (modelled on /repo/tests/ast_fuzzer: every statement / expression node kind,
operators drawn uniformly, small literal pools chosen to sit on token-fusion corners)."""
import random

# ----------------------------------------------------------------------------------------------- DSL helpers
def ID(n): return ["id", n]
def NUM(t): return ["num", str(t)]
def NUME(t, e, up=False): return ["nume", str(t), e, up]
def HEX(v, up=False, exp=None, eup=False): return ["hex", str(v), up, exp, eup]
def BNUM(v, up=False): return ["bnum", str(v), up]
def STR(s): return ["str", list(s.encode("utf-8") if isinstance(s, str) else s)]
TRUE, FALSE, NIL, VA = ["true"], ["false"], ["nil"], ["va"]
def BLOCK(*stmts, last=None): return {"s": list(stmts), "l": last}
def RET(*es): return ["ret"] + list(es)
def FN(params=(), variadic=False, body=None): return ["fn", list(params), variadic, body or BLOCK()]
def PAR(e): return ["par", e]
def UN(op, e): return ["un", op, e]
def BIN(op, l, r): return ["bin", op, l, r]
def ARGS(*es): return ["args"] + list(es)
def SARG(s): return ["sarg", list(s.encode("utf-8") if isinstance(s, str) else s)]
def TAB(*entries): return ["tab"] + list(entries)
def TARG(*entries): return ["targ", TAB(*entries)]
def POS(e): return ["pos", e]
def NAMED(k, e): return ["named", k, e]
def KEY(k, v): return ["key", k, v]
def CALL(p, args=None): return ["call", p, args if args is not None else ARGS()]
def MCALL(p, name, args=None): return ["mcall", p, name, args if args is not None else ARGS()]
def IDX(p, e): return ["idx", p, e]
def FLD(p, n): return ["fld", p, n]
def IFX(c, t, e, branches=()): return ["ifx", c, t, [list(b) for b in branches], e]
def INTERP(*segs): return ["interp"] + [(["s", list(s.encode("utf-8"))] if isinstance(s, str) else ["v", s]) for s in segs]
def CAST(e, t): return ["cast", e, t]
def TNAME(n, params=None): return ["tname", n] + ([list(params)] if params else [])
def ASSIGN(vs, es): return ["assign", list(vs), list(es)]
def DO(b): return ["do", b]
def CALLSTMT(c): return ["callstmt", c]
def COMPOUND(op, v, e): return ["compound", op, v, e]
def FUNCTION(names, params=(), variadic=False, body=None, method=None): return ["function", list(names), method, list(params), variadic, body or BLOCK()]
def GENFOR(names, es, body=None): return ["genfor", list(names), list(es), body or BLOCK()]
def IF(branches, els=None): return ["if", [list(b) for b in branches], els]
def LOCAL(names, es=()): return ["local", list(names), list(es)]
def LOCALT(pairs, es=()): return ["localt", [list(p) for p in pairs], list(es)]
def LOCALFN(name, params=(), variadic=False, body=None): return ["localfn", name, list(params), variadic, body or BLOCK()]
def NUMFOR(name, a, b, step=None, body=None): return ["numfor", name, a, b, step, body or BLOCK()]
def REPEAT(body, cond): return ["repeat", body, cond]
def WHILE(cond, body=None): return ["while", cond, body or BLOCK()]
def TYPEDECL(name, t, exported=False): return ["typedecl", name, t, exported]

BINOPS = ["or", "and", "<", ">", "<=", ">=", "~=", "==", "..", "+", "-", "*", "/", "//", "%", "^"]
UNOPS = ["not", "#", "-"]
COMPOUND_OPS = ["+", "-", "*", "/", "//", "%", "^", ".."]
a, b, c, x, y, f, t = ID("a"), ID("b"), ID("c"), ID("x"), ID("y"), ID("f"), ID("t")
LONG = "x" * 60                                 # becomes a long-bracket string
LONG_RB = "y" * 59 + "]"                         # ends with ]  -> level 1
LONG_NL = "line\n" * 6 + "0123456789"            # >= 6 newlines, >= 20 chars
LONG_LEAD_NL = "\n" + "z" * 60
LONG_INNER = "q" * 30 + "]]" + "q" * 30          # contains ]] -> level 1


PAIR_LEAVES = ("x", "n", "neg", "s", "call", "va", "tab", "par", "hex", "exp", "frac", "inf", "long", "interp", "fn", "ifx")


def catalogue():
    """[(family, name, block)]"""
    out = []

    def add(fam, name, block):
        out.append((fam, name, block))

    def ret(fam, name, e):
        add(fam, name, BLOCK(last=RET(e)))

    # ---- ends_with_prefix x starts_with_parenthese
    firsts = {
        "call": CALLSTMT(CALL(f)), "call_field": CALLSTMT(CALL(FLD(a, "b"))), "mcall": CALLSTMT(MCALL(a, "m")),
        "call_str": CALLSTMT(CALL(f, SARG("s"))), "call_tab": CALLSTMT(CALL(f, TARG())), "call_long": CALLSTMT(CALL(f, SARG(LONG))),
        "assign_id": ASSIGN([a], [b]), "assign_field": ASSIGN([a], [FLD(b, "c")]), "assign_index": ASSIGN([a], [IDX(b, NUM(1))]),
        "assign_call": ASSIGN([a], [CALL(f)]), "assign_paren": ASSIGN([a], [PAR(b)]), "assign_neg": ASSIGN([a], [UN("-", b)]),
        "assign_not": ASSIGN([a], [UN("not", b)]), "assign_len": ASSIGN([a], [UN("#", b)]), "assign_bin": ASSIGN([a], [BIN("+", b, c)]),
        "assign_concat": ASSIGN([a], [BIN("..", b, c)]), "assign_ifx": ASSIGN([a], [IFX(c, x, y)]), "assign_two": ASSIGN([a, b], [NUM(1), c]),
        "assign_num": ASSIGN([a], [NUM(1)]), "assign_str": ASSIGN([a], [STR("s")]), "assign_long": ASSIGN([a], [STR(LONG)]),
        "assign_tab": ASSIGN([a], [TAB()]), "assign_fn": ASSIGN([a], [FN()]), "assign_nil": ASSIGN([a], [NIL]), "assign_va": ASSIGN([a], [VA]),
        "assign_true": ASSIGN([a], [TRUE]), "assign_interp": ASSIGN([a], [INTERP("s")]),
        "compound_id": COMPOUND("+", a, b), "compound_num": COMPOUND("..", a, NUM(1)), "compound_call": COMPOUND("-", FLD(a, "b"), CALL(f)),
        "local_id": LOCAL(["a"], [b]), "local_field": LOCAL(["a"], [FLD(b, "c")]), "local_none": LOCAL(["a"]), "local_num": LOCAL(["a"], [NUM(1)]),
        "local_call": LOCAL(["a", "b"], [CALL(f)]), "repeat_id": REPEAT(BLOCK(), a), "repeat_field": REPEAT(BLOCK(), FLD(a, "b")),
        "repeat_call": REPEAT(BLOCK(), CALL(f)), "repeat_true": REPEAT(BLOCK(), TRUE),
        "do": DO(BLOCK()), "while": WHILE(a), "if": IF([(a, BLOCK())]), "function": FUNCTION(["g"]), "localfn": LOCALFN("g"),
        "numfor": NUMFOR("i", NUM(1), NUM(2)), "genfor": GENFOR(["k"], [a]),
    }
    seconds = {
        "pcall": CALLSTMT(CALL(PAR(f))), "pcall_field": CALLSTMT(CALL(FLD(PAR(f), "x"))), "pcall_index": CALLSTMT(CALL(IDX(PAR(f), NUM(1)))),
        "pmcall": CALLSTMT(MCALL(PAR(f), "m")), "pcall_str": CALLSTMT(CALL(PAR(f), SARG("s"))), "pcall_chain": CALLSTMT(CALL(CALL(PAR(f)))),
        "pcall_strprefix": CALLSTMT(MCALL(STR("s"), "rep", ARGS(NUM(2)))), "pcall_fn": CALLSTMT(CALL(FN())),
        "passign_field": ASSIGN([FLD(PAR(a), "b")], [NUM(1)]), "passign_index": ASSIGN([IDX(PAR(a), NUM(1))], [NUM(1)]),
        "passign_second": ASSIGN([x, FLD(PAR(a), "b")], [NUM(1), NUM(2)]),
        "pcompound": COMPOUND("+", FLD(PAR(a), "b"), NUM(1)), "pcompound_index": COMPOUND("..", IDX(PAR(a), b), c),
        "plain_call": CALLSTMT(CALL(f)), "plain_assign": ASSIGN([x], [NUM(1)]),
    }
    for fn_, s1 in firsts.items():
        for sn, s2 in seconds.items():
            add("semicolon", "%s+%s" % (fn_, sn), BLOCK(s1, s2))
    # the same pairs inside nested blocks and before a last statement
    for fn_ in ("call", "assign_id", "assign_call", "local_id", "repeat_id", "compound_id"):
        add("semicolon", "nested:%s" % fn_, BLOCK(DO(BLOCK(firsts[fn_], seconds["pcall"])), firsts[fn_], seconds["passign_field"], last=RET(PAR(a))))
        add("semicolon", "fnbody:%s" % fn_, BLOCK(FUNCTION(["g"], body=BLOCK(firsts[fn_], seconds["pcall"], last=RET(PAR(f)))), seconds["pcall"]))
        add("semicolon", "loops:%s" % fn_, BLOCK(WHILE(a, BLOCK(firsts[fn_], seconds["pcall"], last=["break"])),
                                                 REPEAT(BLOCK(firsts[fn_], seconds["pcall"]), PAR(a)), seconds["pcall"]))

    # ---- unary chains and minus adjacency
    negs = [NUM(-1), NUM("-0"), NUM(-0.5), NUME("-1000", 3), NUM("-1e300"), NUM("-5e-324")]
    leaves = {"x": x, "n": NUM(1), "neg": NUM(-1), "negzero": NUM("-0"), "s": STR("s"), "call": CALL(f), "va": VA, "tab": TAB(), "par": PAR(x),
              "hex": HEX(255), "bin": BNUM(5), "exp": NUME(1e10, 10), "frac": NUM(0.5), "inf": NUM("inf"), "ninf": NUM("-inf"), "nan": NUM("nan"),
              "long": STR(LONG), "interp": INTERP("s", x), "true": TRUE, "nil": NIL, "fn": FN(), "field": FLD(a, "b"), "index": IDX(a, NUM(1)),
              "ifx": IFX(c, a, b), "big": NUM("1e308")}
    for u1 in UNOPS:
        for ln, l in leaves.items():
            ret("unary", "%s %s" % (u1, ln), UN(u1, l))
            for u2 in UNOPS:
                ret("unary", "%s %s %s" % (u1, u2, ln), UN(u1, UN(u2, l)))
                if ln in ("x", "neg", "n", "negzero"):
                    for u3 in UNOPS:
                        ret("unary", "%s %s %s %s" % (u1, u2, u3, ln), UN(u1, UN(u2, UN(u3, l))))
    for op in BINOPS:
        for ln, l in leaves.items():
            for u in UNOPS:
                ret("minus", "x %s %s%s" % (op, u, ln), BIN(op, x, UN(u, l)))
                ret("minus", "%s%s %s x" % (u, ln, op), BIN(op, UN(u, l), x))
            for rn, r in leaves.items():
                if (ln in PAIR_LEAVES and rn in PAIR_LEAVES) or ln == rn:
                    ret("leafpair", "%s %s %s" % (ln, op, rn), BIN(op, l, r))
    for n in negs:
        for op in BINOPS:
            ret("negnum", "x %s %s" % (op, n[1]), BIN(op, x, n))
            ret("negnum", "%s %s x" % (n[1], op), BIN(op, n, x))
            ret("negnum", "(x %s %s) %s x" % (op, n[1], op), BIN(op, BIN(op, x, n), x))
        for u in UNOPS:
            ret("negnum", "%s %s" % (u, n[1]), UN(u, n))
        add("negnum", "contexts %s" % n[1], BLOCK(LOCAL(["a"], [n]), ASSIGN([IDX(t, n)], [n]), CALLSTMT(CALL(f, ARGS(n, n))), COMPOUND("-", a, n),
                                                   NUMFOR("i", n, n, n), last=RET(TAB(POS(n), NAMED("k", n), KEY(n, n)))))

    # ---- numbers next to `..`, `.`, names and keywords
    nums = {"1": NUM(1), "0.5": NUM(0.5), "1e10": NUME(1e10, 10), "1E10": NUME(1e10, 10, True), "1e-7": NUME(1e-7, -7), "0xff": HEX(255), "0XFF": HEX(255, True),
            "0xe": HEX(14), "0xa": HEX(10), "0b101": BNUM(5), "0B1": BNUM(1, True), "1e308": NUM("1e308"), "5e-324": NUM("5e-324"), "123456789012": NUM(123456789012),
            "0.1": NUM(0.1), "0": NUM(0), "3.14": NUM(3.14)}
    for nn, n in nums.items():
        ret("numadj", "%s .. x" % nn, BIN("..", n, x))
        ret("numadj", "x .. %s" % nn, BIN("..", x, n))
        ret("numadj", "%s .. %s" % (nn, nn), BIN("..", n, n))
        ret("numadj", "%s .. ..." % nn, BIN("..", n, VA))
        ret("numadj", "... .. %s" % nn, BIN("..", VA, n))
        ret("numadj", "%s .. %s .. %s" % (nn, nn, nn), BIN("..", n, BIN("..", n, n)))
        ret("numadj", "(%s).x" % nn, FLD(n, "x"))
        ret("numadj", "(%s):m()" % nn, MCALL(n, "m"))
        ret("numadj", "t[%s].e1" % nn, FLD(IDX(t, n), "e1"))
        for kw in ("and", "or"):
            ret("numadj", "%s %s x" % (nn, kw), BIN(kw, n, x))
            ret("numadj", "x %s %s" % (kw, nn), BIN(kw, x, n))
        ret("numadj", "%s == %s" % (nn, nn), BIN("==", n, n))
        ret("numadj", "%s ifx" % nn, IFX(n, n, n, [(n, n)]))
        add("numadj", "%s statements" % nn, BLOCK(IF([(n, BLOCK(ASSIGN([a], [n])))], BLOCK(ASSIGN([a], [n]))), WHILE(n), REPEAT(BLOCK(), n), NUMFOR("i", n, n, n),
                                                    GENFOR(["k"], [n, n]), LOCAL(["e"], [n]), LOCAL(["x1"], [n]), COMPOUND("..", a, n), COMPOUND("..", a, BIN("..", n, n)),
                                                    last=RET(n, n)))
    for nm in ("e", "e1", "E5", "x1", "_", "_1", "p1", "xff", "b1", "andy", "nota", "a_b", "Z9"):
        i = ID(nm)
        ret("numadj", "1 .. %s" % nm, BIN("..", NUM(1), i))
        ret("numadj", "%s .. 1" % nm, BIN("..", i, NUM(1)))
        ret("numadj", "%s.%s .. %s" % (nm, nm, nm), BIN("..", FLD(i, nm), i))
        ret("numadj", "1 and %s" % nm, BIN("and", NUM(1), i))
        ret("numadj", "%s or 0xe" % nm, BIN("or", i, HEX(14)))
        ret("numadj", "not %s" % nm, UN("not", i))
        ret("numadj", "-%s" % nm, UN("-", i))
        add("numadj", "for %s" % nm, BLOCK(NUMFOR(nm, NUM(1), i), GENFOR([nm, nm], [i]), LOCALFN(nm, [nm]), FUNCTION([nm, nm], [nm], method=nm)))
    ret("numadj", "... .. ...", BIN("..", VA, VA))
    ret("numadj", "... , ...", TAB(POS(VA), POS(VA)))
    add("numadj", "return ... / local = ...", BLOCK(LOCAL(["a"], [VA]), ASSIGN([a], [VA]), CALLSTMT(CALL(f, ARGS(VA))), last=RET(VA)))
    ret("numadj", "a.b.c .. d.e", BIN("..", FLD(FLD(a, "b"), "c"), FLD(ID("d"), "e")))
    ret("numadj", "x < y > z", BIN(">", BIN("<", x, y), ID("z")))
    ret("numadj", "x > y >= z", BIN(">=", BIN(">", x, y), ID("z")))

    # ---- long strings and brackets
    longs = {"plain": LONG, "ends_rb": LONG_RB, "newlines": LONG_NL, "leading_nl": LONG_LEAD_NL, "inner_rb": LONG_INNER,
             # long texts with the other white space characters: a carriage return may not be written raw inside a long
             # bracket (every lexer reads CR / CRLF there as LF), tabs and form feeds may
             "crlf": "c" * 30 + "\r\n" + "c" * 30, "cr": "d" * 30 + "\r" + "d" * 30, "leading_crlf": "\r\n" + "e" * 60, "tab": "t" * 30 + "\t" + "t" * 30,
             "formfeed": "f" * 30 + "\x0c" + "f" * 30, "crlf_lines": "http\r\n" * 6 + "0123456789", "vtab": "v" * 30 + "\x0b" + "v" * 30}
    for ln, lv in longs.items():
        L = STR(lv)
        ret("longstr", "%s t[L]" % ln, IDX(t, L))
        ret("longstr", "%s t[t[L]]" % ln, IDX(t, IDX(t, L)))
        ret("longstr", "%s {[L]=L}" % ln, TAB(KEY(L, L)))
        ret("longstr", "%s f L" % ln, CALL(f, SARG(lv)))
        ret("longstr", "%s f(L)" % ln, CALL(f, ARGS(L)))
        ret("longstr", "%s f(L, L)" % ln, CALL(f, ARGS(L, L)))
        ret("longstr", "%s t[f L]" % ln, IDX(t, CALL(f, SARG(lv))))
        ret("longstr", "%s a:m L" % ln, MCALL(a, "m", SARG(lv)))
        ret("longstr", "%s L .. L" % ln, BIN("..", L, L))
        ret("longstr", "%s #L" % ln, UN("#", L))
        ret("longstr", "%s x == L" % ln, BIN("==", x, L))
        ret("longstr", "%s (L)[1]" % ln, IDX(L, NUM(1)))
        ret("longstr", "%s (L):len()" % ln, MCALL(L, "len"))
        ret("longstr", "%s {L, L}" % ln, TAB(POS(L), POS(L)))
        add("longstr", "%s statements" % ln, BLOCK(LOCAL(["a"], [L]), ASSIGN([IDX(t, L)], [L]), CALLSTMT(CALL(f, SARG(lv))), COMPOUND("..", a, L),
                                                     CALLSTMT(CALL(CALL(f, SARG(lv)), SARG(lv))), last=RET(L)))
    ret("longstr", "a[b[c]]", IDX(a, IDX(b, c)))
    ret("longstr", "a[b[c[1]]]", IDX(a, IDX(b, IDX(c, NUM(1)))))
    ret("longstr", "{[a[1]]=1}", TAB(KEY(IDX(a, NUM(1)), NUM(1))))
    ret("longstr", "a[{}][{}]", IDX(IDX(a, TAB()), TAB()))

    # ---- strings
    strs = {"empty": "", "quote1": "'", "quote2": '"', "both": "'\"", "backslash": "\\", "nl": "\n", "cr": "\r", "crlf": "\r\n", "nul": "\0", "nul_digit": "\0" + "1",
            "esc_digit": "\x1b7", "bell": "\a", "dashes": "--", "dashes_long": "--[[", "close": "]]", "close_comment": "--]]", "nl_dashes": "a\n--b", "utf8": "é",
            "utf8_3": "€", "latin1_invalid": b"\xe9", "invalid_utf8": b"\xff\xfe", "del": "\x7f", "tab": "\t", "backtick": "`", "brace": "{", "space": " ", "digits": "123",
            "keyword": "end", "long_dashes": "--" + "x" * 60, "long_comment": "--[[" + "x" * 60, "sixty": "s" * 60, "fiftynine": "s" * 59}
    for sn, sv in strs.items():
        S = STR(sv)
        ret("strings", "%s return" % sn, S)
        ret("strings", "%s f S" % sn, CALL(f, SARG(sv)))
        ret("strings", "%s f S S" % sn, CALL(CALL(f, SARG(sv)), SARG(sv)))
        ret("strings", "%s S .. S" % sn, BIN("..", S, S))
        ret("strings", "%s t[S]" % sn, IDX(t, S))
        ret("strings", "%s (S):len()" % sn, MCALL(S, "len"))
        ret("strings", "%s - S" % sn, BIN("-", x, UN("-", S)))
        if isinstance(sv, str) and all(ord(ch) < 128 for ch in sv):
            ret("strings", "%s interp" % sn, INTERP(sv, x, sv, TAB(), sv))
    ret("strings", "interp forms", TAB(POS(INTERP()), POS(INTERP(x)), POS(INTERP("a")), POS(INTERP(x, y)), POS(INTERP("a", INTERP("b", x))), POS(INTERP(TAB(POS(x)))),
                                     POS(INTERP(BIN("+", TAB(), NUM(1)))), POS(INTERP("\\{`\n\r\0" + "9")), POS(INTERP(STR("}"))), POS(INTERP(IFX(a, b, c))),
                                     POS(INTERP(FN(body=BLOCK(last=RET(NUM(1))))))))

    # ---- calls, sugar, chains
    chains = {
        "a.b.c.d": FLD(FLD(FLD(a, "b"), "c"), "d"), "a:b():c()": MCALL(MCALL(a, "b"), "c"), "a.b:c(1).d[2]": IDX(FLD(MCALL(FLD(a, "b"), "c", ARGS(NUM(1))), "d"), NUM(2)),
        "a[1][2]": IDX(IDX(a, NUM(1)), NUM(2)), "f{}": CALL(f, TARG()), "f{1}": CALL(f, TARG(POS(NUM(1)))), "f's'": CALL(f, SARG("s")), "f\"it's\"": CALL(f, SARG("it's")),
        "f{}{}": CALL(CALL(f, TARG()), TARG()), "f's''t'": CALL(CALL(f, SARG("s")), SARG("t")), "f{}.x": FLD(CALL(f, TARG()), "x"), "f's'.x": FLD(CALL(f, SARG("s")), "x"),
        "f's':m()": MCALL(CALL(f, SARG("s")), "m"), "f's'(x)": CALL(CALL(f, SARG("s")), ARGS(x)), "f{}(x)": CALL(CALL(f, TARG()), ARGS(x)), "f()()": CALL(CALL(f)),
        "f(f)(f)": CALL(CALL(f, ARGS(f)), ARGS(f)), "a:m's'": MCALL(a, "m", SARG("s")), "a:m{}": MCALL(a, "m", TARG()), "(f)()": CALL(PAR(f)), "(f)(x)(y)": CALL(CALL(PAR(f), ARGS(x)), ARGS(y)),
        "((f))()": CALL(PAR(PAR(f))), "(...)": PAR(VA), "(f())": PAR(CALL(f)), "({}).x": FLD(TAB(), "x"), "('s'):rep(2)": MCALL(STR("s"), "rep", ARGS(NUM(2))),
        "(1).x": FLD(NUM(1), "x"), "(a+b).x": FLD(BIN("+", a, b), "x"), "(-a)()": CALL(UN("-", a)), "(function() end)()": CALL(FN()), "(a and b)(c)": CALL(BIN("and", a, b), ARGS(c)),
        "(if c then a else b)()": CALL(IFX(c, a, b)), "f((x))": CALL(f, ARGS(PAR(x))), "f((f()))": CALL(f, ARGS(PAR(CALL(f)))), "f(...)": CALL(f, ARGS(VA)),
        "f((...))": CALL(f, ARGS(PAR(VA))), "f(x, y, z)": CALL(f, ARGS(x, y, ID("z"))), "f(function() end)": CALL(f, ARGS(FN())), "f(f(f(x)))": CALL(f, ARGS(CALL(f, ARGS(CALL(f, ARGS(x)))))),
        "(nil)()": CALL(NIL), "(true).x": FLD(TRUE, "x"), "`s`:len()": MCALL(INTERP("s"), "len"), "a.b.c:d(e.f, g:h())": MCALL(FLD(FLD(a, "b"), "c"), "d", ARGS(FLD(ID("e"), "f"), MCALL(ID("g"), "h"))),
        "very.long.field.chain.of.names.that.wraps": FLD(FLD(FLD(FLD(FLD(FLD(FLD(ID("very"), "long"), "field"), "chain"), "of"), "names"), "that"), "wraps"),
    }
    for cn, ce in chains.items():
        ret("calls", cn, ce)
        if ce[0] in ("call", "mcall"):
            add("calls", "stmt " + cn, BLOCK(CALLSTMT(ce), CALLSTMT(ce)))
        if ce[0] in ("fld", "idx"):
            add("calls", "assign " + cn, BLOCK(ASSIGN([ce], [ce]), COMPOUND("+", ce, ce)))

    # ---- return followed by anything / every expression kind in every list position
    for ln, l in leaves.items():
        ret("return", ln, l)
        add("return", "%s, %s" % (ln, ln), BLOCK(last=RET(l, l)))
        add("return", "contexts %s" % ln, BLOCK(LOCAL(["a", "b"], [l, l]), ASSIGN([a, FLD(a, "b")], [l, l]), CALLSTMT(CALL(f, ARGS(l, l))), IF([(l, BLOCK()), (l, BLOCK())]),
                                                  WHILE(l), REPEAT(BLOCK(), l), GENFOR(["k", "v"], [l, l]), COMPOUND("+", a, l),
                                                  last=RET(TAB(POS(l), NAMED("k", l), KEY(l, l)), IDX(t, l), IFX(l, l, l, [(l, l)]), PAR(l), FN(body=BLOCK(last=RET(l))))))
    add("return", "empty", BLOCK(last=RET()))
    add("return", "break/continue", BLOCK(WHILE(TRUE, BLOCK(last=["break"])), WHILE(TRUE, BLOCK(last=["continue"])), REPEAT(BLOCK(IF([(a, BLOCK(last=["break"]))], BLOCK(last=["continue"]))), a)))

    # ---- if-expressions
    I = IFX(c, a, b)
    for op in BINOPS:
        ret("ifexpr", "I %s x" % op, BIN(op, I, x))
        ret("ifexpr", "x %s I" % op, BIN(op, x, I))
        ret("ifexpr", "(x %s I) %s y" % (op, op), BIN(op, BIN(op, x, I), y))
        ret("ifexpr", "x %s (I %s y)" % (op, op), BIN(op, x, BIN(op, I, y)))
        ret("ifexpr", "-I %s y" % op, BIN(op, UN("-", I), y))
    ret("ifexpr", "elseif chain", IFX(a, NUM(1), NUM(4), [(b, NUM(2)), (c, NUM(3))]))
    ret("ifexpr", "else if", IFX(a, NUM(1), IFX(b, NUM(2), NUM(3))))
    ret("ifexpr", "nested everywhere", IFX(IFX(a, b, c), IFX(a, b, c), IFX(a, b, c), [(IFX(a, b, c), IFX(a, b, c))]))
    ret("ifexpr", "call arg / index / table", CALL(f, ARGS(I, IDX(t, I), TAB(POS(I), KEY(I, I)))))
    add("ifexpr", "statements", BLOCK(LOCAL(["a"], [I]), ASSIGN([a], [I]), CALLSTMT(CALL(PAR(f))), IF([(I, BLOCK())]), NUMFOR("i", I, I, I), last=RET(I, I)))

    # ---- every statement kind with minimal and one-statement bodies
    one = BLOCK(CALLSTMT(CALL(f)))
    stmts = {
        "do": [DO(BLOCK()), DO(one), DO(BLOCK(DO(BLOCK())))],
        "while": [WHILE(a), WHILE(a, one), WHILE(BIN("<", a, NUM(1)), BLOCK(last=["break"]))],
        "repeat": [REPEAT(BLOCK(), a), REPEAT(one, UN("not", a)), REPEAT(BLOCK(LOCAL(["z"], [NUM(1)])), BIN("==", ID("z"), NUM(1)))],
        "if": [IF([(a, BLOCK())]), IF([(a, one)], one), IF([(a, one), (b, one), (c, BLOCK())], BLOCK()), IF([(a, BLOCK(last=RET()))], BLOCK(last=RET(NUM(1)))),
               IF([(a, BLOCK())], BLOCK(IF([(b, BLOCK())])))],
        "numfor": [NUMFOR("i", NUM(1), NUM(10)), NUMFOR("i", NUM(10), NUM(1), UN("-", NUM(1)), one), NUMFOR("i", a, b, c, one)],
        "genfor": [GENFOR(["k"], [a]), GENFOR(["k", "v"], [CALL(ID("pairs"), ARGS(t))], one), GENFOR(["a", "b", "c"], [x, y, ID("z")], one)],
        "function": [FUNCTION(["g"]), FUNCTION(["g"], ["a"], False, one), FUNCTION(["g", "h", "i"], ["a", "b"], True, one), FUNCTION(["g"], [], True), FUNCTION(["g", "h"], ["a"], False, one, method="m"),
                     FUNCTION(["g"], [], False, BLOCK(last=RET(VA)), method="m")],
        "localfn": [LOCALFN("g"), LOCALFN("g", ["a", "b"], True, one), LOCALFN("g", [], True, BLOCK(last=RET(VA)))],
        "local": [LOCAL(["a"]), LOCAL(["a", "b", "c"]), LOCAL(["a"], [NUM(1)]), LOCAL(["a", "b"], [NUM(1), NUM(2)]), LOCAL(["a"], [NUM(1), NUM(2)]), LOCAL(["a", "b"], [CALL(f)])],
        "const": [["localc", ["a"], [NUM(1)]], ["localc", ["a", "b"], [STR("s"), FLD(a, "b")]], ["localc", ["a"], [CALL(f)]]],
        "assign": [ASSIGN([a], [NUM(1)]), ASSIGN([a, b], [b, a]), ASSIGN([FLD(a, "b"), IDX(a, NUM(1)), c], [NUM(1), NUM(2), NUM(3)]), ASSIGN([a], [NUM(1), NUM(2)])],
        "compound": [COMPOUND(op, a, b) for op in COMPOUND_OPS] + [COMPOUND(op, FLD(a, "b"), UN("-", b)) for op in COMPOUND_OPS] + [COMPOUND(op, IDX(a, b), NUM(1)) for op in COMPOUND_OPS],
        "callstmt": [CALLSTMT(CALL(f)), CALLSTMT(MCALL(a, "m", ARGS(x))), CALLSTMT(CALL(f, SARG("s"))), CALLSTMT(CALL(f, TARG(NAMED("k", NUM(1)))))],
    }
    for kind, lst in stmts.items():
        for k, st in enumerate(lst):
            add("statements", "%s#%d" % (kind, k), BLOCK(st))
            add("statements", "%s#%d twice" % (kind, k), BLOCK(st, st))
            add("statements", "%s#%d in fn" % (kind, k), BLOCK(LOCALFN("g", [], True, BLOCK(WHILE(TRUE, BLOCK(st, st)), st, last=RET(VA)))))
    add("statements", "all kinds", BLOCK(*[lst[-1] for lst in stmts.values()], last=RET(a, b)))

    # ---- function expressions and tables
    ret("functions", "variants", TAB(POS(FN()), POS(FN(["a"])), POS(FN(["a", "b"], True)), POS(FN([], True, BLOCK(last=RET(VA)))), POS(FN(["self"], False, one)),
                                      NAMED("k", FN(body=BLOCK(last=RET(FN())))), KEY(FN(), FN())))
    ret("functions", "iife", CALL(FN(["a"], False, BLOCK(last=RET(a))), ARGS(NUM(1))))
    ret("functions", "many params", FN(["parameter_one", "parameter_two", "parameter_three", "parameter_four", "parameter_five", "parameter_six"], True, one))
    tabs = {"empty": TAB(), "pos": TAB(POS(NUM(1)), POS(NUM(2)), POS(NUM(3))), "pos4": TAB(POS(a), POS(b), POS(c), POS(x)), "named": TAB(NAMED("a", NUM(1)), NAMED("b", NUM(2))),
            "keyed": TAB(KEY(STR("a"), NUM(1)), KEY(NUM(1), STR("a")), KEY(NUM(-1), x), KEY(TAB(), TAB())), "mixed": TAB(POS(a), NAMED("b", c), KEY(x, y), POS(VA)),
            "nested": TAB(POS(TAB(POS(TAB()))), NAMED("t", TAB(NAMED("t", TAB())))), "single_named": TAB(NAMED("a", NUM(1))), "single_key": TAB(KEY(a, b)),
            "calls": TAB(POS(CALL(f)), POS(CALL(f))), "fn": TAB(NAMED("f", FN(["a"], False, BLOCK(last=RET(a)))))}
    for tn, tv in tabs.items():
        ret("tables", tn, tv)
        ret("tables", "#" + tn, UN("#", tv))
        ret("tables", tn + ".x", FLD(tv, "x"))
        ret("tables", "f " + tn, CALL(f, ["targ", tv]))
        ret("tables", "interp " + tn, INTERP("a", tv, "b"))
        ret("tables", "interp bin " + tn, INTERP(BIN("..", tv, x)))

    # ---- numbers as such
    numvals = ["0", "-0", "1", "-1", "0.1", "1e100", "1e-100", "123456789012345680", "0.30000000000000004", "5e-324", "1.7976931348623157e308", "inf", "-inf", "nan",
               "9007199254740993", "1e21", "1e22", "1e15", "1e16", "123.456", "0.000001", "1e-7", "255", "65536.5"]
    for nv in numvals:
        n = NUM(nv)
        ret("numbers", nv, n)
        ret("numbers", "x ^ " + nv, BIN("^", x, n))
        ret("numbers", "t[%s]" % nv, IDX(t, n))
        ret("numbers", "(%s)^2" % nv, BIN("^", PAR(n), NUM(2)))
        ret("numbers", "%s + %s" % (nv, nv), BIN("+", n, n))
        ret("numbers", "%s - %s" % (nv, nv), BIN("-", n, n))
        ret("numbers", "%s / %s" % (nv, nv), BIN("/", n, n))
        ret("numbers", "#%s" % nv, UN("#", n))
        ret("numbers", "- %s" % nv, UN("-", n))
    for e in (-400, -324, -10, -1, 0, 1, 2, 10, 308, 400):
        for base in ("1", "1.5", "0", "12345", "1e300", "1e-300"):
            ret("numbers", "%s with_exponent %d" % (base, e), NUME(base, e))
            ret("numbers", "%s with_exponent %d upper" % (base, e), NUME(base, e, True))
    ret("numbers", "hex / binary", TAB(POS(HEX(0)), POS(HEX(2 ** 64 - 1)), POS(HEX(2 ** 53 + 1, True)), POS(BNUM(0)), POS(BNUM(2 ** 64 - 1)), POS(BNUM(5, True))))

    # ---- type syntax (the shapes rules and the bundler create, plus a sample of the type grammar)
    T = TNAME("T")
    typed = {
        "cast": CAST(x, T), "cast any": CAST(CALL(f), TNAME("any")), "cast in binary": BIN("+", CAST(x, T), CAST(y, T)), "cast <": BIN("<", CAST(x, T), y), "cast >": BIN(">", CAST(x, T), y),
        "cast generic <": BIN("<", CAST(x, TNAME("T", [TNAME("U")])), y), "cast of binary": CAST(BIN("+", x, y), T), "cast of unary": CAST(UN("-", x), T), "cast of cast": CAST(CAST(x, T), T),
        "cast of ifx": CAST(IFX(c, a, b), T), "unary of cast": UN("-", CAST(x, T)), "cast typeof": CAST(x, ["ttypeof", BIN("+", a, b)]), "cast optional": CAST(x, ["topt", T]),
        "cast union": CAST(x, ["tunion", T, TNAME("U"), ["tnil"]]), "cast inter": CAST(x, ["tinter", T, TNAME("U")]), "cast array": CAST(x, ["tarray", T]), "cast table": CAST(x, ["ttable", [["a", T], ["b", ["topt", T]]]]),
        "cast func": CAST(x, ["tfunc", [T, T], T]), "cast func <": BIN("<", CAST(x, ["tfunc", [T], T]), y), "cast field": CAST(x, ["tfield", "M", "T"]), "cast string": CAST(x, ["tstr", list(b"s")]),
        "cast paren": CAST(x, ["tparen", T]), "x + cast < y": BIN("<", BIN("+", a, CAST(x, T)), y), "ifx cast < y": BIN("<", IFX(c, a, CAST(x, T)), y), "cast in call": CALL(f, ARGS(CAST(x, T), CAST(y, T))),
        "cast in table": TAB(POS(CAST(x, T)), NAMED("k", CAST(x, T)), KEY(CAST(x, T), CAST(y, T))), "cast .. cast": BIN("..", CAST(x, T), CAST(y, T)),
        "cast ^": BIN("^", CAST(x, T), CAST(y, T)), "(cast).x": FLD(CAST(x, T), "x"), "cast true/false": CAST(x, ["tunion", ["ttrue"], ["tfalse"]]),
    }
    for tn, te in typed.items():
        ret("types", tn, te)
    add("types", "declarations", BLOCK(TYPEDECL("A", T), TYPEDECL("B", TNAME("Array", [T]), True), TYPEDECL("C", ["tunion", T, ["tnil"]]), TYPEDECL("D", ["tfunc", [], T]),
                                       LOCALT([["a", T]], [NUM(1)]), LOCALT([["a", TNAME("Array", [T])], ["b", None]], [NUM(1), NUM(2)]), LOCALT([["a", ["topt", T]]]),
                                       ["functiont", ["g"], None, [["a", T], ["b", None]], True, T, BLOCK()], ["functiont", ["g", "h"], "m", [], False, TNAME("Array", [T]), one],
                                       GENFOR([["k", T], ["v", TNAME("Array", [T])]], [a]), last=RET(["fnt", [["a", T]], False, ["topt", T], BLOCK()])))
    return out


# ----------------------------------------------------------------------------------------------- random trees
class Rand:
    """Seeded random DSL trees.  `avoid_neg_atom`: open findings F-C02-a/b are kept out by construction (no number with the
    sign bit set as left operand of `^`, as operand of a cast, or as last leaf of the left operand of `..`)."""

    NAMES = ["a", "b", "x", "y", "e", "e1", "E", "x1", "_", "_0", "f", "t", "self", "andy", "nota", "orb", "p", "xff", "n1", "long_identifier_name", "i", "k", "v"]
    STRS = ["", "s", "it's", 'say "hi"', "'\"", "\\", "\n", "\0" + "1", "\x1b[0m", "--", "]]", "é", "tab\there", "a" * 61, "b" * 59 + "]", "l\n" * 7 + "0123456789abc", "\r\n", "`{", "123"]
    NUMS = [NUM(0), NUM(1), NUM(2), NUM(0.5), NUM(0.1), NUME(1e10, 10), NUME(1e-7, -7, True), HEX(255), HEX(14), HEX(10, True), BNUM(5), NUM(123456), NUM("1e308"), NUM("5e-324"), NUM("inf"), NUM("nan"),
            NUM(3.14159), NUM(100), NUME(1000, 3)]
    NEGS = [NUM(-1), NUM("-0"), NUM(-0.5), NUM("-inf"), NUME("-1000", 3)]

    def __init__(self, seed, types=False):
        self.r = random.Random(seed)
        self.types = types

    def pick(self, xs):
        return xs[self.r.randrange(len(xs))]

    def name(self):
        return self.pick(self.NAMES)

    def leaf(self, neg_ok=True):
        k = self.r.randrange(12)
        if k < 3:
            return ID(self.name())
        if k < 5:
            return self.pick(self.NUMS)
        if k == 5:
            return self.pick(self.NEGS) if neg_ok else self.pick(self.NUMS)
        if k == 6:
            return STR(self.pick(self.STRS))
        if k == 7:
            return self.pick([TRUE, FALSE, NIL])
        if k == 8:
            return VA
        if k == 9:
            return TAB()
        if k == 10:
            return CALL(ID(self.name()))
        return FLD(ID(self.name()), self.name())

    @staticmethod
    def last_leaf_neg(e):
        while True:
            if e[0] in ("num", "nume", "numbits"):
                return str(e[1]).startswith("-") if e[0] != "numbits" else e[1] < 0
            if e[0] == "bin":
                e = e[3]
            elif e[0] == "un":
                e = e[2]
            elif e[0] == "ifx":
                e = e[4]
            else:
                return False

    def expr(self, d, neg_ok=True):
        if d <= 0 or self.r.random() < 0.15:
            return self.leaf(neg_ok)
        k = self.r.randrange(20 if self.types else 19)
        if k < 6:
            op = self.pick(BINOPS)
            l = self.expr(d - 1, neg_ok=(op != "^"))
            if op == ".." and self.last_leaf_neg(l):
                l = PAR(l)
            return BIN(op, l, self.expr(d - 1))
        if k < 8:
            return UN(self.pick(UNOPS), self.expr(d - 1))
        if k == 8:
            return PAR(self.expr(d - 1))
        if k == 9:
            return CALL(self.prefix(d - 1), self.args(d - 1))
        if k == 10:
            return MCALL(self.prefix(d - 1), self.name(), self.args(d - 1))
        if k == 11:
            return IDX(self.prefix(d - 1), self.expr(d - 1))
        if k == 12:
            return FLD(self.prefix(d - 1), self.name())
        if k == 13:
            return self.table(d - 1)
        if k == 14:
            return FN([self.name() for _ in range(self.r.randrange(3))], self.r.random() < 0.3, self.block(d - 2, in_loop=False))
        if k == 15:
            br = [(self.expr(d - 2), self.expr(d - 2)) for _ in range(self.r.randrange(2))]
            return IFX(self.expr(d - 1), self.expr(d - 1), self.expr(d - 1), br)
        if k == 16:
            segs = []
            for _ in range(self.r.randrange(4)):
                segs.append(self.pick([s for s in self.STRS if all(ord(ch) < 128 for ch in s)]) if self.r.random() < 0.5 else self.expr(d - 2))
            return INTERP(*segs)
        if k == 17:
            return STR(self.pick(self.STRS))
        if k == 18:
            return self.leaf(neg_ok)
        return CAST(self.expr(d - 1, neg_ok=False), self.ty(2))

    def ty(self, d):
        k = self.r.randrange(8 if d > 0 else 2)
        if k < 2:
            return TNAME(self.pick(["T", "number", "string", "any"]))
        if k == 2:
            return TNAME("Array", [self.ty(d - 1)])
        if k == 3:
            return ["topt", self.ty(d - 1)]
        if k == 4:
            return ["tunion", self.ty(d - 1), self.ty(d - 1)]
        if k == 5:
            return ["tarray", self.ty(d - 1)]
        if k == 6:
            return ["tfunc", [self.ty(d - 1) for _ in range(self.r.randrange(3))], self.ty(d - 1)]
        return ["ttable", [[self.name(), self.ty(d - 1)] for _ in range(self.r.randrange(3))]]

    def prefix(self, d):
        k = self.r.randrange(6)
        if d <= 0 or k < 2:
            return ID(self.name())
        if k == 2:
            return CALL(self.prefix(d - 1), self.args(d - 1))
        if k == 3:
            return FLD(self.prefix(d - 1), self.name())
        if k == 4:
            return IDX(self.prefix(d - 1), self.expr(d - 1))
        return PAR(self.expr(d - 1))

    def args(self, d):
        k = self.r.randrange(8)
        if k == 0:
            return SARG(self.pick(self.STRS))
        if k == 1:
            return ["targ", self.table(d - 1)]
        return ARGS(*[self.expr(d) for _ in range(self.r.randrange(4))])

    def table(self, d):
        es = []
        for _ in range(self.r.randrange(5)):
            k = self.r.randrange(3)
            es.append(POS(self.expr(d)) if k == 0 else NAMED(self.name(), self.expr(d)) if k == 1 else KEY(self.expr(d), self.expr(d)))
        return TAB(*es)

    def var(self, d):
        k = self.r.randrange(3)
        return ID(self.name()) if k == 0 else FLD(self.prefix(d), self.name()) if k == 1 else IDX(self.prefix(d), self.expr(d))

    def stmt(self, d, in_loop):
        k = self.r.randrange(14 if self.types else 13)
        if k == 0:
            n = 1 + self.r.randrange(2)
            return ASSIGN([self.var(d) for _ in range(n)], [self.expr(d) for _ in range(1 + self.r.randrange(2))])
        if k == 1:
            return DO(self.block(d - 1, in_loop))
        if k == 2:
            c_ = CALL(self.prefix(d), self.args(d)) if self.r.random() < 0.7 else MCALL(self.prefix(d), self.name(), self.args(d))
            return CALLSTMT(c_)
        if k == 3:
            return COMPOUND(self.pick(COMPOUND_OPS), self.var(d), self.expr(d))
        if k == 4:
            names = [self.name() for _ in range(1 + self.r.randrange(3))]
            return FUNCTION(names, [self.name() for _ in range(self.r.randrange(3))], self.r.random() < 0.3, self.block(d - 1, False),
                            method=self.name() if self.r.random() < 0.3 else None)
        if k == 5:
            return GENFOR([self.name() for _ in range(1 + self.r.randrange(2))], [self.expr(d) for _ in range(1 + self.r.randrange(2))], self.block(d - 1, True))
        if k == 6:
            br = [(self.expr(d), self.block(d - 1, in_loop)) for _ in range(1 + self.r.randrange(2))]
            return IF(br, self.block(d - 1, in_loop) if self.r.random() < 0.4 else None)
        if k == 7:
            return LOCAL([self.name() for _ in range(1 + self.r.randrange(2))], [self.expr(d) for _ in range(self.r.randrange(3))])
        if k == 8:
            return LOCALFN(self.name(), [self.name() for _ in range(self.r.randrange(3))], self.r.random() < 0.3, self.block(d - 1, False))
        if k == 9:
            return NUMFOR(self.name(), self.expr(d), self.expr(d), self.expr(d) if self.r.random() < 0.3 else None, self.block(d - 1, True))
        if k == 10:
            return REPEAT(self.block(d - 1, True), self.expr(d))
        if k == 11:
            return WHILE(self.expr(d), self.block(d - 1, True))
        if k == 12:
            return CALLSTMT(CALL(PAR(self.expr(d)), self.args(d)))
        return self.pick([TYPEDECL("T" + self.name(), self.ty(2), self.r.random() < 0.3), LOCALT([[self.name(), self.ty(2)]], [self.expr(d)])])

    def block(self, d, in_loop):
        if d <= 0:
            return BLOCK()
        stmts = [self.stmt(d, in_loop) for _ in range(self.r.randrange(4))]
        last = None
        k = self.r.randrange(6)
        if k == 0:
            last = RET(*[self.expr(d) for _ in range(self.r.randrange(3))])
        elif k == 1 and in_loop:
            last = self.pick([["break"], ["continue"]])
        return BLOCK(*stmts, last=last)

    def program(self, d):
        stmts = [self.stmt(d, False) for _ in range(1 + self.r.randrange(3))]
        last = RET(*[self.expr(d) for _ in range(self.r.randrange(3))]) if self.r.random() < 0.5 else None
        return BLOCK(*stmts, last=last)
