"""C07 -- each Luau-lowering rule removes every occurrence of its construct.

G: TLC enumerates spec/darklua/Positions.tla: every Luau construct in every expression / statement position
   (incl. nested in itself, in other Luau constructs, inside typeof(...) of a type annotation, inside closures).
R: dlv census runs the rule that targets the construct (alone), and all lowering rules together in several orders;
   the census of Luau constructs of input and output is counted by the independent parser, and the output of the
   all-rules pipelines is parsed with the strict Lua 5.1 grammar.
V: TLC (CensusTrace) judges: targeted constructs absent from the output; all rules => strict Lua 5.1."""
import json, os, random
import vlib
from vlib import Report, tlc, tlc_ok, dlv, write_ndjson, read_ndjson

PID = "C07"
RULE_OF = {"compound_assign": "remove_compound_assignment", "continue_stmt": "remove_continue", "if_expression": "remove_if_expression",
           "interpolated_string": "remove_interpolated_string", "floor_division": "remove_floor_division", "luau_number": "convert_luau_number",
           "const_decl": "make_assignment_local", "type_syntax": "remove_types", "attributes": "remove_attribute"}
ALL = ["remove_types", "remove_compound_assignment", "remove_continue", "remove_if_expression", "remove_interpolated_string",
       "remove_floor_division", "convert_luau_number", "make_assignment_local", "remove_attribute"]
TARGETS_ALL = sorted(RULE_OF)


def rt(names):
    return "[" + ", ".join("'%s'" % n for n in names) + "]"


def run(tier):
    rep = Report(PID, tier, "exploration")
    rng = random.Random(vlib.seed())
    # flat = construct x position, plus sibling statements around the construct
    sibstride = 1
    g = tlc("mc/MC_Positions", workers=4, timeout=900, xmx="4g", env={"SIBSTRIDE": str(sibstride), "OFFSET": str(rng.randrange(sibstride))})
    tlc_ok(g, "MC_Positions")
    progs = g.tagged("CASE")
    if len(progs) < 1000:
        raise vlib.ToolError("MC_Positions emitted only %d programs" % len(progs))
    # three nesting levels (statement position [ expression position [ wrapper [ construct ] ] ]): one residue class of the product
    stride = 211 if tier == "quick" else 29
    gd = tlc("mc/MC_Positions", workers=4, timeout=1800, xmx="6g", env={"MODE": "deep", "STRIDE": str(stride), "OFFSET": str(rng.randrange(stride))})
    tlc_ok(gd, "MC_Positions(deep)")
    deep = gd.tagged("CASE")
    if len(deep) < 500:
        raise vlib.ToolError("MC_Positions(deep) emitted only %d programs" % len(deep))
    progs = progs + deep
    orders = [ALL, list(reversed(ALL))] + [rng.sample(ALL, len(ALL)) for _ in range(2 if tier == "quick" else 12)]
    gens = ["retain_lines", "dense"] if tier == "quick" else ["retain_lines", "dense", "readable"]
    cases = []
    for k, p in enumerate(progs):
        rule = RULE_OF[p["construct"]]
        base = {"src": p["src"], "pkind": p["kind"], "position": p["position"], "construct_index": p["construct_index"], "construct": p["construct"]}
        # floor division: compound `//=` is also removed by remove_floor_division
        for gi, gen in enumerate(gens if (tier == "thorough" or k % 3 == 0) else gens[:1]):
            cases.append(dict(base, id="s%d_%d" % (k, gi), rules=rt([rule]), generator=gen, targets=[p["construct"]], all_rules=False, cfg="single"))
        for oi, order in enumerate(orders if (tier == "thorough" or k % 4 == 0) else orders[:1]):
            cases.append(dict(base, id="a%d_%d" % (k, oi), rules=rt(order), generator=rng.choice(gens), targets=TARGETS_ALL, all_rules=True, cfg="all"))
        # the same program as a REQUIRED MODULE of a bundled entry file: the rules meet the construct in nodes that were not
        # parsed from the text of the file being processed (and the bundler itself may add type syntax)
        module_ok = not any(ln.startswith("return") for ln in p["src"].splitlines())    # the driver appends the module's `return 0`
        if module_ok and (tier == "thorough" or k % 3 == 1):
            cases.append(dict(base, id="bs%d" % k, rules=rt([rule]), generator=gens[k % len(gens)], targets=[p["construct"]], all_rules=False, cfg="single", bundled=True))
        if module_ok and (tier == "thorough" or k % 5 == 2):
            cases.append(dict(base, id="ba%d" % k, rules=rt(orders[k % len(orders)]), generator=gens[k % len(gens)], targets=TARGETS_ALL, all_rules=True, cfg="all", bundled=True))
    cp = os.path.join(rep.wd, "cases.ndjson")
    write_ndjson(cp, cases)
    op = os.path.join(rep.wd, "obs.ndjson")
    dlv(["census", "--cases", cp, "--out", op])
    v = tlc("trace/CensusTrace", workers=12, timeout=3000, env={"OBS": op}, xmx="12g")
    tlc_ok(v, "CensusTrace")
    verdicts = {x["id"]: x for x in v.tagged("VERDICT")}
    obs = {o["id"]: o for o in read_ndjson(op)}
    if set(verdicts) != set(obs):
        raise vlib.ToolError("CensusTrace judged %d of %d" % (len(verdicts), len(obs)))
    rejected_in = 0
    nontrivial = 0
    failed_rule = 0
    for cid, ver in verdicts.items():
        o = obs[cid]
        if o["status"].startswith("input-rejected"):
            rejected_in += 1
            continue
        if not ver["ran"] and not o["status"].startswith("ok-but"):
            # the rule pipeline itself failed (parse error in darklua, rule error): not a census verdict; counted
            failed_rule += 1
            continue
        nontrivial += 1 if ver["nontrivial"] else 0
        if not ver["ok"]:
            sig = {"kind": "census", "cfg": o["cfg"], "rules": o["rules"] if o["cfg"] == "single" else "all", "construct": o["construct"], "left": ver["left"],
                   "strict51": ver["strict"], "pkind": o["pkind"], "position": o["position"], "construct_index": o["construct_index"], "status": o["status"][:120]}
            rep.violation(sig, {k: o[k] for k in ("id", "src", "rules", "generator", "targets", "all_rules", "out", "census_in", "census_out", "status", "cfg", "pkind", "position", "construct_index", "construct", "bundled") if k in o})
    if rejected_in > len(cases) // 20 or failed_rule > len(cases) // 10:
        raise vlib.ToolError("%d inputs rejected by the reference parser, %d pipelines failed, of %d" % (rejected_in, failed_rule, len(cases)))
    if nontrivial < len(cases) * 0.8:
        raise vlib.ToolError("only %d of %d cases contain the targeted construct" % (nontrivial, len(cases)))
    rep.coverage.update({
        "evaluations": len(cases), "distinct_nontrivial": len(set((c["src"], c["rules"]) for c in cases)),
        "rule": "program = construct x position (TLC enumeration of Positions.tla) ; pipeline = the rule targeting the construct, or all nine lowering rules in an order; non-trivial = the census of the targeted construct in the input is positive (%d cases)" % nontrivial,
        "samples": [{"rules": cases[0]["rules"], "src": cases[0]["src"]}, {"rules": cases[-1]["rules"], "src": cases[-1]["src"]}],
        "programs": len(progs), "programs_with_three_nesting_levels": len(deep), "orders_of_all_rules": len(orders), "states": g.distinct + gd.distinct + v.distinct, "transitions": g.generated + gd.generated + v.generated,
        "inputs_rejected_by_reference_parser": rejected_in, "pipelines_that_failed": failed_rule, "exhaustive": tier == "thorough",
    })
    rep.assumptions += ["constructs are counted by the independent parser harness/luaparse (census); strict Lua 5.1 = its Lua51 dialect",
                        "remove_attribute without a `match` filter; remove_interpolated_string with its default strategy"]
    return rep.finish()


def replay(path, tier):
    rep = Report(PID, tier, "exploration")
    with open(path) as f:
        c = json.load(f)["case"]
    case = {k: c[k] for k in ("id", "src", "rules", "generator", "targets", "all_rules", "cfg", "pkind", "position", "construct_index", "construct", "bundled") if k in c}
    cp = os.path.join(rep.wd, "replay-cases.ndjson")
    write_ndjson(cp, [case])
    op = os.path.join(rep.wd, "replay-obs.ndjson")
    dlv(["census", "--cases", cp, "--out", op])
    v = tlc("trace/CensusTrace", workers=1, timeout=600, env={"OBS": op})
    tlc_ok(v, "CensusTrace")
    for ver in v.tagged("VERDICT"):
        if not ver["ok"]:
            rep.violation({"kind": "census", "cfg": case["cfg"], "construct": case["construct"], "left": ver["left"]}, case)
    rep.coverage.update({"evaluations": 1, "distinct_nontrivial": 2, "rule": "replay", "samples": [case["src"]]})
    return rep.finish()
