"""Shared by C10/C11/C19/C20: the bounded project universe (must mirror spec/darklua/FrontendUniverse.tla)."""
UNIVERSE = {"sources": ["a", "sub/b", "sub/c"], "modules": ["sub/c", "lib/m"],
            "requires": {"a": ["sub/c"], "sub/b": ["sub/c", "lib/m"], "sub/c": ["lib/m"], "lib/m": []}, "droppers": ["sub/c"],
            "dirs": ["sub", "lib"], "configs": ["c1", "c2", "c2+skip", "c2+read"]}
FILES = ["a", "sub/b", "sub/c", "lib/m"]
# deviation flags of the OPEN findings (the code as it is today); everything else is FALSE (ideal)
OPEN_FLAGS = {"DevDepsOnExistingOnly": "1", "DevCreateNoNotify": "1", "DevRmdirNoRestart": "1"}
BASE_ENV = {"MORECONFIGS": "1"}
CONFIGS = ("c1", "c2", "c2+skip", "c2+read")
P = {"ev": "process", "f": "", "d": "", "c": "", "v": 0}


def random_history(rng, n, configs=CONFIGS):
    ex = {f: 1 for f in FILES}
    cfg = configs[0]
    ev = [dict(P)]
    for _ in range(n):
        k = rng.choice(["edit", "edit", "edit", "add", "add", "rmfile", "rmdir", "config", "process", "process", "process"])
        if k == "edit":
            c = [f for f in FILES if f in ex]
            if not c:
                continue
            f = rng.choice(c)
            v = rng.choice([x for x in (0, 1, 2) if x != ex[f]])
            ex[f] = v
            ev.append({"ev": "edit", "f": f, "d": "", "c": "", "v": v})
        elif k == "add":
            c = [f for f in FILES if f not in ex]
            if not c:
                continue
            f = rng.choice(c)
            v = rng.choice([1, 2])
            ex[f] = v
            ev.append({"ev": "add", "f": f, "d": "", "c": "", "v": v})
        elif k == "rmfile":
            c = [f for f in FILES if f in ex]
            if not c:
                continue
            f = rng.choice(c)
            del ex[f]
            ev.append({"ev": "rmfile", "f": f, "d": "", "c": "", "v": 0})
        elif k == "rmdir":
            d = rng.choice(["sub", "sub", "lib"])
            if not any(f.startswith(d + "/") for f in ex):
                continue
            for f in list(ex):
                if f.startswith(d + "/"):
                    del ex[f]
            ev.append({"ev": "rmdir", "d": d, "f": d, "c": "", "v": 0})
        elif k == "config":
            cfg = rng.choice([c for c in configs if c != cfg])
            ev.append({"ev": "config", "c": cfg, "f": cfg, "d": "", "v": 0})
        else:
            ev.append(dict(P))
    ev.append(dict(P))
    return ev
