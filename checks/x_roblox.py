#!/usr/bin/env python3
"""X-roblox -- supplementary to C15: the `roblox` TARGET mode of convert_require keeps the target.

Property: the instance path darklua writes into `require(...)`, evaluated by ROBLOX'S semantics starting from
`script` = the instance of the requiring file S, denotes the instance of the file T the original require resolved to.

G: TLC enumerates MC_Roblox (sourcemap trees x (S, T) x indexing style; file layouts without a sourcemap; hand-picked
   placements and names) and evaluates the theorem  KeepsTarget \\/ <named limit>  on the TRANSCRIPTION of darklua's two
   generators (design level: DESIGN lines).
R: dlv roblox replays every case into the real rule through darklua_core::process and reads the generated require
   argument back with the independent parser.
V: TLC (RobloxTrace) evaluates every recorded path with RobloxRequire!EvalFrom on the instance tree the case means.

Not a registered property: nothing is matched against known_findings.json.  A case that fails outside the named
limits is printed as a FINDING-CANDIDATE (one line per group, smallest reproducer) for triage.  Exit 0, or 2 on a tool error.

  cd /verif && python3 checks/x_roblox.py quick|thorough [--replay work/X-roblox/candidate-*.json]
  XROBLOX_CORRUPT=drop-parent|rename-child|swap-root   binding demonstration: corrupts the RECORDED observations
"""
import collections, json, os, random, sys, time

sys.path.insert(0, os.path.join(os.path.dirname(os.path.dirname(os.path.abspath(__file__))), "bin"))
import vlib
from vlib import tlc, tlc_ok, dlv, write_ndjson, read_ndjson, log

PID = "X-roblox"
TIERS = {
    # MAXN: trees over the full alphabet; MAXNS/ALPHAS: larger trees over a reduced alphabet; MAXNP: DataModel trees
    "quick":    dict(MAXN=4, MAXNS=5, ALPHAS=2, MAXNP=6, WFCN=4, MAXCTX=2, random_sm=4000, random_fs=3000),
    "thorough": dict(MAXN=5, MAXNS=5, ALPHAS=3, MAXNP=6, WFCN=5, MAXCTX=4, random_sm=60000, random_fs=40000),
}
CHUNK = 80000
CASE_KEYS = ("id", "fam", "cur", "style", "files", "src", "tgt", "req", "sm", "smpath", "prefix", "nodes", "order")


# ------------------------------------------------------------------ random cases beyond the enumerated universe (I->S)
def random_sm_cases(n, rng):
    """Deeper sourcemap trees (6..10 nodes), more names, services, files owned by arbitrary nodes."""
    names = ["a", "a", "b", "c", "Parent", "Name", "a b", "Source", "GetChildren", "x1", "end", "lib"]
    services = [("ReplicatedStorage", "ReplicatedStorage"), ("ServerStorage", "ServerStorage"),
                ("Shared", "ReplicatedStorage"), ("Workspace", "Workspace"), ("Parent", "StarterPlayer")]
    styles = ["find_first_child", "wait_for_child", "property"]
    rows = []
    while len(rows) < n:
        size = rng.randint(6, 10)
        place = rng.random() < 0.5
        nodes = [{"name": "Place" if place else "Project", "cls": "DataModel" if place else rng.choice(["Folder", "ModuleScript"]),
                  "parent": 0, "files": ["default.project.json"]}]
        if not place and nodes[0]["cls"] == "ModuleScript":
            nodes[0]["files"] = ["src/init.lua", "default.project.json"]
        # depth-first numbering: the parent of node i is node i-1 or one of its ancestors
        for i in range(2, size + 1):
            anc = [i - 1]
            while nodes[anc[-1] - 1]["parent"] != 0:
                anc.append(nodes[anc[-1] - 1]["parent"])
            if place:
                used = {m["cls"] for m in nodes if m["parent"] == 1}
                free = [sv for sv in services if sv[1] not in used]
                below = [x for x in anc if x != 1]
                if not below or (free and rng.random() < 0.25):
                    if not free:
                        break
                    nm, cls = rng.choice(free)
                    nodes.append({"name": nm, "cls": cls, "parent": 1, "files": []})
                    continue
                parent = rng.choice(below)
            else:
                parent = rng.choice(anc)
            if rng.random() < 0.25:
                nodes.append({"name": rng.choice(names), "cls": "Folder", "parent": parent, "files": []})
            else:
                ext = rng.choice([".lua", ".luau"])
                nodes.append({"name": rng.choice(names), "cls": "ModuleScript", "parent": parent,
                              "files": rng.choice([["src/m%d%s" % (i, ext)], ["src/m%d%s" % (i, ext), "src/m%d.meta.json" % i]])})
        if len(nodes) != size:
            continue
        owners = [k for k, m in enumerate(nodes) if any(f.endswith((".lua", ".luau")) for f in m["files"])]
        if place:
            owners = [k for k in owners if nodes[k]["parent"] not in (0,)]
        if len(owners) < 2:
            continue
        for _ in range(4):
            s, t = rng.choice(owners), rng.choice(owners)
            sf = [f for f in nodes[s]["files"] if f.endswith((".lua", ".luau"))][0]
            tf = [f for f in nodes[t]["files"] if f.endswith((".lua", ".luau"))][0]
            sdir = os.path.dirname(sf)
            rel = os.path.relpath(tf, sdir)
            files = [f for m in nodes for f in m["files"]]
            rows.append({"fam": "rsm", "cur": "path", "style": rng.choice(styles), "files": files, "src": sf, "tgt": tf,
                         "req": rel if rel.startswith("..") else "./" + rel, "sm": 1, "smpath": "sourcemap.json", "prefix": "",
                         "nodes": nodes, "order": []})
    return rows[:n]


def random_fs_cases(n, rng):
    """Random layouts below src/ (no sourcemap): deeper directories, more file kinds."""
    dirs = ["src", "src/sub", "src/sub/deep", "src/lib", "src/lib/util", "src/sub/deep/er"]
    modules = ["a.lua", "b.luau", "c.lua", "Parent.lua", "Name.luau", "a b.lua", "init.lua", "init.luau", "data.json", "conf.toml"]
    scripts = ["main.server.lua", "boot.client.luau", "init.server.lua", "init.client.luau"]
    styles = ["find_first_child", "wait_for_child", "property"]
    rows = []
    while len(rows) < n:
        k = rng.randint(2, 7)
        files = set()
        for _ in range(k):
            files.add(rng.choice(dirs) + "/" + rng.choice(modules + scripts))
        files = sorted(files)
        srcs = [f for f in files if f.endswith((".lua", ".luau"))]
        tgts = [f for f in files if not f.endswith((".server.lua", ".client.luau", ".server.luau", ".client.lua"))]
        if not srcs or not tgts:
            continue
        s, t = rng.choice(srcs), rng.choice(tgts)
        if s == t:          # a module requiring itself is an error in Roblox: no target to keep
            continue
        rel = os.path.relpath(t, os.path.dirname(s))
        order = sorted({seg for f in files for seg in f.split("/")}, key=lambda x: x.encode())
        rows.append({"fam": "rfs", "cur": "path", "style": rng.choice(styles), "files": files, "src": s, "tgt": t,
                     "req": rel if rel.startswith("..") else "./" + rel, "sm": 0, "smpath": "sourcemap.json", "prefix": "",
                     "nodes": [], "order": order})
    return rows


# ------------------------------------------------------------------ binding demonstration
def corrupt(obs_path, how):
    """Damages ONE recorded field of every observation that has it (the harness and darklua are untouched)."""
    rows = read_ndjson(obs_path)
    hit = 0
    for o in rows:
        if o["status"] != "ok":
            continue
        if how == "drop-parent":
            idx = [i for i, s in enumerate(o["steps"]) if s["k"] == "parent"]
            if idx:
                del o["steps"][idx[0]]
                hit += 1
        elif how == "rename-child":
            idx = [i for i, s in enumerate(o["steps"]) if s["k"] != "parent"]
            if idx:
                o["steps"][idx[0]]["n"] += "_"
                hit += 1
        elif how == "swap-root":
            o["root"] = "game" if o["root"] == "script" else "script"
            hit += 1
        else:
            raise vlib.ToolError("unknown XROBLOX_CORRUPT=%s" % how)
    write_ndjson(obs_path, rows)
    return hit


# ------------------------------------------------------------------ R + V
def observe_and_judge(cases, wd, label, stats):
    """Replays one chunk of cases into the real rule and has TLC judge what was recorded: {id: observation}, {id: verdict}."""
    cpath = os.path.join(wd, "%s-cases.ndjson" % label)
    write_ndjson(cpath, [{k: c[k] for k in CASE_KEYS} for c in cases])
    opath = os.path.join(wd, "%s-obs.ndjson" % label)
    t0 = time.time()
    dlv(["roblox", "--cases", cpath, "--out", opath])
    stats["wall_replay"] += time.time() - t0
    how = os.environ.get("XROBLOX_CORRUPT")
    if how:
        stats["corrupted"] += corrupt(opath, how)
    obs = read_ndjson(opath)
    if len(obs) != len(cases):
        raise vlib.ToolError("dlv roblox returned %d observations for %d cases" % (len(obs), len(cases)))
    t0 = time.time()
    res = tlc("trace/RobloxTrace", workers=8, timeout=3000, env={"OBS": opath}, xmx="12g")
    tlc_ok(res, "RobloxTrace(%s)" % label)
    stats["wall_judge"] += time.time() - t0
    stats["states"] += res.distinct
    stats["transitions"] += res.generated
    verdicts = {v["id"]: v for v in res.tagged("VERDICT")}
    if len(verdicts) != len(obs) or any(o["id"] not in verdicts for o in obs):
        raise vlib.ToolError("RobloxTrace judged %d of %d observations (%s)" % (len(verdicts), len(obs), label))
    write_ndjson(os.path.join(wd, "%s-verdicts.ndjson" % label), [verdicts[o["id"]] for o in obs])
    return {o["id"]: o for o in obs}, verdicts


def size_of(c):
    return (len(c["nodes"]) + len(c["files"]), sum(len(f) for f in c["files"]) + len(c["req"]), len(json.dumps(c["nodes"])), c["id"])


def describe(c, o, v):
    if c["sm"] == 1:
        where = "location %sproj, rojo_sourcemap %s: %s" % (c["prefix"], c["smpath"], json.dumps(c["nodes"], separators=(",", ":")))
    else:
        where = "files %s (no sourcemap)" % json.dumps(c["files"])
    return "%s | %s: require(%r) [current=%s, indexing_style=%s] -> %s %s | %s" % (
        where, c["src"], c["req"], c["cur"], c["style"], o["status"], o["text"].replace("return ", "", 1), v["why"])


def run(tier, replay=None):
    t_start = time.time()
    cfg = TIERS[tier]
    wd = vlib.workdir(PID)
    rng = random.Random(vlib.seed())
    stats = collections.Counter()
    stats["wall_replay"] = 0.0
    stats["wall_judge"] = 0.0
    design = []
    if replay:
        with open(replay) as f:
            cases = [json.load(f)["case"]]
        enumerated = 0
        g_wall = 0.0
    else:
        # G
        env = {k: v for k, v in cfg.items() if k.isupper()}
        g = tlc("mc/MC_Roblox", workers=8, timeout=3000, env=env, xmx="12g")
        tlc_ok(g, "MC_Roblox")
        g_wall = g.wall
        cases = g.tagged("CASE")
        design = g.tagged("DESIGN")
        g.out, g.lines = "", []
        stats["states"] += g.distinct
        stats["transitions"] += g.generated
        enumerated = len(cases)
        if enumerated < 10000:
            raise vlib.ToolError("MC_Roblox enumerated only %d cases" % enumerated)
        cases += random_sm_cases(cfg["random_sm"], rng) + random_fs_cases(cfg["random_fs"], rng)
    for k, c in enumerate(cases):
        c["id"] = "c%d" % k
    log("%d cases (%d enumerated by TLC in %.0fs, %d design-level counterexamples)" % (len(cases), enumerated, g_wall, len(design)))

    # R + V, chunk by chunk (Python only counts and groups what TLC decided)
    by_fam = collections.Counter()
    limits = collections.Counter()
    limits_but_ok = collections.Counter()
    status = collections.Counter()
    drift = []                                   # (case, observation, verdict), first few
    ndrift = 0
    mismatch = 0
    group_count = collections.Counter()
    group_min = {}                               # group -> (case, observation, verdict) of the smallest reproducer
    n_ok = 0
    njudged = 0
    for k in range(0, len(cases), CHUNK):
        part = cases[k:k + CHUNK]
        obs, verdicts = observe_and_judge(part, wd, "chunk%d" % (k // CHUNK), stats)
        njudged += len(verdicts)
        for c in part:
            o, v = obs[c["id"]], verdicts[c["id"]]
            by_fam[c["fam"]] += 1
            status[o["status"].split(":")[0]] += 1
            if "mlimit" in c and (c["mlimit"] != v["limit"]):
                mismatch += 1
            if not v["model_ok"]:
                ndrift += 1
                if len(drift) < 5:
                    drift.append((c, o, v))
            if v["ok"]:
                n_ok += 1
                if v["limit"]:
                    limits_but_ok[v["limit"]] += 1
            elif v["limit"]:
                limits[v["limit"]] += 1
            else:
                name = " + ".join(v["suspects"]) or "unexplained"
                group_count[name] += 1
                if name not in group_min or size_of(c) < size_of(group_min[name][0]):
                    group_min[name] = (c, o, v)
        log("chunk %d: %d judged so far" % (k // CHUNK, njudged))
    if mismatch and not os.environ.get("XROBLOX_CORRUPT"):
        raise vlib.ToolError("MC_Roblox and RobloxTrace disagree on the limit of %d cases" % mismatch)
    ncand = sum(group_count.values())
    print("X-roblox %s: %d cases (%s), %d observations judged" % (tier, len(cases), ", ".join("%s=%d" % kv for kv in sorted(by_fam.items())), njudged))
    print("  status of the real rule: %s" % ", ".join("%s=%d" % kv for kv in sorted(status.items())))
    print("  verdicts: keeps the target=%d, fails inside a named limit=%d, fails OUTSIDE the limits=%d" % (n_ok, sum(limits.values()), ncand))
    for name in sorted(set(limits) | set(limits_but_ok)):
        print("  limit %-22s fails=%-7d (applies but the target is kept: %d)" % (name, limits[name], limits_but_ok[name]))
    print("  design level (theorem on the transcription): %d counterexamples outside the limits" % len(design))
    print("  drift (real path != transcription's path): %d" % ndrift)
    for c, o, v in drift:
        print("  DRIFT %s real=%s %s model=%s %s %s" % (describe(c, o, v)[:300], o["root"], json.dumps(o["steps"]), v["mstatus"], v["mroot"], json.dumps(v["msteps"])))
    cand_files = []
    for name in sorted(group_count, key=lambda g: (g == "unexplained", g)):
        c, o, v = group_min[name]
        rp = os.path.join(wd, "candidate-%s.json" % (name.replace(" + ", "+")[:80]))
        with open(rp, "w") as f:
            json.dump({"group": name, "cases": group_count[name], "case": {k: c[k] for k in CASE_KEYS},
                       "observed": {k: o[k] for k in ("status", "root", "steps", "text")}, "verdict": v}, f, indent=1, sort_keys=True)
        cand_files.append(rp)
        print("FINDING-CANDIDATE group=%s cases=%d replay=%s" % (name, group_count[name], rp))
        print("  " + describe(c, o, v))
    if stats["corrupted"]:
        print("  (binding demonstration: %d recorded observations were corrupted with %s)" % (stats["corrupted"], os.environ.get("XROBLOX_CORRUPT")))

    sample_cases = [cases[0], cases[len(cases) // 2], cases[-1]]
    ev = {
        "property_id": PID, "tier": tier, "seed": vlib.seed(), "level": "model_checking",
        "coverage": {
            "states": int(stats["states"]), "transitions": int(stats["transitions"]),
            "traces_validated_against_impl": njudged,
            "samples": [{k: c[k] for k in CASE_KEYS} for c in sample_cases],
            "exhaustive": replay is None,
            "enumerated_cases": enumerated, "cases_by_family": dict(by_fam), "random_cases": len(cases) - enumerated,
            "bounds": {k: v for k, v in cfg.items()},
            "real_rule_status": dict(status),
            "keeps_target": n_ok, "fails_inside_named_limit": dict(limits), "limit_applies_but_target_kept": dict(limits_but_ok),
            "fails_outside_limits": dict(group_count),
            "design_level_counterexamples": len(design), "drift": ndrift,
            "candidate_reproducers": cand_files,
            "wall_enumerate_s": round(g_wall, 1), "wall_replay_s": round(stats["wall_replay"], 1), "wall_judge_s": round(stats["wall_judge"], 1),
            "checker_cmd": "tlc MC_Roblox (enumerate + theorem on the transcription); dlv roblox; tlc RobloxTrace (judge)",
            "corrupted_observations": int(stats["corrupted"]),
        },
        "assumptions": [
            "supplementary specification: not one of the registered properties, nothing is matched against known_findings.json",
            "the child order of an instance is the order of `children` in the sourcemap; without a sourcemap Rojo's order is not documented: directory listing order is assumed and the limit SiblingSameName does not depend on it",
            "members of Instance are those of the API reference (plus Source/LinkedSource/Enabled/Disabled/RunContext on scripts); members of service classes are not modelled",
            "WaitForChild on a missing child is a failure (it never returns); GetService of a class with no such child is a failure",
            "without a sourcemap every file lives below ONE mounted directory; *.project.json, *.model.json and $path remounts are outside the model",
            "a DataModel has at most one child per service class; services own no files",
            "in-memory Resources stand in for the file system; the project directory is `proj`, the working directory its parent",
            "filePaths of a sourcemap are relative to the directory of the sourcemap file (darklua's own reading)",
        ],
        "wall_s": round(time.time() - t_start, 2),
        "violations": ncand,
    }
    # a replay or a binding demonstration is not evidence of a run
    ev_path = os.path.join(vlib.VERIF, "extra", PID + ".json") if not replay and not os.environ.get("XROBLOX_CORRUPT") else os.path.join(wd, "evidence-scratch.json")
    os.makedirs(vlib.EVID, exist_ok=True)
    with open(ev_path, "w") as f:
        json.dump(ev, f, indent=1, sort_keys=True)
    print("  wall: enumerate %.0fs, replay %.0fs, judge %.0fs, total %.0fs" % (g_wall, stats["wall_replay"], stats["wall_judge"], time.time() - t_start))
    return 0


def main(argv):
    tier = argv[1] if len(argv) > 1 and argv[1] in TIERS else "quick"
    replay = argv[argv.index("--replay") + 1] if "--replay" in argv else None
    try:
        return run(tier, replay)
    except vlib.ToolError as e:
        print("TOOL-ERROR %s: %s" % (PID, e), file=sys.stderr)
        return 2


if __name__ == "__main__":
    sys.exit(main(sys.argv))
