"""C02 -- dense and readable generators emit code that means the same tree.

G  (design level, TLC):
   * MC_LuaOps model-checks LuaOps!PrintParse -- Parse(Unparse(t)) = t, where Parse is the precedence-climbing rule of
     the REFERENCE parsers (lparser.c / Luau Parser.cpp priorities) and Unparse the transcription of darklua's
     parenthesisation -- for every tree of depth <= 2 over all operators (+ if-expression, type assertion, explicit
     parentheses, negative number leaves), all operator x leaf-kind pairs, and depth 3 with one deep operand; every tree
     is emitted as a CASE.
   * MC_Fusion checks the token-fusion theorem with the reference lexer LuaLex against the transcription of utils.rs
     (GenSpacing.tla); failing triples are DESIGN-FUSION lines, classified below (can the pair be adjacent?).
R  dlv gen builds REAL darklua_core::nodes trees from the cases (TLC's operator trees, the statement-level catalogue and
   seeded random programs of checks/gencases.py), prints them with DenseLuaGenerator::new(n) / ReadableLuaGenerator::new(n)
   for every column span and with TokenBasedLuaGenerator, re-parses every text with the independent parser luaparse and
   compares with astjson::flatten(tree) (struct_ok, first difference).
V  TLC (GenTrace + LuaLex + LuaOps + IEEE754) decides per text: lexically valid; token stream exactly the expected one
   (computed from the tree, not from the generator); no line break before a call's `(`; for operator trees the reference
   parse of the lexed tokens is the tree.  struct_ok for whole statements is decided by luaparse + same_structure in the
   harness and passed through (said so in level_note)."""
import json, os, random, re
import vlib
from vlib import Report, tlc, tlc_ok, dlv, write_ndjson, read_ndjson
import gencases

PID = "C02"
SPANS_QUICK = [0, 1, 2, 3, 5, 8, 13, 20, 40, 80, 120]

# ---- design-level fusion counterexamples: why the pair cannot be adjacent in a text a generator prints (None = it can)
def fusion_adjacent_reason(t1, t2, mode):
    ops = {"%", "*", "+", "-", "..", "/", "//", "^", "<", "=", ">", "~=", "==", "<=", ">="}
    if t2 in ("=", "==") and t1 in ops:
        return "an operator is never followed by `=`/`==`: `=` follows a name, `]`, `)` or `>` (handled by break_equal / should_break_with_space)"
    if mode == "raw" and t2 == ".":
        return "the `.` of a field access follows a prefix expression (name, `)`, `]`, string/table call argument), never a numeral or a `.`"
    if t1 == "-" and t2 in (">", ">="):
        return "no expression starts with `>`"
    if t1 in ("/", "//") and t2 in ("/", "//", "/=", "//="):
        return "no expression starts with `/`"
    if t1 == ":" and t2 in (":", "::"):
        return "a `:` is followed by a method name or a type"
    if t2 == "..." and mode == "varargs" and re.fullmatch(r"-?[0-9.]+", t1):
        return "`...` is an expression: it follows a keyword, an operator, `(`, `,`, `{` or `=`, never a numeral"
    if re.fullmatch(r"[0-9_]*\.", t1):
        return "dense/readable/tokenless token-based output never contains a numeral ending in `.` (utils::write_number formats with Rust's float formatting); a SOURCE token `1.` kept by the token-based generator is finding F-C01-b (C01/C03)"
    return None


def design_models(rep, tier):
    r = tlc("mc/MC_LuaOps", workers=8, timeout=3600, env={"D3": "1", "TRAILFULL": "1" if tier == "thorough" else "0"}, xmx="12g")
    if r.rc == 12 and r.invariant_violated:
        m = re.findall(r"/\\ t = (<<.*>>)", r.out)
        rep.violation({"cause": "design_theorem", "invariant": r.invariant_violated, "tree": m[-1] if m else "?"},
                      {"kind": "design", "note": "LuaOps!PrintParse fails on the transcribed printer for a tree outside the open findings", "tlc_tail": r.out[-3000:]})
        return [], r, None
    tlc_ok(r, "MC_LuaOps")
    cases = r.tagged("CASE")
    if len(cases) < 200000:
        raise vlib.ToolError("MC_LuaOps emitted only %d trees" % len(cases))
    bad = [c for c in cases if not c["pp"] and not c["trig"]]
    if bad:
        raise vlib.ToolError("MC_LuaOps: theorem fails outside the trigger but the invariant held: %r" % bad[:2])
    rf = tlc("mc/MC_Fusion", workers=8, timeout=900, xmx="4g")
    tlc_ok(rf, "MC_Fusion")
    fus = rf.tagged("DESIGN-FUSION")
    pairs = rf.tagged("PAIR")
    if len(pairs) < 4000:
        raise vlib.ToolError("MC_Fusion judged only %d pairs" % len(pairs))
    table = []
    for x in fus:
        why = fusion_adjacent_reason(x["t1"], x["t2"], x["mode"])
        reach = None
        if why is None:
            if x["t1"].startswith("-") and len(x["t1"]) > 1 and x["t2"] == ".." and x["mode"] == "concat":
                reach = "F-C02-b"      # confirmed on the real code below (catalogue family negnum)
            else:
                reach = "UNCLASSIFIED"
        table.append({"t1": x["t1"], "t2": x["t2"], "mode": x["mode"], "text": x["text"], "lexes_as": x["got"], "lex_ok": x["ok"],
                      "adjacent": why is None, "why_not": why or "", "reachable_as": reach or ""})
        print("DESIGN-FUSION t1=%r t2=%r mode=%s text=%r lexes_as=%s adjacent_in_output=%s %s" %
              (x["t1"], x["t2"], x["mode"], x["text"], x["got"] if x["ok"] else "LEX-ERROR", "yes" if why is None else "no",
               ("(" + (reach or "") + ")") if why is None else ("-- " + why)))
    unclassified = [t for t in table if t["reachable_as"] == "UNCLASSIFIED"]
    for t in unclassified:
        rep.violation({"cause": "design_fusion", "t1": t["t1"], "t2": t["t2"], "mode": t["mode"]},
                      {"kind": "design", "note": "the spacing rules of utils.rs let two lexemes that can be adjacent fuse", "row": t})
    return cases, r, {"pairs_judged": len(pairs), "counterexamples": len(fus), "adjacent_in_output": sum(1 for t in table if t["adjacent"]),
                      "table": table, "states": rf.distinct, "transitions": rf.generated}


def select_optrees(cases, tier, rng):
    by = {}
    for c in cases:
        by.setdefault(c["fam"], []).append(c)
    out = []
    for fam in ("d2", "neg", "leafpair", "d3x"):
        out += by.get(fam, [])
    d3 = by.get("d3", [])
    out += d3 if tier == "thorough" else vlib.sample(d3, 3000, rng)
    # trail: quick replays the spines that END in a dangling construct (if-expression, assertion, parentheses, unary)
    trail = by.get("trail", [])
    out += trail if tier == "thorough" else [c for c in trail if dangling_tail(c["tree"])]
    res = []
    for k, c in enumerate(out):
        res.append({"id": "t%d" % k, "fam": c["fam"], "tree": c["tree"], "mc_trig": c["trig"], "mc_pp": c["pp"]})
        if c["fam"] in ("neg", "leafpair") and k % 7 == 0:
            res.append({"id": "t%dz" % k, "fam": c["fam"], "tree": c["tree"], "mc_trig": c["trig"], "mc_pp": c["pp"], "neg": ["num", "-0"]})
    return res, len(d3)


def dangling_tail(tree):
    """the deepest operator of the (single) spine of a trail tree is an if-expression, assertion, parentheses or unary"""
    spine = [x for x in tree[1:] if len(x) > 1]
    node = spine[0] if spine else tree
    while True:
        nxt = [x for x in node[1:] if len(x) > 1]
        if not nxt:
            return node[0] in ("ifx", "cast", "par", "not", "u-", "#")
        node = nxt[0]


def random_cases(tier, seed):
    n = 1500 if tier == "quick" else 8000
    out = []
    for k in range(n):
        r = gencases.Rand(seed * 1000003 + k, types=(k % 4 == 0))
        if k % 10 < 7:
            blk = r.program(2)
        else:
            blk = gencases.BLOCK(r.stmt(3, False))
        out.append({"id": "r%d" % k, "fam": "random", "block": blk})
    return out


# ------------------------------------------------------------------------------------------------- R + V
def text_of(t):
    return t["out"]


QUICK_LABELS = set(["token"] + ["%s:%d" % (g, n) for g in ("dense", "readable") for n in SPANS_QUICK])


def choose_judged(o, tier):
    """Which texts TLC lexes (the harness-side structural check always covers all texts).
    quick: every text of the small cases; five texts (smallest and two wider dense spans, widest readable, token-based) of
    the large random programs.  thorough: every text of the small cases; for random programs and depth-3 operator trees the
    texts produced at the quick tier's column spans."""
    texts = o["texts"]
    if o["fam"] not in ("random", "d3"):
        return list(range(len(texts)))
    if tier == "thorough":
        return [k for k, t in enumerate(texts) if QUICK_LABELS & set(t["gens"])]
    if o["fam"] == "d3":
        return list(range(len(texts)))
    keep = set()
    for want in ("dense:0", "dense:120", "readable:120", "token", "dense:13"):
        for k, t in enumerate(texts):
            if want in t["gens"]:
                keep.add(k)
    return sorted(keep)


def cause_of(o, t, v):
    diff = t.get("diff", "")
    if t["status"] != "ok":
        return "panic"
    if v is not None and not v["lex_ok"]:
        if o.get("neg_concat") and re.search(r"-[0-9][0-9.eE+]*\.\.", t["out"]) and all(g.startswith("dense") for g in t["gens"]):
            return "neg_number_concat"
        return "lex_error"
    if o.get("neg_atom") and (re.search(r"kind (bin|cast) vs neg", diff) or (v is not None and o["optree"] and not v["parse_ok"])):
        return "neg_atom"
    if not t["struct_ok"] and (v is None or v["lex_ok"]):
        # the two statements fuse (one statement fewer, or a parse error further on), or only a line break separates them
        if o.get("gap_naninf"):
            return "missing_semicolon_naninf"
        if o.get("gap_paren"):
            return "missing_semicolon_printer_paren"
    if o.get("neg_concat") and "malformed number" in diff and all(g.startswith("dense") for g in t["gens"]):
        return "neg_number_concat"
    if t["ambiguous"]:
        return "ambiguous_call"
    if not t["struct_ok"]:
        return "structure" if not diff.startswith("parse error") else "parse_error"
    if v is not None and not v["toks_ok"]:
        return "token_stream"
    if v is not None and not v["nl_ok"]:
        return "call_paren_on_new_line"
    if v is not None and not v["parse_ok"]:
        return "operator_nesting"
    return "other"


def run_cases(rep, cases, tier, label, spans, chunk=6000):
    """Returns counters; registers violations."""
    wd = rep.wd
    stats = {"cases": 0, "texts": 0, "texts_lexed_by_tlc": 0, "generator_runs": 0, "drift": 0, "states": 0, "transitions": 0, "by_cause": {}, "build_errors": 0,
             "token_stream_checked": 0, "dl_parser_rejects": 0}
    samples = []
    descr = {c["id"]: c for c in cases}
    for ci in range(0, len(cases), chunk):
        part = cases[ci:ci + chunk]
        cp = os.path.join(wd, "cases-%s-%d.ndjson" % (label, ci))
        op = os.path.join(wd, "obs-%s-%d.ndjson" % (label, ci))
        jp = os.path.join(wd, "judge-%s-%d.ndjson" % (label, ci))
        write_ndjson(cp, part)
        dlv(["gen", "--cases", cp, "--out", op, "--spans", ",".join(map(str, spans))], timeout=7200)
        obs = read_ndjson(op)
        if len(obs) != len(part):
            raise vlib.ToolError("dlv gen returned %d observations for %d cases" % (len(obs), len(part)))
        judged = {}
        slim = []
        for o in obs:
            if o["status"] != "ok":
                stats["build_errors"] += 1
                continue
            idx = choose_judged(o, tier)
            judged[o["id"]] = idx
            s = dict(o)
            s["texts"] = [{"status": o["texts"][k]["status"], "out": o["texts"][k]["out"], "struct_ok": o["texts"][k]["struct_ok"]} for k in idx]
            for k in ("fam", "typed", "neg_atom", "gap_naninf", "gap_paren", "neg_concat"):
                s.pop(k, None)
            slim.append(s)
        if stats["build_errors"]:
            bad = next(o for o in obs if o["status"] != "ok")
            raise vlib.ToolError("case %s could not be built: %s" % (bad["id"], bad["status"]))
        write_ndjson(jp, slim)
        res = tlc("trace/GenTrace", workers=12, timeout=14000, env={"OBS": jp}, xmx="12g")
        tlc_ok(res, "GenTrace(%s)" % label)
        verdicts = {v["id"]: v["v"] for v in res.tagged("VERDICT")}
        if set(verdicts) != set(judged):
            raise vlib.ToolError("GenTrace judged %d of %d observations (%s)" % (len(verdicts), len(judged), label))
        stats["states"] += res.distinct
        stats["transitions"] += res.generated
        for o in obs:
            stats["cases"] += 1
            vs = dict(zip(judged[o["id"]], verdicts[o["id"]]))
            if o["tokcheck"]:
                stats["token_stream_checked"] += len(vs)
            for k, t in enumerate(o["texts"]):
                stats["texts"] += 1
                stats["generator_runs"] += len(t["gens"])
                v = vs.get(k)
                if v is not None:
                    stats["texts_lexed_by_tlc"] += 1
                    if o["optree"] and v["lex_ok"] and not v["model_ok"]:
                        stats["drift"] += 1
                        if stats["drift"] <= 5:
                            print("DRIFT property=C02 the transcribed printer (LuaOps!Unparse) no longer describes the code: tree=%s text=%r" % (json.dumps(o["tree"]), t["out"]))
                ok = t["status"] == "ok" and t["struct_ok"] and (v is None or v["ok"])
                if t["status"] == "ok" and not t["dl_parses"]:
                    stats["dl_parser_rejects"] += 1
                if ok:
                    if len(samples) < 3 and k == len(o["texts"]) - 1 and stats["cases"] % 1000 == 7:
                        samples.append({"id": o["id"], "fam": o["fam"], "generators": t["gens"][:3], "text": t["out"][:200]})
                    continue
                cause = cause_of(o, t, v)
                stats["by_cause"][cause] = stats["by_cause"].get(cause, 0) + 1
                sig = {"cause": cause, "fam": o["fam"], "generators": sorted(set(g.split(":")[0] for g in t["gens"])),
                       "diff": re.sub(r"^root[^:]*: ", "", t.get("diff", ""))[:160], "text": t["out"][:300]}
                if v is not None:
                    sig.update({"lex_ok": v["lex_ok"], "toks_ok": v["toks_ok"], "nl_ok": v["nl_ok"], "parse_ok": v["parse_ok"]})
                d = descr[o["id"]]
                payload = {"id": o["id"], "fam": o["fam"], "spans": spans, "generators": t["gens"], "text": t["out"], "diff": t.get("diff", ""), "status": t["status"]}
                if "tree" in d:
                    payload["tree"] = d["tree"]
                    if "neg" in d:
                        payload["neg"] = d["neg"]
                else:
                    payload["block"] = d["block"]
                rep.violation(sig, payload)
        for p in (cp, op, jp):
            if tier == "thorough" or ci > 0:
                try:
                    os.remove(p)
                except OSError:
                    pass
    return stats, samples


def add_stats(a, b):
    for k, v in b.items():
        if isinstance(v, dict):
            d = a.setdefault(k, {})
            for kk, vv in v.items():
                d[kk] = d.get(kk, 0) + vv
        else:
            a[k] = a.get(k, 0) + v


def run(tier):
    rep = Report(PID, tier, "model_checking")
    rng = random.Random(vlib.seed())
    spans = SPANS_QUICK if tier == "quick" else list(range(0, 121))
    mc_cases, mc, fusion = design_models(rep, tier)
    total, samples = {}, []
    if mc_cases:
        opt, nd3 = select_optrees(mc_cases, tier, rng)
        cat = [{"id": "c%d" % k, "fam": fam, "name": name, "block": blk} for k, (fam, name, blk) in enumerate(gencases.catalogue())]
        rnd = random_cases(tier, vlib.seed())
        pinned = [dict(r, fam="pinned") for r in vlib.pinned_reproducers(PID) if "block" in r or "tree" in r]
        if tier == "thorough":
            d3 = [c for c in opt if c["fam"] == "d3"]
            wide = set(c["id"] for c in vlib.sample(d3, 15000, rng))
            groups = (("optree", [c for c in opt if c["fam"] not in ("d3", "trail") or c["id"] in wide], spans),
                      ("optree-trail", [c for c in opt if c["fam"] == "trail"], [0, 80]),
                      ("optree-d3", [c for c in d3 if c["id"] not in wide], SPANS_QUICK),
                      ("catalogue", cat + pinned, spans), ("random", rnd, spans))
        else:
            groups = (("optree", [c for c in opt if c["fam"] != "trail"], spans), ("optree-trail", [c for c in opt if c["fam"] == "trail"], [80]),
                      ("catalogue", cat + pinned, spans), ("random", rnd, spans))
        for label, cs, sp in groups:
            t0 = __import__("time").time()
            st, sm = run_cases(rep, cs, tier, label, sp)
            st["wall_s_" + label] = round(__import__("time").time() - t0, 1)
            add_stats(total, st)
            samples += sm
            vlib.log("%s: %d cases, %d texts, %d lexed by TLC" % (label, st["cases"], st["texts"], st["texts_lexed_by_tlc"]))
        # pinned reproducers that no longer fail
        rep.coverage["pinned_reproducers"] = len(pinned)
    rep.coverage.update({
        "states": (mc.distinct if mc else 0) + (fusion or {}).get("states", 0) + total.get("states", 0),
        "transitions": (mc.generated if mc else 0) + (fusion or {}).get("transitions", 0) + total.get("transitions", 0),
        "exhaustive": True,
        "design_theorem": {"trees_checked_by_tlc": len(mc_cases), "theorem_fails_only_under_open_trigger": sum(1 for c in mc_cases if not c["pp"]),
                           "families": {f: sum(1 for c in mc_cases if c["fam"] == f) for f in ("d2", "neg", "leafpair", "d3x", "trail", "d3")}},
        "fusion_theorem": {k: v for k, v in (fusion or {}).items() if k != "table"},
        "fusion_table": (fusion or {}).get("table", []),
        "traces_validated_against_impl": total.get("texts_lexed_by_tlc", 0),
        "cases_replayed": total.get("cases", 0), "distinct_texts": total.get("texts", 0), "generator_runs": total.get("generator_runs", 0),
        "texts_with_token_stream_check": total.get("token_stream_checked", 0),
        "violating_texts_by_cause": total.get("by_cause", {}), "drift_texts": total.get("drift", 0),
        "texts_rejected_by_darklua_own_parser": total.get("dl_parser_rejects", 0),
        "column_spans": spans if tier == "quick" else "0..=120",
        "samples": samples[:3], "wall_s": {k[7:]: v for k, v in total.items() if k.startswith("wall_s_")},
        "checker_cmd": "tlc MC_LuaOps (D3=1); tlc MC_Fusion; dlv gen; tlc GenTrace",
        "level_note": "decided by TLC: PrintParse on the transcribed printer (design), token fusion (design), and on every real output: lexical validity, "
                      "token-stream equality with the tree's tokens, call-paren line breaks, operator nesting of operator trees (LuaOps!Parse on the lexed tokens). "
                      "Decided in the harness and passed through: structural equality of whole statements (independent parser luaparse + astjson::same_structure).",
    })
    rep.assumptions += [
        "trees are built through the public constructors of darklua_core::nodes; identifiers are valid Lua names that are not keywords; HexNumber with a binary exponent (`0x1p4`, not Luau) is outside the enumerated space",
        "the text is read as Luau (superset of Lua 5.1 for everything generated here); `continue`, `type`, `export` are contextual",
        "a number node means its value: a value with the sign bit set must read back as the negation of its magnitude, infinities and NaN as 1/0, -1/0, 0/0",
        "type syntax: casts to a sample of the type grammar, typed locals/parameters/returns, type declarations; for trees with type syntax the token-stream clause is not evaluated (the flat node table drops types), lexical validity and structure are",
        "a line break after `return`, between operands, etc. does not change meaning in Lua; the only meaning-changing breaks are before a call's `(` and inside short strings / interpolated literals -- both are checked",
        "quick tier: depth-3 operator trees are sampled (3 000 of 226 100) for replay, TLC lexes a subset of the texts of random programs (structural check covers all)",
        "thorough tier: all depth-3 operator trees are replayed, 15 000 of them at every column span 0..=120 and the rest at the quick tier's spans; for random programs and depth-3 trees TLC lexes the texts of the quick tier's spans, the structural check covers every span",
    ]
    return rep.finish()


def replay(path, tier):
    rep = Report(PID, tier, "model_checking")
    with open(path) as f:
        c = json.load(f)["case"]
    if c.get("kind") == "design":
        print("design-level counterexample; re-run the check to re-evaluate the design models")
        mc_cases, mc, fusion = design_models(rep, tier)
        rep.coverage.update({"states": mc.distinct if mc else 0, "transitions": mc.generated if mc else 0, "traces_validated_against_impl": 0, "samples": []})
        return rep.finish()
    case = {"id": c.get("id", "replay"), "fam": c.get("fam", "replay")}
    for k in ("tree", "neg", "block"):
        if k in c:
            case[k] = c[k]
    spans = c.get("spans", SPANS_QUICK)
    st, sm = run_cases(rep, [case], "thorough", "replay", spans)
    rep.coverage.update({"states": st["states"], "transitions": st["transitions"], "traces_validated_against_impl": st["texts_lexed_by_tlc"],
                         "violating_texts_by_cause": st["by_cause"], "samples": [c.get("text", "")[:200]]})
    return rep.finish()
