"""C15 -- requires resolve as documented; conversions keep the target.

G: TLC enumerates MC_Resolve (every request x requiring file x folder name x file-system subset up to a
   size bound) and model-checks ConvertKeepsTarget on the transcription of generate_require (design level).
R: dlv resolve replays every case into the real bundler and the real convert_require rule.
V: TLC (ResolveTrace) judges every observation against Resolve!DocResolve."""
import json, os, random
import vlib
from vlib import Report, tlc, tlc_ok, dlv, write_ndjson, read_ndjson, log

PID = "C15"


def random_cases(n, rng):
    """I->S beyond the enumerated universe: deeper trees, redundant ./.. segments, two stems."""
    dirs = ["", "src", "lib", "src/sub", "src/sub/deep", "lib/m"]
    stems = ["m", "n"]
    names = lambda st: [st, st + ".lua", st + ".luau", st + "/init", st + "/init.lua", st + "/init.luau", st + ".txt"]
    srcs = ["src/main.lua", "src/init.luau", "src/sub/init.lua", "src/sub/deep/x.luau", "lib/init.lua"]
    rows = []
    for k in range(n):
        mode = rng.choice(["path", "luau"])
        src = rng.choice(srcs)
        st = rng.choice(stems)
        head = rng.choice(["./", "../", "./sub/../", "../src/", "./sub/", "././", "@pkg/", "../../", "./deep/../"] + (["@self/"] if mode == "luau" else []))
        tail = rng.choice([st, st + ".lua", st + ".luau", st + "/init", st + "/init.luau", st + "/./" + "init.lua", "x/../" + st])
        req = head + tail
        pool = [(d + "/" if d else "") + nm for d in dirs for s2 in stems for nm in names(s2)]
        pool = [p for p in pool if p != src]
        fs = rng.sample(pool, rng.randint(0, 5))
        # bias: make sure something near the request exists half of the time
        if rng.random() < 0.7:
            base = os.path.normpath(os.path.join(os.path.dirname(src), head.replace("@pkg", "../lib") if not head.startswith("@") else ("lib" if head.startswith("@pkg") else os.path.dirname(src)), "")) if False else None
        mfn = "init" if mode == "luau" else rng.choice(["init", "init", "index", "mod.luau"])
        if mfn != "init":
            fs = [f.replace("init", mfn.split(".")[0]) if rng.random() < 0.5 else f for f in fs]
        fs = sorted(set(f for f in fs if f != src))
        # bias the layout towards the request: populate candidates of the (python-normalised) head
        if rng.random() < 0.8:
            sd = os.path.dirname(src)
            if head.startswith("@pkg"):
                base = "lib"
            elif head.startswith("@self"):
                base = sd
            else:
                up = sd
                if mode == "luau" and os.path.basename(src).split(".")[0] == "init":
                    up = os.path.dirname(sd)
                base = os.path.normpath(os.path.join(up or ".", head))
            if not base.startswith(".."):
                base = "" if base == "." else base
                stem_path = os.path.normpath(os.path.join(base or ".", tail))
                for ext in (".lua", ".luau"):
                    if stem_path.endswith(ext):
                        stem_path = stem_path[: -len(ext)]
                if stem_path.endswith("/init"):
                    stem_path = stem_path[:-5]
                f0 = mfn.split(".")[0]
                cand = [stem_path + x for x in ("", ".luau", ".lua", "/" + f0, "/" + f0 + ".luau", "/" + f0 + ".lua")]
                fs = fs[:2] + rng.sample(cand, rng.randint(1, 3))
                fs = sorted(set(f for f in fs if f != src and not f.startswith(".")))
        prefix = "./" if rng.random() < 0.25 else ""
        rows.append({"id": "r%d" % k, "mode": mode, "req": req, "src": src, "mfn": mfn, "fs": fs, "prefix": prefix, "rc": bool(req.startswith("@pkg") and k % 2 == 0)})
    return rows


def judge(rep, obs_path, wd, label):
    # judged in pieces of 40 000 observations: one TLC run per piece keeps each run short whatever the load of the machine
    allobs = read_ndjson(obs_path)
    verdicts, res = [], None
    for k in range(0, max(len(allobs), 1), 40000):
        part = os.path.join(wd, "%s-judge%d.ndjson" % (label, k // 40000))
        write_ndjson(part, allobs[k:k + 40000])
        r = tlc("trace/ResolveTrace", workers=8, timeout=3000, env={"OBS": part})
        tlc_ok(r, "ResolveTrace(%s/%d)" % (label, k // 40000))
        verdicts += r.tagged("VERDICT")
        if res is None:
            res = r
        else:
            res.distinct += r.distinct
            res.generated += r.generated
    obs = {o["id"]: o for o in allobs}
    if len(verdicts) != len(obs):
        raise vlib.ToolError("ResolveTrace judged %d of %d observations" % (len(verdicts), len(obs)))
    nconv = 0
    for v in verdicts:
        o = obs[v["id"]]
        nconv += 1 if o["conv"] == 1 else 0
        if not v["resolve_ok"]:
            kind = "panic" if o["got"].startswith("!panic") else "resolve"
            sig = {"kind": kind, "mode": o["mode"], "req": o["req"], "src": o["src"], "fs": o["fs"], "mfn": o["mfn"],
                   "expected": v["expected"], "got": o["got"], "target_has_ext": v["target_has_ext"]}
            rep.violation(sig, o)
        elif not v["convert_ok"]:
            kind = "convert-panic" if o["got2"].startswith("!panic") or o["newreq"].startswith("!panic") else "convert"
            sig = {"kind": kind, "mode": o["mode"], "target": o["target"], "req": o["req"], "src": o["src"], "fs": o["fs"],
                   "resolved": v["expected"], "newreq": o["newreq"], "got2": o["got2"],
                   "spec_reresolved": v["spec_reresolved"], "strip_shadow": v["strip_shadow"],
                   "prefix": o.get("prefix", ""), "via_alias": o["req"].startswith("@pkg")}
            rep.violation(sig, o)
    return res, len(verdicts), nconv


def run(tier):
    rep = Report(PID, tier, "model_checking")
    wd = rep.wd
    rng = random.Random(vlib.seed())
    maxfs = 3 if tier == "quick" else 6
    # G
    g = tlc("mc/MC_Resolve", workers=8, timeout=3000, env={"MAXFS": maxfs}, xmx="12g")
    tlc_ok(g, "MC_Resolve")
    cases = g.tagged("CASE")
    design = g.tagged("DESIGN-CONVERT")
    if len(cases) < 1000:
        raise vlib.ToolError("MC_Resolve enumerated only %d cases" % len(cases))
    for k, c in enumerate(cases):
        c["id"] = "c%d" % k
        # every other request through the alias takes `@pkg` from proj/.luaurc instead of the configuration (see resolve.rs)
        c["rc"] = bool(c["req"].startswith("@pkg") and k % 2 == 0)
    cpath = os.path.join(wd, "cases.ndjson")
    write_ndjson(cpath, cases)
    # R
    opath = os.path.join(wd, "obs.ndjson")
    dlv(["resolve", "--cases", cpath, "--out", opath])
    # V
    v, nobs, nconv = judge(rep, opath, wd, "enumerated")
    # random I->S
    nrand = 3000 if tier == "quick" else 40000
    rc = random_cases(nrand, rng) + vlib.pinned_reproducers(PID)
    rcp = os.path.join(wd, "rcases.ndjson")
    write_ndjson(rcp, rc)
    rop = os.path.join(wd, "robs.ndjson")
    dlv(["resolve", "--cases", rcp, "--out", rop])
    v2, nobs2, nconv2 = judge(rep, rop, wd, "random")
    resolved = sum(1 for o in read_ndjson(opath) if not o["got"].startswith("!"))
    resolved2 = sum(1 for o in read_ndjson(rop) if not o["got"].startswith("!"))
    if resolved < len(cases) // 4 or resolved2 < nrand // 20:
        raise vlib.ToolError("too few cases resolved to a file (%d/%d, %d/%d): vacuous run" % (resolved, len(cases), resolved2, nrand))
    rep.coverage.update({
        "states": g.distinct + v.distinct + v2.distinct,
        "transitions": g.generated + v.generated + v2.generated,
        "traces_validated_against_impl": nobs + nobs2,
        "samples": [cases[0], cases[len(cases) // 2], rc[0]],
        "exhaustive": True,
        "enumerated_cases": len(cases),
        "enumerated_resolving_to_a_file": resolved,
        "conversions_checked": nconv + nconv2,
        "random_cases": nrand,
        "random_resolving_to_a_file": resolved2,
        "max_files_per_layout": maxfs,
        "design_level_counterexamples_of_ConvertKeepsTarget": len(design),
        "design_level_counterexamples_with_unchecked_shortening": len(g.tagged("DESIGN-UNCHECKED")),
        "design_sample": design[:2],
        "checker_cmd": "tlc MC_Resolve (enumerate + design theorem); dlv resolve; tlc ResolveTrace (judge)",
    })
    rep.assumptions += [
        "layouts never contain files named like `x.lua.luau` (the documentation lists six candidates for every path, the code tries only the path itself when it already ends in .lua/.luau)",
        "in-memory Resources stand in for the file system (is_file = key present)",
        "conversion is claimed between equal module folder names only (the luau mode is fixed to `init`)",
        "a target darklua refuses to load (unknown or missing extension) counts as resolved to that path when the returned error names it",
        ".luaurc aliases, the roblox mode and sourcemaps are outside the property",
    ]
    return rep.finish()


def replay(path, tier):
    rep = Report(PID, tier, "model_checking")
    with open(path) as f:
        case = json.load(f)["case"]
    c = {k: case[k] for k in ("id", "mode", "req", "src", "mfn", "fs", "prefix") if k in case}
    cp = os.path.join(rep.wd, "replay-cases.ndjson")
    write_ndjson(cp, [c])
    op = os.path.join(rep.wd, "replay-obs.ndjson")
    dlv(["resolve", "--cases", cp, "--out", op])
    v, n, nc = judge(rep, op, rep.wd, "replay")
    rep.coverage.update({"states": v.distinct, "transitions": v.generated, "traces_validated_against_impl": n, "samples": [c]})
    return rep.finish()
