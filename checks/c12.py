"""C12 -- no input or configuration crashes darklua.

G: TLC enumerates every configuration of spec/darklua/Pipeline.tla (all sequences of <= 2 of the 32 rules, each with
   its property variants, x 3 generators x column spans 0 / 1 / 80) and model-checks the lifecycle acceptance theorems.
   Base programs come from the other TLC enumerations (RuleCases, Positions, Trivia) and the repository corpus.
R: dlv robust runs (a) the parser alone on every truncation of the base programs, on seeded byte mutations, with
   multi-byte characters inserted at token boundaries and at every offset of every lexical template enumerated by TLC
   from spec/darklua/Multibyte.tla (these also through the three generators), and on nesting ladders; (b) the whole pipeline for sampled
   (configuration, program) pairs; each run under catch_unwind and a watchdog, recording its lifecycle events.
V: TLC (LifecycleTrace) accepts a run only if its events are a behaviour of Pipeline!Life: an error VALUE naming
   the file, or an output that parses again -- never a panic, a hang, a partial result."""
import glob, json, os, random, subprocess
import vlib
from vlib import Report, tlc, tlc_ok, write_ndjson, read_ndjson
import sem_common as sc

PID = "C12"
MULTI = ["é", "漢", "😀", "\u00a0", "\ufeff"]


def base_programs(rng, tier):
    progs = []
    for g in ("c01", "c06", "c16", "c17"):
        cs, _ = sc.rule_cases(g)
        stm = [c["src"] for c in cs if c["kind"] == "stmt"]
        ex = [c["src"] for c in cs if c["kind"] == "expr"]
        progs += stm + rng.sample(ex, min(len(ex), 60))
    r = tlc("mc/MC_Positions", workers=4, timeout=900, xmx="4g")
    tlc_ok(r, "MC_Positions")
    pos = [c["src"] for c in r.tagged("CASE")]
    progs += rng.sample(pos, 200 if tier == "quick" else len(pos))
    for p in sorted(glob.glob("/repo/tests/test_cases/**/*.lua*", recursive=True) + glob.glob("/repo/tests/fuzzed_test_cases/*.lua")):
        try:
            s = open(p, encoding="utf-8").read()
        except (UnicodeDecodeError, OSError):
            continue
        if len(s) < 6000:
            progs.append(s)
    return progs


def nesting(depth):
    d = depth
    return [
        "return " + "(" * d + "1" + ")" * d,
        "return " + "{" * d + "}" * d,
        "return " + "f(" * d + ")" * d,
        "do " * d + "end " * d,
        "return " + "-" * d + "1",
        "return " + "not " * d + "x",
        "return " + " .. ".join(["a"] * d),
        "return " + " + ".join(["1"] * d),
        "if a then " * d + "end " * d,
        "return " + "function() return " * d + "1" + " end" * d,
        "local t = " + "a." * d + "b",
        "return " + "a" + "[1]" * d,
        "return " + "`{" * min(d, 40) + "1" + "}`" * min(d, 40),
        "return " + "if a then " * min(d, 60) + "1" + " else 2" * min(d, 60),
    ]


def run_driver(wd, label, cases, timeout_ms=20000):
    cp = os.path.join(wd, "cases-%s.ndjson" % label)
    write_ndjson(cp, cases)
    op = os.path.join(wd, "obs-%s.ndjson" % label)
    open(op, "w").close()
    vlib.build_harness()
    exe = os.path.join(vlib.HARNESS, "target", "debug", "dlv")
    done = 0
    hangs = 0
    while done < len(cases):
        part = op + ".part"
        r = subprocess.run([exe, "robust", "--cases", cp, "--out", part, "--skip", str(done), "--timeout-ms", str(timeout_ms)],
                           stdout=subprocess.PIPE, stderr=subprocess.PIPE, text=True)
        rows = read_ndjson(part) if os.path.exists(part) else []
        with open(op, "a") as f:
            for row in rows:
                f.write(json.dumps(row) + "\n")
        done += len(rows)
        if r.returncode == 0:
            break
        if r.returncode == 3:
            hangs += 1
            if hangs >= 6:
                # every hang is already recorded as an observation (and will be judged a violation by LifecycleTrace);
                # driving the remaining cases would only add 20 s of watchdog per further hang
                vlib.log("%d hangs recorded: the remaining %d cases of `%s` are not driven" % (hangs, len(cases) - done, label))
                break
            continue
        # the process died (stack overflow / abort): the case being run is a crash
        crashed = cases[done] if done < len(cases) else None
        if crashed is None:
            raise vlib.ToolError("dlv robust exited with %s" % r.returncode)
        with open(op, "a") as f:
            f.write(json.dumps({"id": crashed["id"], "mode": crashed.get("mode"), "generator": crashed.get("generator"), "rules": crashed.get("rules"),
                                "label": crashed.get("label"), "events": ["panic"], "msg": "process aborted (exit %s): %s" % (r.returncode, r.stderr[-200:])}) + "\n")
        done += 1
    return op, done


def run(tier):
    rep = Report(PID, tier, "exploration")
    rng = random.Random(vlib.seed())
    g = tlc("mc/MC_Pipeline", workers=8, timeout=1800, xmx="8g")
    tlc_ok(g, "MC_Pipeline (lifecycle theorems)")
    configs = g.tagged("CASE")
    if len(configs) < 5000:
        raise vlib.ToolError("MC_Pipeline emitted only %d configurations" % len(configs))
    progs = base_programs(rng, tier)
    cases = []
    # (a) parser alone
    short = [p for p in progs if len(p.encode()) < 400]
    for pi, p in enumerate(rng.sample(short, 25 if tier == "quick" else 150)):
        b = p.encode()
        for k in range(len(b)):
            cases.append({"id": "t%d_%d" % (pi, k), "mode": "parse", "srcb": list(b[:k]), "label": "truncate", "generator": "", "rules": []})
    for k in range(2000 if tier == "quick" else 30000):
        b = bytearray(rng.choice(progs).encode())
        for _ in range(rng.randint(1, 4)):
            if not b:
                break
            pos = rng.randrange(len(b))
            op = rng.random()
            if op < 0.4:
                b[pos] = rng.randrange(256)
            elif op < 0.7:
                del b[pos]
            else:
                b.insert(pos, rng.choice(b"\"'[]()-\\`{}=.\n\r\0" + bytes([rng.randrange(256)])))
        cases.append({"id": "m%d" % k, "mode": "parse", "srcb": list(b), "label": "mutate", "generator": "", "rules": []})
    for k in range(1000 if tier == "quick" else 10000):
        p = rng.choice(progs)
        spaces = [i for i, ch in enumerate(p) if ch == " "]
        if not spaces:
            continue
        i = rng.choice(spaces)
        ch = rng.choice(MULTI)
        q = p[:i] + rng.choice([ch, " " + ch + " ", ch + " "]) + p[i + 1:]
        cases.append({"id": "u%d" % k, "mode": "parse", "src": q, "label": "multibyte", "generator": "", "rules": []})
    for d in ([5, 20, 60, 100] if tier == "quick" else [5, 10, 20, 40, 60, 80, 100, 120]):
        for ni, p in enumerate(nesting(d)):
            cases.append({"id": "n%d_%d" % (d, ni), "mode": "parse", "src": p, "label": "nesting%d" % d, "generator": "", "rules": []})
    # (a') multi-byte characters at EVERY offset of every lexical template (TLC enumerates Multibyte!Text), parser alone
    #      and the whole pipeline under the three generators (the token-based generator re-reads comments and strings)
    mb = tlc("mc/MC_Multibyte", workers=4, timeout=600, xmx="2g")
    tlc_ok(mb, "MC_Multibyte")
    mbs = mb.tagged("MB")
    if len(mbs) < 400:
        raise vlib.ToolError("MC_Multibyte emitted only %d texts" % len(mbs))
    chars = MULTI[:3] if tier == "quick" else MULTI
    for m in mbs:
        # at the edges of the file every character is tried (incl. the byte order mark and the no-break space)
        for ci, ch in enumerate(MULTI if m["k"] >= 1000 else chars):
            src = m["src"].replace("@", ch)
            mid = "b%d_%d_%d" % (m["t"], m["k"], ci)
            cases.append({"id": mid, "mode": "parse", "src": src, "label": "multibyte-offsets", "generator": "", "rules": []})
            for gi, gen in enumerate(("retain_lines", "dense:80", "readable:1")):
                for ri, rules in enumerate(([], ["'remove_spaces'"], ["'convert_index_to_field'"]) if tier == "quick" else ([], ["'remove_spaces'"], ["'convert_index_to_field'"], ["'remove_comments'", "'compute_expression'"])):
                    cases.append({"id": "%s_g%d_r%d" % (mid, gi, ri), "mode": "process", "src": src, "label": "multibyte-offsets", "generator": gen, "rules": rules})
    # (a'') glue sites (Multibyte!GlueSites x GlueSeps): two tokens that only trivia keeps apart, under the rules that delete
    #       trivia or rebuild the node, with the three generators: the output must parse again
    glue = mb.tagged("GLUE")
    if len(glue) < 100:
        raise vlib.ToolError("MC_Multibyte emitted only %d glue texts" % len(glue))
    glue_rules = ([], ["'remove_spaces'"], ["'remove_comments'"], ["'remove_comments'", "'remove_spaces'"], ["'remove_spaces'", "'remove_compound_assignment'"],
                  ["'remove_compound_assignment'"], ["'compute_expression'", "'remove_spaces'"], ["'remove_spaces'", "'remove_types'"])
    for gl in glue:
        for gi, gen in enumerate(("retain_lines", "dense:80", "readable:80")):
            for ri, rules in enumerate(glue_rules):
                cases.append({"id": "gl%d_%d_g%d_r%d" % (gl["site"], gl["sep"], gi, ri), "mode": "process", "src": gl["src"], "label": "glue", "generator": gen, "rules": rules})
    # (b) whole pipeline
    npairs = 6000 if tier == "quick" else 90000
    for k in range(npairs):
        c = rng.choice(configs)
        p = rng.choice(progs)
        cases.append({"id": "p%d" % k, "mode": "process", "src": p, "label": "pipeline", "generator": c["generator"], "rules": c["rules"]})
    # malformed escape sequences in every string form: an error VALUE, never a panic (finding F-C12-d)
    bad_escapes = ["\\400", "\\256", "\\xZZ", "\\x1", "\\x", "\\u{110000}", "\\u{", "\\u{}", "\\u{D800", "\\u41", "\\q", "\\", "\\z\\400"]
    forms = ["return '%s'", 'return "%s"', "return `%s`", "return `a{1}%s`", "return `%s{1}b`", "return `{`%s`}`", "local t = {['%s'] = 1}", "f'%s'", "f`%s`",
             "type T = '%s'", "local x: `%s` = 1"]
    for bi, be in enumerate(bad_escapes):
        for fi, form in enumerate(forms):
            src = form % be
            cases.append({"id": "e%d_%d" % (bi, fi), "mode": "parse", "src": src, "label": "malformed-escape", "generator": "", "rules": []})
            cases.append({"id": "e%d_%d_p" % (bi, fi), "mode": "process", "src": src, "label": "malformed-escape", "generator": "retain_lines", "rules": []})
    # the same kind of pairs with the program as a bundled MODULE
    for k in range(npairs // 6):
        c = rng.choice(configs)
        p = rng.choice(progs)
        cases.append({"id": "pb%d" % k, "mode": "bundle", "src": p, "label": "bundled-pipeline", "generator": c["generator"], "rules": c["rules"]})
    for d in ([20, 60] if tier == "quick" else [20, 60, 100]):
        for ni, p in enumerate(nesting(d)):
            for gen in ("retain_lines", "dense:1", "readable:0"):
                cases.append({"id": "q%d_%d_%s" % (d, ni, gen), "mode": "process", "src": p, "label": "nesting%d" % d, "generator": gen, "rules": ["'compute_expression'", "'rename_variables'"]})
    for r in [r for r in vlib.pinned_reproducers(PID) if "src" in r or "srcb" in r]:
        cases.append(dict({"mode": "parse", "label": "pinned", "generator": "", "rules": []}, **r))
    cases.append({"id": "reg-surrogate", "mode": "parse", "src": "return \"\\u{D800}\"", "label": "regression", "generator": "", "rules": []})
    op, driven = run_driver(rep.wd, "main", cases)
    cases = cases[:driven]          # after repeated hangs the tail is not driven (see run_driver)
    v = tlc("trace/LifecycleTrace", workers=12, timeout=3000, env={"OBS": op}, xmx="16g")
    tlc_ok(v, "LifecycleTrace")
    verdicts = {x["id"]: x for x in v.tagged("VERDICT")}
    obs = {o["id"]: o for o in read_ndjson(op)}
    by = {c["id"]: c for c in cases}
    if set(verdicts) != set(by):
        raise vlib.ToolError("LifecycleTrace judged %d of %d runs" % (len(verdicts), len(by)))
    counts = {}
    for cid, ver in verdicts.items():
        o = obs[cid]
        counts[ver["final"] + ":" + ver["last"]] = counts.get(ver["final"] + ":" + ver["last"], 0) + 1
        if not ver["ok"]:
            c = by[cid]
            src = c.get("src") if "src" in c else bytes(c["srcb"]).decode("utf-8", "replace")
            sig = {"kind": ver["last"], "stage": "parse" if c["mode"] == "parse" else "process", "label": c["label"], "generator": c["generator"],
                   "rules": [r.strip("'") for r in c["rules"]], "msg": o.get("msg", "")[:160], "loc": o.get("loc", ""), "src_excerpt": src[:160]}
            rep.violation(sig, dict(c))
    parsed = sum(n for k, n in counts.items() if k.endswith("reparse_ok"))
    if parsed < len(cases) // 10:
        raise vlib.ToolError("too few runs completed the whole lifecycle (%d of %d)" % (parsed, len(cases)))
    rep.coverage.update({
        "evaluations": len(cases), "distinct_nontrivial": len(set((json.dumps(c.get("srcb", c.get("src"))), c["generator"], json.dumps(c["rules"])) for c in cases)),
        "rule": "parser-only runs on truncations / byte mutations / multi-byte insertions / nesting ladders of programs taken from the TLC enumerations and the corpus; pipeline runs on (configuration enumerated by TLC from Pipeline.tla, program) pairs; distinct = distinct (bytes, generator, rules); every case is non-trivial (>= 1 token)",
        "samples": [{"mode": cases[0]["mode"], "label": cases[0]["label"], "bytes": cases[0].get("srcb", [])[:40]}, {k: cases[-3][k] for k in ("mode", "generator", "rules", "src")}],
        "configurations_enumerated": len(configs), "base_programs": len(progs), "outcomes": counts,
        "states": g.distinct + v.distinct, "transitions": g.generated + v.generated, "exhaustive": False,
        "by_label": {l: sum(1 for c in cases if c["label"] == l) for l in sorted(set(c["label"] for c in cases))},
    })
    rep.assumptions += ["nesting is exercised up to depth 100 (quick) / 120 (thorough); deeper nesting exhausts the native stack of the parser dependency and is outside the claim",
                        "invalid UTF-8 cannot reach the parser through the string-based API; `process` reports it as a read error (exercised by C11)",
                        "`output parses again` is judged with darklua's own parser; agreement of that parser with the reference grammar is reported by `dlv astcheck`, not judged here",
                        "watchdog 20 s per run"]
    return rep.finish()


def replay(path, tier):
    rep = Report(PID, tier, "exploration")
    with open(path) as f:
        c = json.load(f)["case"]
    op, _ = run_driver(rep.wd, "replay", [c])
    v = tlc("trace/LifecycleTrace", workers=1, timeout=600, env={"OBS": op})
    tlc_ok(v, "LifecycleTrace")
    obs = {o["id"]: o for o in read_ndjson(op)}
    for ver in v.tagged("VERDICT"):
        if not ver["ok"]:
            o = obs.get(ver["id"], {})
            rep.violation({"kind": ver["last"], "stage": "parse" if c["mode"] == "parse" else "process", "label": c.get("label", ""),
                           "msg": o.get("msg", "")[:160], "loc": o.get("loc", "")}, c)
    rep.coverage.update({"evaluations": 1, "distinct_nontrivial": 2, "rule": "replay", "samples": [c.get("label", "")]})
    return rep.finish()
