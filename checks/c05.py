"""C05 -- a bundle behaves like the program with its modules required normally.

G: TLC model-checks the inlining mechanism (spec/darklua/Bundle.tla: cache, require stack, insertion-ordered
   definitions, errors, skip list; actions mirroring try_inline_call / inline_require / require_resource) over EVERY
   module graph on <= 4 files -- all directed graphs on <= 3 files (every cyclic graph), every DAG on 4 (shared and
   diamond dependencies) -- x {plain, duplicate calls, reversed order, faulty module (missing / syntax error / 0 or 2
   return values / data file), excluded module, shadowed `require`, non-literal argument}, once as the ideal design and
   once code-shaped (DevModuleScopeNotTracked).  Invariants: one file <-> one module name, each body entered at most
   once, dependencies defined before their users, Len(stack) <= |files| and bounded step count (termination), a cyclic
   graph always ends with an error naming an actual cycle, errors name the files.  Every graph is printed as a CASE.
R: dlv bundle renders each graph as real in-memory files (precondition by construction: bodies make no external call
   while loading, bump a per-module counter, register closures over identically named locals, return one value of
   every kind; requires in statement / expression / nested-function / late position, through different spellings of
   the same file, data modules, excluded patterns) x require mode x generator x optional default rules after
   bundling, and runs darklua_core::process.
V: behaviour: TLC executes the entry under the model `require` and the bundle (LuaEquiv over spec/lua/LuaSem.tla) and
   compares external-call logs and returned values; error path: TLC (spec/trace/BundleTrace.tla) judges every
   observation against Bundle!Final(graph): an error exactly when the model demands one, naming the files involved,
   no panic, no hang."""
import json, os, random
import vlib
from vlib import Report, tlc, tlc_ok, dlv, write_ndjson, read_ndjson, log

PID = "C05"
MODES = ["path", "luau"]
GENERATORS = ["retain_lines", "dense", "readable"]
EXPORTS = ["table", "function", "nil", "false", "number", "string"]
POSITIONS = ["local", "stmt", "expr", "fn", "late", "strcall"]
DATAEXT = ["json", "json5", "yaml", "yml", "toml", "txt"]
ACTIONS = ["Pick", "NoMatch", "Match", "Excluded", "LocateFail", "Locate", "SkipErrored", "CacheHit", "CycleDetected", "Enter",
           "LeaveOk", "LeaveErr", "Finish"]


def model_check(tier):
    env = {"MAXN": 4}
    code = tlc("mc/MC_Bundle", workers=8, timeout=2400, env=env, xmx="8g", coverage=True, check_deadlock=True)
    ideal = tlc("mc/MC_Bundle", cfg="mc/MC_BundleIdeal.cfg", workers=8, timeout=2400, env=env, xmx="8g", coverage=(tier != "quick"),
                check_deadlock=True, metaname="MC_BundleIdeal")
    return code, ideal


def decorate(case, k, rng, cfg=None):
    """adds the rendering choices (spellings, positions, export kinds, configuration) to a TLC graph descriptor"""
    c = {"id": "g%d" % k, "n": case["n"], "kind": case["kind"], "feat": case["feat"], "calls": []}
    for calls in case["calls"]:
        row, prev = [], None
        for call in calls:
            call = dict(call)
            if prev is not None and prev["t"] == call["t"]:
                call["sp"] = (prev["sp"] + 1 + rng.randrange(3)) % 4       # the same file through another spelling
            else:
                call["sp"] = rng.randrange(4)
            call["pos"] = rng.choice(POSITIONS)
            row.append(call)
            prev = call
        c["calls"].append(row)
    c["exports"] = ["table"] + [rng.choice(EXPORTS) for _ in range(case["n"] - 1)]
    mode, gen, rules = cfg if cfg else (rng.choice(MODES), rng.choice(GENERATORS), 1 if rng.random() < 0.35 else 0)
    c.update({"mode": mode, "generator": gen, "rules": rules, "ext": rng.choice(["lua", "luau"]), "dataext": rng.choice(DATAEXT),
              "sub": 1 if case["n"] == 4 and rng.random() < 0.3 else 0, "sp0": rng.randrange(2)})
    # ROOT layout: the modules sit at the very root of the resource tree (no parent directory), the entry in src/
    c["root"] = 1 if c["sub"] == 0 and rng.random() < 0.25 else 0
    # CASE TWINS: files 2 and 3 are named a.<ext> and A.<ext> (paths that differ by letter case only are different files)
    c["casetwin"] = 1 if case["n"] >= 3 and rng.random() < 0.2 else 0
    # the modules close their last statements with semicolons (tokens of the MODULE's text, not of the entry's)
    c["semi"] = 1 if rng.random() < 0.3 else 0
    # ALIAS spellings: `@lib/..` resolved through a `.luaurc` (one spelling in four of the cases that have it); the bundling is
    # preceded, on the same thread, by the bundling of a DECOY project whose `.luaurc` gives `lib` another target
    c["rc"] = 1 if c["root"] == 0 and rng.random() < 0.3 else 0
    return c


def triggers(c):
    """F-C05-a: a required module declares a local `require` and calls it with a literal string"""
    t = False
    for f, calls in enumerate(c["calls"], start=1):
        if f > 1 and c["kind"][f - 1] in ("lua", "ret0", "ret2"):
            t = t or any(x["shadow"] == 1 and x["lit"] == 1 for x in calls)
    return {"shadow_in_module": t, "vararg_in_module": vararg_in_module(c)}


def vararg_in_module(c):
    """F-C05-c: the chunk-level scope of a required module mentions `...` (only hand-written `override` texts can)"""
    import sem_common as sc
    for path, text in (c.get("override") or {}).items():
        if path.endswith("/main.lua") or "..." not in text:
            continue
        prog = sc.parse_nodes(text)
        if prog is None:
            continue
        nodes = prog["nodes"]
        todo = [prog["root"]]
        while todo:
            n = nodes[todo.pop() - 1]
            if n["k"] == "vararg":
                return True
            if n["k"] == "fn":
                continue
            todo += [x for x in [n["a"], n["b"]] + ([n["c"]] if n["k"] in ("if", "ifexp") else []) + list(n["l"]) + list(n["m"]) if x]
    return False


def observe_and_judge(rep, cases, label, corrupt=None):
    wd = rep.wd
    cp = os.path.join(wd, "%s-cases.ndjson" % label)
    write_ndjson(cp, cases)
    ep = os.path.join(wd, "%s-equiv.ndjson" % label)
    op = os.path.join(wd, "%s-obs.ndjson" % label)
    sp = os.path.join(wd, "%s-status.ndjson" % label)
    args = ["bundle", "--cases", cp, "--out", ep, "--obs", op, "--status", sp]
    if corrupt:
        args += ["--corrupt", corrupt]
    dlv(args, timeout=7200)
    status = {s["id"]: s for s in read_ndjson(sp)}
    obs = {o["id"]: o for o in read_ndjson(op)}
    by = {c["id"]: c for c in cases}
    states = gen = 0
    # ---- error path / shape: BundleTrace
    jr = tlc("trace/BundleTrace", workers=8, timeout=1800, env={"OBS": op}, xmx="8g")
    tlc_ok(jr, "BundleTrace(%s)" % label)
    judged = {v["id"]: v for v in jr.tagged("VERDICT")}
    if len(judged) != len(obs):
        raise vlib.ToolError("BundleTrace judged %d of %d observations" % (len(judged), len(obs)))
    states += jr.distinct
    gen += jr.generated
    counts = {"error_cases": 0, "error_named": 0, "behaviour_cases": 0, "drift_defs": 0}
    disagreements = 0
    for cid, v in judged.items():
        c, o, s = by[cid], obs[cid], status[cid]
        base = dict(triggers(c), feat=c["feat"]["k"], mode=c["mode"], generator=c["generator"], rules=c["rules"], n=c["n"])
        payload = {"case": c, "obs": o, "text": s.get("text", "")[:1500], "files": s.get("files", {}), "config": s.get("config", "")}
        if not v["finished"]:
            raise vlib.ToolError("Bundle!Final did not finish on %s" % cid)
        if v["must_error"]:
            counts["error_cases"] += 1
        if not v["calm_ok"]:
            disagreements += 1
            rep.violation(dict(base, kind="panic" if o["panic"] else ("hang" if o["hang"] else "no-output"), what=s.get("text", "")[:200]), payload)
        elif not v["error_ok"]:
            disagreements += 1
            rep.violation(dict(base, kind="missing-error" if v["must_error"] else "unexpected-error", expected=v["kinds"], what=s.get("text", "")[:300]), payload)
        elif not v["named_ok"]:
            disagreements += 1
            rep.violation(dict(base, kind="error-does-not-name-files", missing=v["missing_names"], expected=v["kinds"], what=s.get("text", "")[:300]), payload)
        elif v["must_error"]:
            counts["error_named"] += 1
        if not v["defs_ok"]:
            counts["drift_defs"] += 1
    # ---- behaviour: LuaEquiv
    lines = open(ep).read().splitlines()
    verdicts = {}
    chunk = 1500
    for k in range(0, len(lines), chunk):
        part = os.path.join(wd, "%s-chunk%d.ndjson" % (label, k // chunk))
        with open(part, "w") as f:
            f.write("\n".join(lines[k:k + chunk]) + "\n")
        r = tlc("lua/LuaEquiv", workers=12, timeout=3600, env={"CASES": part}, xmx="24g", metaname="LuaEquiv-C05")
        tlc_ok(r, "LuaEquiv(%s chunk %d)" % (label, k // chunk))
        vs = r.tagged("VERDICT")
        if len(vs) != len(lines[k:k + chunk]):
            raise vlib.ToolError("LuaEquiv reported %d of %d cases (%s)" % (len(vs), len(lines[k:k + chunk]), label))
        for v in vs:
            verdicts[v["id"]] = v
        states += r.distinct
        gen += r.generated
        os.remove(part)
    os.remove(ep)
    vc = {}
    for cid, s in status.items():
        c = by[cid]
        base = dict(triggers(c), feat=c["feat"]["k"], mode=c["mode"], generator=c["generator"], rules=c["rules"], n=c["n"])
        payload = {"case": c, "files": s.get("files", {}), "out": s.get("out", ""), "config": s.get("config", "")}
        if s["status"] == "ok":
            v = verdicts[s.get("alias", cid)]
            counts["behaviour_cases"] += 1
            vc[v["verdict"]] = vc.get(v["verdict"], 0) + 1
            if v["verdict"] == "differ":
                disagreements += 1
                d = v.get("detail") or {}
                payload["detail"] = d
                payload["reqa"] = v.get("reqa")
                rep.violation(dict(base, kind="behaviour", what=d.get("what", "")[:120], idx=d.get("idx", 0)), payload)
        elif s["status"].startswith("output-rejected"):
            disagreements += 1
            vc["unparsable"] = vc.get("unparsable", 0) + 1
            rep.violation(dict(base, kind="unparsable-bundle", what=s["status"][:200]), payload)
        elif s["status"] == "not-run-after-hang":
            vc["not-run"] = vc.get("not-run", 0) + 1
    return {"counts": counts, "verdicts": vc, "states": states, "transitions": gen, "observations": len(obs),
            "executed": len(lines), "disagreements": disagreements, "status": status}


def select_cases(tier, cases, rng):
    twin = [c for c in cases if c["feat"]["k"] == "twin"]
    cases = [c for c in cases if c["feat"]["k"] != "twin"]
    ok = [c for c in cases if c["must_error"] == 0]
    err = [c for c in cases if c["must_error"] == 1]
    out = []
    k = 0
    # the twin graphs (same literal, sibling directories): always, under every configuration, with and without extension
    for c in twin:
        for cfg in [(m, g, r) for m in MODES for g in GENERATORS for r in (0, 1)]:
            for sp0 in (0, 1):
                d = decorate(c, k, rng, cfg)
                d["sp0"] = sp0
                out.append(d); k += 1
    if tier == "quick":
        for c in rng.sample(ok, 1000):                 # a seeded sample of the non-error graphs, random configuration
            out.append(decorate(c, k, rng)); k += 1
        for c in rng.sample(ok, 120):                  # a smaller sample under three of the twelve configurations
            cfgs = [(m, g, r) for m in MODES for g in GENERATORS for r in (0, 1)]
            for cfg in rng.sample(cfgs, 3):
                out.append(decorate(c, k, rng, cfg)); k += 1
        for c in rng.sample(err, 800):
            out.append(decorate(c, k, rng)); k += 1
    else:
        cfgs = [(m, g, r) for m in MODES for g in GENERATORS for r in (0, 1)]
        for c in ok:                                   # every non-error graph under four of the twelve configurations
            for cfg in rng.sample(cfgs, 4):
                out.append(decorate(c, k, rng, cfg)); k += 1
        for c in err:
            out.append(decorate(c, k, rng)); k += 1
    return out


def pinned_cases():
    out = []
    for r in vlib.pinned_reproducers(PID):
        if "calls" in r:
            c = dict(r)
            out.append(c)
    return out


def run(tier):
    rep = Report(PID, tier, "model_checking")
    rng = random.Random(vlib.seed())
    code, ideal = model_check(tier)
    for r, what in ((ideal, "ideal design (DevModuleScopeNotTracked = FALSE)"), (code, "code-shaped model (DevModuleScopeNotTracked = TRUE)")):
        if r.invariant_violated or (r.rc != 0 and "Deadlock reached" in r.out):
            rep.violation({"kind": "design", "invariant": r.invariant_violated or "deadlock (a behaviour that never finishes)", "model": what},
                          {"tlc_tail": "\n".join([l for l in r.out.splitlines() if not l.startswith('"CASE')][-60:])})
            rep.coverage.update({"states": code.distinct + ideal.distinct, "transitions": code.generated + ideal.generated,
                                 "traces_validated_against_impl": 0, "samples": [], "exhaustive": False})
            return rep.finish()
        tlc_ok(r, "MC_Bundle " + what)
    for a in ACTIONS:
        for r in ((code, ideal) if tier != "quick" else (code,)):
            if r.coverage.get(a, (0, 0))[0] == 0:
                raise vlib.ToolError("action %s of Bundle was never taken: vacuous model-checking run" % a)
    cases = code.tagged("CASE")
    if len(cases) < 5000:
        raise vlib.ToolError("MC_Bundle enumerated only %d graphs" % len(cases))
    sel = select_cases(tier, cases, rng) + pinned_cases()
    res = observe_and_judge(rep, sel, "main", corrupt=os.environ.get("C05_CORRUPT"))
    vc = res["verdicts"]
    decided = vc.get("equal", 0) + vc.get("differ", 0)
    if decided < 0.8 * res["counts"]["behaviour_cases"] or res["counts"]["behaviour_cases"] < 300:
        raise vlib.ToolError("only %d of %d bundles were decided (%s)" % (decided, res["counts"]["behaviour_cases"], vc))
    okc = [s for s in res["status"].values() if s["status"] == "ok"]
    rep.coverage.update({
        "states": code.distinct + ideal.distinct + res["states"], "transitions": code.generated + ideal.generated + res["transitions"],
        "traces_validated_against_impl": res["observations"], "exhaustive": True,
        "samples": [{"config": s["config"], "files": s["files"], "out": s["out"][:1200]} for s in (okc[0], okc[len(okc) // 2])],
        "programs": res["counts"]["behaviour_cases"], "disagreements_checked": res["disagreements"],
        "graphs_enumerated": len(cases), "graphs_that_must_error": sum(c["must_error"] for c in cases),
        "cyclic_graphs": sum(c["cyclic"] for c in cases), "graphs_replayed": len(sel),
        "model_states_code_shaped": code.distinct, "model_states_ideal": ideal.distinct,
        "error_observations": res["counts"]["error_cases"], "error_observations_naming_all_files": res["counts"]["error_named"],
        "behaviour_verdicts": vc, "distinct_program_pairs_executed": res["executed"],
        "drift_bundle_defines_other_number_of_bodies_than_model": res["counts"]["drift_defs"],
        "action_coverage_code_shaped": {a: code.coverage[a][0] for a in ACTIONS},
    })
    rep.assumptions += [
        "precondition by construction: module bodies make no external call while loading, return exactly one value (unless the case is a 0/2-value fault), the graph is acyclic whenever behaviour is compared",
        "behaviour = sequence of external calls with rendered arguments (counters per module, rawequal of values received by different requirers, results of exported closures, identically named locals) + returned values, judged by LuaEquiv over spec/lua/LuaSem.tla; the model `require` runs a module body once in a fresh scope and caches its value, two spellings of one file are one module",
        "excluded modules and computed require arguments are served by the run-time `require` in both programs; an excluded module requires nothing itself (it would otherwise load private copies of bundled modules, which is inherent to excluding)",
        "error cases are never executed: the observation is `process` returning / collecting an error that names the files (path of an existing file, requested name of a missing one), within 20 s, without panic",
        "in-memory resources; modules live in one directory (plus one sub-directory) where every literal require string denotes one file, except in the TWIN graphs (1->2, 1->3, 2->4, 3->5): files 2 and 3 live in sibling directories and write the SAME literal `./c` / `../c`, which denotes a different file for each (or nothing for the second); .luaurc aliases, sourcemaps and the roblox mode are outside the property",
        "type declarations exported by modules (rename_type_declaration.rs) are not generated",
    ]
    return rep.finish()


def replay(path, tier):
    rep = Report(PID, tier, "model_checking")
    with open(path) as f:
        case = json.load(f)["case"]
    if "case" not in case:
        raise vlib.ToolError("replay file carries no graph case (design-level violations are replayed by running MC_Bundle)")
    c = dict(case["case"], id="replay")
    res = observe_and_judge(rep, [c], "replay", corrupt=os.environ.get("C05_CORRUPT"))
    rep.coverage.update({"states": res["states"], "transitions": res["transitions"], "traces_validated_against_impl": res["observations"],
                         "samples": [{"config": s.get("config", ""), "files": s.get("files", {}), "out": s.get("out", "")[:1200]} for s in res["status"].values()],
                         "programs": res["counts"]["behaviour_cases"], "disagreements_checked": res["disagreements"], "behaviour_verdicts": res["verdicts"]})
    return rep.finish()
