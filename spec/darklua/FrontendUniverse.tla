-------------------------- MODULE FrontendUniverse --------------------------
(* The bounded project universe (files, require graph, directories, configurations) shared by *)
(* MC_Frontend, FrontendTrace and FrontendObs, and the deviation flags read from the environment. *)
EXTENDS Integers, Sequences, FiniteSets, TLC, Json, IOUtils

Flag0(name) == IF name \in DOMAIN IOEnv THEN IOEnv[name] = "1" ELSE FALSE
MC_Sources  == {"a", "sub/b", "sub/c"}
MC_Modules  == {"sub/c", "lib/m"}
MC_DirOf    == [f \in MC_Sources \cup MC_Modules |-> IF f \in {"sub/b", "sub/c"} THEN "sub" ELSE IF f = "lib/m" THEN "lib" ELSE "root"]
MC_Dirs     == {"sub", "lib"}       \* `lib` holds a module only: a directory whose removal takes a DEPENDENCY of surviving sources away
\* a -> sub/c -> lib/m is a CHAIN (the bundler inlines transitively); sub/b requires both directly.  Version 2 of a file of
\* MC_Droppers requires nothing (an edit can take a require away): the modules a source depends on are those REACHED through
\* the requires of the current contents, stopping at files that are missing or do not parse.
MC_Requires == [s \in MC_Sources \cup MC_Modules |-> IF s = "a" THEN {"sub/c"} ELSE IF s = "sub/b" THEN {"sub/c", "lib/m"} ELSE IF s = "sub/c" THEN {"lib/m"} ELSE {}]
MC_Droppers == {"sub/c"}
ReqOf(iv, f) == IF f \in MC_Droppers /\ iv[f] = 2 THEN {} ELSE MC_Requires[f]
ReachOf(iv, s) ==
  LET G(x) == iv[x] > 0 IN
  LET r1 == ReqOf(iv, s) IN
  LET r2 == r1 \cup UNION {ReqOf(iv, m) : m \in {x \in r1 : G(x)}} IN
  r2 \cup UNION {ReqOf(iv, m) : m \in {x \in r2 : G(x)}}
\* c2+skip = c2 whose remove_empty_do rule carries skip_files: ['**/a.lua'];  c2+read = c2 with the readable generator
MC_Configs  == IF Flag0("MORECONFIGS") THEN {"c1", "c2", "c2+skip", "c2+read"} ELSE {"c1", "c2"}
\* the configuration hash: DevSerLosesFilters = the serialised configuration drops rule filters (F-C19-a, fixed)
MC_SerKey   == [c \in MC_Configs |-> IF Flag0("DevSerLosesFilters") /\ c = "c2+skip" THEN "c2" ELSE c]
\* what a configuration amounts to on a given file: the skip filter only changes the output of `a`
MC_Eff      == [c \in MC_Configs |-> [s \in MC_Sources |-> IF c = "c2+skip" /\ s # "a" THEN "c2" ELSE c]]
MC_MaxSteps == IF "MAXSTEPS" \in DOMAIN IOEnv THEN atoi(IOEnv.MAXSTEPS) ELSE 5
Flag(name)  == IF name \in DOMAIN IOEnv THEN IOEnv[name] = "1" ELSE FALSE
MC_DevEarlyReturn       == Flag("DevEarlyReturn")
MC_DevDirKeepsExt       == Flag("DevDirKeepsExt")
MC_DevCleanAfterWrite   == Flag("DevCleanAfterWrite")
MC_DevDepsOnSuccessOnly == Flag("DevDepsOnSuccessOnly")
MC_DevCreateNoNotify    == Flag("DevCreateNoNotify")
MC_DevDepsOnExistingOnly == Flag("DevDepsOnExistingOnly")
MC_DevRmdirNoRestart    == Flag("DevRmdirNoRestart")

=============================================================================
