-------------------------- MODULE FrontendInstance --------------------------
(* Frontend instantiated on the bounded universe. *)
EXTENDS Frontend, FrontendUniverse
=============================================================================
