-------------------------------- MODULE Batch --------------------------------
(* C11 -- a batch run (`darklua process <input> [<output>]`, darklua_core::process) maps files      *)
(* one-to-one, isolates failures and is deterministic.                                             *)
(*                                                                                                  *)
(* This module is the STATEMENT of the property over a bounded universe of directory trees:        *)
(*   - what a case is (tree, fault assignment, input form, output form, fail-fast, configuration), *)
(*   - the per-directory context shared by the files of a batch (nested .luaurc files) and the     *)
(*     DOCUMENTED expectation about it (AliasDir: the nearest .luaurc above a file serves it),     *)
(*   - the DOCUMENTED destination of every Lua file (Dest), transcribed from the contract that     *)
(*     WorkerTree::collect_work implements (see "destination contract" below),                     *)
(*   - the initial tree of the case (what the renderer must create) and the reference tree         *)
(*     (the same tree without the faulty files),                                                   *)
(*   - the clauses of C11 as predicates over OBSERVED trees (functions path -> [k, n, h]) and      *)
(*     observed error lists.  The trace specification BatchTrace applies them to what the real     *)
(*     darklua did; MC_Batch enumerates the cases and model-checks the internal theorems.          *)
(*                                                                                                  *)
(* Paths are sequences of file names.  Names are opaque strings for the model; a non-ASCII name is *)
(* written percent-encoded ("%C3%A9.lua" is `é.lua`) and decoded by the renderer.                  *)
EXTENDS Integers, Sequences, FiniteSets, TLC

Last(p)  == p[Len(p)]
Front(p) == SubSeq(p, 1, Len(p) - 1)
IsPrefix(p, q)       == Len(p) <= Len(q) /\ SubSeq(q, 1, Len(p)) = p
IsProperPrefix(p, q) == Len(p) < Len(q) /\ SubSeq(q, 1, Len(p)) = p

\* ------------------------------------------------------------------ universe
In == "in"
\* The Lua files of the universe (relative to the directory `in`).
\*   1 a.lua                      top level
\*   2 sub/b.luau                 nested, .luau
\*   3 sub/deep/my file.v2.lua    two levels down, spaces and several dots
\*   4 é.lua                      non-ASCII name
\*   5 d.lua/inner.lua            inside a DIRECTORY that is named like a Lua file
LuaRel == << <<"a.lua">>, <<"sub", "b.luau">>, <<"sub", "deep", "my file.v2.lua">>, <<"%C3%A9.lua">>, <<"d.lua", "inner.lua">> >>
LuaId  == << "a", "b", "spaced", "uni", "inner" >>
NLua   == Len(LuaRel)
E      == 1..NLua
\* files that are NOT Lua files: never collected, never copied, never touched
NonLuaRel == { <<"notes.txt">>, <<"Makefile">>, <<"sub", "data.json">>, <<"sub", "b.lua.txt">> }

States   == {"absent", "ok", "syntax", "utf8", "rule", "unwparent", "unwdir"}
OwnFault == {"syntax", "utf8", "rule"}          \* the file itself cannot be read / parsed / transformed
UnwFault == {"unwparent", "unwdir"}             \* its destination cannot be written
Roots    == {"in", "sub", "dlua", "file"}       \* input = in | in/sub | in/d.lua (directories) | one file
OutForms == {"none", "same", "exfile", "exdir", "exdirdot", "newdir", "newext"}   \* exdirdot: an EXISTING directory whose name has an extension
\* "retain": no rules and the default (token-based) generator -- every healthy file is a FIXED POINT of the configuration
\* (what has to be written is byte-identical to the source; a file already at the destination is still replaced)
\* "aliasdup": convert_require from the path mode with the source `@lib` = libD to the path mode with FOUR sources naming that
\* same directory (`@one`, `@two`, `@six`, `@ten`); every healthy source requires `@lib/m1`.  Any of the four names is a correct
\* conversion -- but a second run of the same batch, and a run in another order, must write the same bytes (Deterministic).
Configs  == {"empty", "default", "rootskip", "rootapply", "luaurc", "luaurcgap", "retain", "aliasdup"}
\* "luaurc" / "luaurcgap": the run converts alias requires with the aliases of the `.luaurc` files of the tree (see
\* "per-directory context" below); the other configurations never look at a `.luaurc`.
RcCfgs   == {"luaurc", "luaurcgap"}

\* A case is a record [root, fi, st, out, ff, cfg]:
\*   root \in Roots, fi \in 0..NLua (the file given as input when root = "file", else 0),
\*   st \in [E -> States], out \in OutForms, ff \in BOOLEAN (fail-fast), cfg \in Configs.

Src(i) == <<In>> \o LuaRel[i]

InputPath(c) ==
  CASE c.root = "in"   -> <<In>>
    [] c.root = "sub"  -> <<In, "sub">>
    [] c.root = "dlua" -> <<In, "d.lua">>
    [] c.root = "file" -> Src(c.fi)

\* the Lua files the run has to process
UnderInput(c, i) ==
  /\ c.st[i] # "absent"
  /\ IF c.root = "file" THEN i = c.fi ELSE IsProperPrefix(InputPath(c), Src(i))
Work(c) == {i \in E : UnderInput(c, i)}

\* the output location, and what the file system says about it BEFORE the run
HasOutput(c) == c.out # "none"
OutPath(c) ==
  CASE c.out = "none"   -> <<>>
    [] c.out = "same"   -> InputPath(c)
    [] c.out = "exfile" -> <<"outf.lua">>
    [] c.out = "exdir"  -> <<"out">>
    [] c.out = "exdirdot" -> <<"out.v2">>
    [] c.out = "newdir" -> <<"fresh", "nested">>
    [] c.out = "newext" -> <<"new.lua">>
InPlace(c) == c.out \in {"none", "same"}
OutIsDir(c)  == c.out \in {"exdir", "exdirdot"} \/ (c.out = "same" /\ c.root # "file")
OutIsFile(c) == c.out = "exfile" \/ (c.out = "same" /\ c.root = "file")
OutHasExt(c) == c.out \in {"exfile", "newext", "exdirdot"} \/ (c.out = "same" /\ c.root \in {"file", "dlua"})

\* ------------------------------------------------------------------ destination contract
\* (transcribed from WorkerTree::collect_work; this is what the documentation of `darklua process` promises)
\*  D1  no output given                       -> every file is rewritten in place.
\*  D2  input is a directory, output given    -> <output>/<path of the file relative to the input>  (mirrored),
\*        whatever <output> is: an existing directory, a new path (created, also when it carries an
\*        extension: `darklua process src new.lua` creates a DIRECTORY new.lua), or -- SURPRISING -- an
\*        existing regular file, in which case no destination can be created and every file fails.
\*  D3  input is a single file, output given:
\*        a. output is an existing directory                     -> <output>/<file name>
\*        b. output is an existing file, or has an extension     -> <output> itself
\*        c. otherwise (new path without extension)              -> <output>/<file name>   (taken for a directory)
\*      SURPRISING: the decision between b and c for a path that does not exist rests on the spelling
\*      (`out.d` is a file, `out` is a directory); an existing directory wins over its extension.
SingleDest(out, isdir, isfile, hasext, name) ==
  IF isdir THEN out \o <<name>>
  ELSE IF isfile \/ hasext THEN out
  ELSE out \o <<name>>

Rel(c, i) == SubSeq(Src(i), Len(InputPath(c)) + 1, Len(Src(i)))

Dest(c, i) ==
  IF ~HasOutput(c) THEN Src(i)
  ELSE IF c.root = "file" THEN SingleDest(OutPath(c), OutIsDir(c), OutIsFile(c), OutHasExt(c), Last(Src(i)))
  ELSE OutPath(c) \o Rel(c, i)

\* ------------------------------------------------------------------ the initial tree of a case
\* records [p |-> path, k |-> "f" | "d", c |-> content class]; directories that merely contain something are implied.
\* content classes: "ok:<id>" healthy Lua, "syntax", "utf8", "rule" faulty Lua, "text" a non-Lua file, "pre" a pre-existing file,
\* "lib:<m>" a library module outside the input, "rc:<t>" a .luaurc and "alias:<t>" the module its alias leads to (see
\* "per-directory context" below)
F(p, cls) == [p |-> p, k |-> "f", c |-> cls]
D(p)      == [p |-> p, k |-> "d", c |-> ""]

ContentOf(c, i) == IF c.st[i] \in OwnFault THEN c.st[i] ELSE "ok:" \o LuaId[i]

\* ------------------------------------------------------------------ per-directory context (.luaurc)
\* Luau reads its configuration from files named `.luaurc`: a `.luaurc` applies to every file of its directory and of the
\* directories below, and for a given file the NEAREST `.luaurc` among the file's ancestors is the one that counts (the
\* ones further up are not consulted for an alias the nearest one defines).  darklua follows this when a rule resolves
\* `require('@name/...')` (convert_require and the bundler with `use_luau_configuration: true`).  This is context SHARED by
\* the files of one batch: it may be looked up once per directory, but what a file gets must not depend on which other
\* files were processed before it, nor on which siblings exist.
\*
\* In the configurations RcCfgs the run is
\*   { generator: 'dense', rules: [ { rule: 'convert_require', current: { name: 'luau', use_luau_configuration: true },
\*                                    target: { name: 'path' } } ] }           (no alias in the configuration itself)
\* the tree holds `.luaurc` files at several nesting levels that define THE SAME alias `lib` with DIFFERENT targets
\* (directories outside `in`, each holding a module m1.lua that says which directory it is in), and every healthy source
\* contains `local dep = require('@lib/m1')`: the converted require (or, when bundling is configured, the inlined module)
\* shows which `.luaurc` served the file.
\*   luaurc     in/.luaurc -> libA    in/sub/.luaurc -> libB    in/sub/deep/.luaurc -> libC      three levels, each defines
\*   luaurcgap  .luaurc    -> libR    in/sub/.luaurc -> libB                                     two levels with gaps: `in`
\*              and `in/d.lua` inherit from the root of the tree (two Lua files share `in`), `in/sub/deep` inherits from `in/sub`
Rc(c) == c.cfg \in RcCfgs
RcDirs(cfg) ==
  CASE cfg = "luaurc"    -> {<<In>>, <<In, "sub">>, <<In, "sub", "deep">>}
    [] cfg = "luaurcgap" -> {<<>>, <<In, "sub">>}
    [] OTHER             -> {}
RcTarget(d) ==
  CASE d = <<>>                  -> <<"libR">>
    [] d = <<In>>                -> <<"libA">>
    [] d = <<In, "sub">>         -> <<"libB">>
    [] d = <<In, "sub", "deep">> -> <<"libC">>
\* content classes "rc:<t>" (a .luaurc whose alias `lib` points to the directory <t> at the root of the tree) and "alias:<t>"
\* (the module <t>/m1.lua).  They are NOT Lua sources of the batch: a `.luaurc` has no Lua extension, the targets are outside
\* `in` -- never collected, never copied, never touched (InputsUntouched / NothingElse apply to them as to any other path).
RcTree(cfg) == {F(d \o <<".luaurc">>, "rc:" \o RcTarget(d)[1]) : d \in RcDirs(cfg)}
                 \cup {F(RcTarget(d) \o <<"m1.lua">>, "alias:" \o RcTarget(d)[1]) : d \in RcDirs(cfg)}
\* THE DOCUMENTED EXPECTATION: the `.luaurc` files above the file i, the nearest of them, and the directory the alias `lib`
\* must resolve to for that file
RcAbove(c, i)   == {d \in RcDirs(c.cfg) : IsProperPrefix(d, Src(i))}
NearestRc(c, i) == CHOOSE d \in RcAbove(c, i) : \A e \in RcAbove(c, i) : Len(e) <= Len(d)
AliasDir(c, i)  == RcTarget(NearestRc(c, i))
\* the per-directory context does not interact with the spelling of the output location: these configurations are
\* enumerated with the output forms below (in place twice, an existing and a new output directory)
RcOutForms == {"none", "same", "exdir", "newdir"}

\* when bundling is configured (b), every healthy source requires three library modules that live OUTSIDE the input
\* (lib/m1 -> lib/m2 -> lib/m3): they are inlined, never copied, never touched
LibTree(b) == IF b THEN {F(<<"lib", "m1.lua">>, "lib:m1"), F(<<"lib", "m2.lua">>, "lib:m2"), F(<<"lib", "m3.lua">>, "lib:m3")} ELSE {}
InputTree(c, b) == {F(Src(i), ContentOf(c, i)) : i \in {j \in E : c.st[j] # "absent"}} \cup {F(<<In>> \o r, "text") : r \in NonLuaRel} \cup LibTree(b)
                     \cup RcTree(c.cfg) \cup (IF c.cfg = "aliasdup" THEN {F(<<"libD", "m1.lua">>, "alias:libD")} ELSE {})

\* what makes a destination unwritable (we run as root: permissions do not help)
\*   unwparent: the destination's parent directory is a regular FILE   unwdir: the destination is a non-empty DIRECTORY
Blockers(c) ==
  UNION {
    IF ~UnderInput(c, i) THEN {}
    ELSE IF c.st[i] = "unwparent" THEN {F(Front(Dest(c, i)), "pre")}
    ELSE IF c.st[i] = "unwdir" THEN {D(Dest(c, i)), F(Dest(c, i) \o <<"keep.txt">>, "pre")}
    ELSE {} : i \in E }

\* what is in the output location before the run; `out/a.lua` and `out/sub/b.luau` are old outputs (overwritten when
\* their source is healthy, to be left alone when it is faulty), `out/stale.lua` has no source, `out/keep.txt` is foreign
PreExisting(c) ==
  LET base == CASE c.out = "exfile" -> {F(<<"outf.lua">>, "pre")}
                [] c.out = "exdir"  -> {F(<<"out", "keep.txt">>, "pre"), F(<<"out", "stale.lua">>, "pre"),
                                        F(<<"out", "a.lua">>, "pre"), F(<<"out", "sub", "b.luau">>, "pre")}
                [] c.out = "exdirdot" -> {F(<<"out.v2", "keep.txt">>, "pre")}
                [] OTHER -> {} IN
  LET bl == Blockers(c) IN
  \* a blocker takes the place of a pre-existing file it collides with
  {r \in base : \A b \in bl : ~IsPrefix(b.p, r.p) /\ ~IsPrefix(r.p, b.p)} \cup bl

\* bundling is configured exactly when a file must fail in a rule (a require of a module that does not exist)
Bundle(c) == \E i \in E : c.st[i] = "rule"

TreeWith(c, b) == InputTree(c, b) \cup PreExisting(c)
InitialTree(c) == TreeWith(c, Bundle(c))

\* a tree is well formed when no path is listed twice and no regular file is an ancestor of another entry
TreeOK(t) == \A r1, r2 \in t : (r1.p = r2.p => r1 = r2) /\ (r1.k = "f" => ~IsProperPrefix(r1.p, r2.p))

\* ------------------------------------------------------------------ faulty / healthy
Blocked(c, i) ==
  /\ ~InPlace(c)
  /\ \E r \in PreExisting(c) : (r.k = "f" /\ IsProperPrefix(r.p, Dest(c, i))) \/ (r.k = "d" /\ r.p = Dest(c, i))
OwnFaulty(c, i) == c.st[i] \in OwnFault
Faulty(c, i)    == UnderInput(c, i) /\ (OwnFaulty(c, i) \/ Blocked(c, i))
Healthy(c, i)   == UnderInput(c, i) /\ ~Faulty(c, i)
FaultySet(c)    == {i \in E : Faulty(c, i)}
HealthySet(c)   == {i \in E : Healthy(c, i)}

\* the same tree without the faulty files (and without what blocked them): the reference of FailureIsolation
RefCase(c) == [c EXCEPT !.st = [i \in E |-> IF Faulty(c, i) \/ (UnderInput(c, i) /\ c.st[i] \in UnwFault) THEN "absent" ELSE c.st[i]]]
\* ... processed with the SAME configuration (bundling stays configured, the library modules stay)
RefTree(c) == TreeWith(RefCase(c), Bundle(c))

\* root-level filters: `skip_files: ['**/sub/**']` resp. `apply_to_files: ['**/sub/**']`
InSub(i) == \E k \in 2..(Len(Src(i)) - 1) : Src(i)[k] = "sub"
Excluded(c, i) == (c.cfg = "rootskip" /\ InSub(i)) \/ (c.cfg = "rootapply" /\ ~InSub(i))

WellFormedCase(c) ==
  /\ c.root \in Roots /\ c.out \in OutForms /\ c.cfg \in Configs /\ c.ff \in BOOLEAN
  /\ c.st \in [E -> States]
  /\ (c.root = "file") = (c.fi # 0)
  /\ c.root = "file" => c.fi \in E /\ c.st[c.fi] # "absent"
  /\ c.root = "dlua" => c.st[5] # "absent"            \* the input must exist
  \* a destination can only be blocked beforehand inside an output directory that already exists
  /\ \A i \in E : c.st[i] \in UnwFault => c.out = "exdir" /\ UnderInput(c, i)
  /\ \A i \in E : c.st[i] = "unwparent" => Len(Dest(c, i)) > Len(OutPath(c)) + 1
  /\ Rc(c) => c.out \in RcOutForms
  \* the determinism of the conversion is the subject of "aliasdup": no bundling (a "rule" fault configures it)
  /\ c.cfg = "aliasdup" => c.out \in RcOutForms /\ \A i \in E : c.st[i] # "rule"
  /\ TreeOK(InitialTree(c))

\* ------------------------------------------------------------------ what the property demands
\* the mirror: one destination per Lua file under the input ...
Mirror(c)          == {Dest(c, i) : i \in Work(c)}
\* ... of which exactly those of the healthy files are written
ExpectedOutputs(c) == {Dest(c, i) : i \in HealthySet(c)}

\* With fail-fast the run stops at the first error.  The contract is then WEAKER (stated here explicitly):
\*   each healthy file's output is either absent/untouched or correct, at least one faulty file is reported,
\*   nothing is written for faulty files, nothing else is written, inputs are untouched; which healthy files were
\*   reached before the stop depends on the enumeration order, so determinism is not promised.
\* Without a faulty file fail-fast changes nothing.
Strong(c) == ~c.ff \/ FaultySet(c) = {}

\* observed trees: functions  path -> [k |-> "f"|"d", n |-> length, h |-> hash of the bytes]
Absent == [k |-> "-", n |-> 0, h |-> ""]
At(t, p) == IF p \in DOMAIN t THEN t[p] ELSE Absent
Same(t0, t1, p) == At(t1, p) = At(t0, p)
Paths(t0, t1) == DOMAIN t0 \cup DOMAIN t1

\* the destination holds a file, and the run produced it (an old file at the destination was replaced; in place the
\* source was rewritten -- every healthy source of the universe changes under every configuration of the universe,
\* except that a file excluded by a root-level filter may stay as it is in place)
\* under "retain" a healthy file is a fixed point: in place it stays as it is, elsewhere the destination holds its bytes
FixedPoint(c) == c.cfg = "retain"
WrittenAt(c, i, t0, t1) ==
  /\ At(t1, Dest(c, i)).k = "f"
  /\ IF InPlace(c) THEN Excluded(c, i) \/ FixedPoint(c) \/ ~Same(t0, t1, Dest(c, i))
     ELSE At(t0, Dest(c, i)).k = "f" => ~Same(t0, t1, Dest(c, i))
  /\ (FixedPoint(c) /\ ~Bundle(c)) => At(t1, Dest(c, i)) = At(t0, Src(i))

OneToOneOffenders(c, t0, t1) ==
  IF Strong(c) THEN {i \in HealthySet(c) : ~WrittenAt(c, i, t0, t1)}
  ELSE {i \in HealthySet(c) : ~(Same(t0, t1, Dest(c, i)) \/ At(t1, Dest(c, i)).k = "f")}
OneToOne(c, t0, t1) == OneToOneOffenders(c, t0, t1) = {}

\* nothing is written for a faulty file: its destination is as it was (absent stays absent, an old output, a blocker
\* or -- in place -- the source itself is untouched)
NothingForFaultyOffenders(c, t0, t1) == {i \in FaultySet(c) : ~Same(t0, t1, Dest(c, i))}
NothingForFaulty(c, t0, t1) == NothingForFaultyOffenders(c, t0, t1) = {}

\* input files are never modified when an output location is given
InputsUntouchedOffenders(c, t0, t1) ==
  IF InPlace(c) THEN {} ELSE {p \in Paths(t0, t1) : p[1] = In /\ ~Same(t0, t1, p)}
InputsUntouched(c, t0, t1) == InputsUntouchedOffenders(c, t0, t1) = {}

\* and nothing else: every other path is as it was (non-Lua files are not copied, foreign and stale files of the
\* output directory stay, no file appears anywhere else); directories that appear are tolerated
NothingElseOffenders(c, t0, t1) ==
  {p \in Paths(t0, t1) :
     /\ p \notin Mirror(c)
     /\ (InPlace(c) \/ p[1] # In)
     /\ ~Same(t0, t1, p)
     /\ ~(At(t0, p) = Absent /\ At(t1, p).k = "d")}
NothingElse(c, t0, t1) == NothingElseOffenders(c, t0, t1) = {}

\* a faulty file is reported with its path: some error names its source, its destination, or -- for a blocked
\* destination -- the part of the destination path that could not be created
NamesEntry(c, i, names) ==
  \E n \in names :
     \/ n = Src(i)
     \/ n = Dest(c, i)
     \/ /\ IsProperPrefix(n, Dest(c, i))
        /\ \E r \in PreExisting(c) : r.k = "f" /\ IsPrefix(r.p, n)
\* (information only) the error names the file itself, not just what was in the way
NamesEntryStrictly(c, i, names) == \E n \in names : n = Src(i) \/ n = Dest(c, i)
\* errs: a sequence of [names |-> sequence of paths]
ReportedIn(c, i, errs) == \E k \in 1..Len(errs) : NamesEntry(c, i, {errs[k].names[j] : j \in 1..Len(errs[k].names)})
ReportedOffenders(c, errs) ==
  LET unrep == {i \in FaultySet(c) : ~ReportedIn(c, i, errs)} IN
  IF Strong(c) THEN unrep ELSE IF unrep = FaultySet(c) THEN unrep ELSE {}
Reported(c, errs) == ReportedOffenders(c, errs) = {}
WeaklyReported(c, errs) ==
  {i \in FaultySet(c) : ReportedIn(c, i, errs) /\ ~\E k \in 1..Len(errs) : NamesEntryStrictly(c, i, {errs[k].names[j] : j \in 1..Len(errs[k].names)})}

\* every other file is processed as if the bad ones were absent: r1 = the tree after the run on the reference tree
IsolationOffenders(c, t0, t1, r1) ==
  IF Strong(c) THEN {i \in HealthySet(c) : At(t1, Dest(c, i)) # At(r1, Dest(c, i))}
  ELSE {i \in HealthySet(c) : ~(Same(t0, t1, Dest(c, i)) \/ At(t1, Dest(c, i)) = At(r1, Dest(c, i)))}
FailureIsolation(c, t0, t1, r1) == IsolationOffenders(c, t0, t1, r1) = {}

\* running twice, or with the files enumerated in another order, gives byte-identical trees
DetOffenders(c, t1, u1) == IF Strong(c) THEN {p \in Paths(t1, u1) : At(t1, p) # At(u1, p)} ELSE {}
Deterministic(c, t1, u1) == DetOffenders(c, t1, u1) = {}

\* ------------------------------------------------------------------ order, siblings, per-directory context
\* "with files enumerated in another order": o1 = the tree after a run in which the Lua files of the input were handed to
\* darklua in an explicitly chosen order (WorkerTree::add_source in that order, then WorkerTree::process) on a fresh copy of
\* the initial tree.  The orders a driver uses must be permutations of Work(c) that, together, place every file before every
\* other file at least once (OrdersCover): any dependence of one file's output on ONE earlier file is then exercised.
OrderOffenders(c, t1, o1) == DetOffenders(c, t1, o1)
IsOrderOf(c, ord) == Len(ord) = Cardinality(Work(c)) /\ {ord[k] : k \in 1..Len(ord)} = Work(c)
Before(ord, x, y) == \E k, l \in 1..Len(ord) : k < l /\ ord[k] = x /\ ord[l] = y
\* ords: a sequence of orders (sequences of entry numbers)
OrdersCover(c, ords) ==
  /\ Len(ords) >= 1
  /\ \A n \in 1..Len(ords) : IsOrderOf(c, ords[n])
  /\ \A x, y \in Work(c) : x # y => \E n \in 1..Len(ords) : Before(ords[n], x, y)

\* "every other file is processed as if [its siblings] were absent", taken to the end: the file i processed ALONE -- the same
\* tree without the other Lua files of the input (everything else stays: non-Lua files, .luaurc files, libraries, what is
\* in the output location) -- gets the byte-identical output it gets in the batch.  a1 = the tree after that run.
AloneTree(c, i) == LET others == {Src(j) : j \in Work(c) \ {i}} IN {r \in InitialTree(c) : r.p \notin others}
AloneOffends(c, i, t0, t1, a1) ==
  IF Strong(c) THEN At(t1, Dest(c, i)) # At(a1, Dest(c, i))
  ELSE ~(Same(t0, t1, Dest(c, i)) \/ At(t1, Dest(c, i)) = At(a1, Dest(c, i)))

\* each file uses the NEAREST .luaurc among its ancestors.  What an output shows (recorded by the driver, judged here):
\*   reqs  : the string arguments of the `require` calls that remain in the output, each split at "/"
\*   marks : the directories named by inlined alias modules (`alias_target = '<t>'`, when bundling is configured)
\* A require string is read from the directory of the SOURCE (that is what convert_require promises: a path relative to the
\* requiring file); Follow walks it segment by segment.  Every module the output refers to in either way must be the m1 of
\* AliasDir(c, i), and there must be such a reference (an unconverted `@lib/m1` leads to <dir>/@lib/m1: not the module).
Outside == <<"<outside the tree>">>
RECURSIVE Follow(_, _)
Follow(dir, segs) ==
  IF segs = <<>> \/ dir = Outside THEN dir
  ELSE LET s == Head(segs) IN
       Follow(IF s = "." THEN dir ELSE IF s = ".." THEN (IF dir = <<>> THEN Outside ELSE Front(dir)) ELSE dir \o <<s>>, Tail(segs))
RefersTo(i, ev) == {Follow(Front(Src(i)), ev.reqs[k]) : k \in 1..Len(ev.reqs)} \cup {<<ev.marks[k], "m1.lua">> : k \in 1..Len(ev.marks)}
NearestOK(c, i, ev) ==
  /\ RefersTo(i, ev) # {}
  /\ RefersTo(i, ev) \subseteq {AliasDir(c, i) \o <<"m1">>, AliasDir(c, i) \o <<"m1.lua">>}
\* a healthy file whose output was produced by this run (with the weaker contract: unless its destination is as it was)
Produced(c, i, t0, t1) == Healthy(c, i) /\ At(t1, Dest(c, i)).k = "f" /\ (Strong(c) \/ ~Same(t0, t1, Dest(c, i)))

\* ------------------------------------------------------------------ known deviation (F-C11-a)
\* Worker::apply_rules marks a file excluded by a ROOT-level filter done before generating anything: with an output
\* location it gets no output at all (and a blocked destination is never noticed).
RootFilterExplains(c, i) == c.cfg \in {"rootskip", "rootapply"} /\ ~InPlace(c) /\ Excluded(c, i) /\ ~OwnFaulty(c, i)

\* ------------------------------------------------------------------ internal theorems (model-checked by MC_Batch)
\* two sources never map to the same output
DestInjective(c) == \A i, j \in Work(c) : i # j => Dest(c, i) # Dest(c, j)
\* the mirrored path stays inside the output root; in place it is the source
DestInsideOutput(c) == \A i \in Work(c) : IF HasOutput(c) THEN IsPrefix(OutPath(c), Dest(c, i)) ELSE Dest(c, i) = Src(i)
\* with a separate output location no destination lies in the input tree, and no input file is a destination
DestOutsideInput(c) == ~InPlace(c) => \A i \in Work(c) : Dest(c, i)[1] # In
InPlaceIsSource(c)  == InPlace(c) => \A i \in Work(c) : Dest(c, i) = Src(i)
\* exactly one destination per file
MirrorIsOneToOne(c) == Cardinality(Mirror(c)) = Cardinality(Work(c)) /\ Cardinality(ExpectedOutputs(c)) = Cardinality(HealthySet(c))
\* nothing that must stay untouched is a destination of a healthy file: the clauses cannot contradict each other
NoConflict(c) ==
  /\ \A r \in InputTree(c, Bundle(c)) : r.p \in ExpectedOutputs(c) => InPlace(c)
  /\ \A r \in PreExisting(c) : r.p \in ExpectedOutputs(c) => r.c = "pre" /\ r.k = "f" /\ r \notin Blockers(c)
\* running again into what the first run created gives the same destinations: a new directory has become an existing
\* directory, a new file an existing file
DestStable(c) ==
  c.root = "file" /\ HasOutput(c) =>
    \A i \in Work(c) :
      LET d == Dest(c, i) IN
      LET nowdir == d # OutPath(c) IN      \* the first run created <output>/<name>: <output> is a directory now
      SingleDest(OutPath(c), nowdir, ~nowdir, OutHasExt(c), Last(Src(i))) = d
\* the reference case has no faulty file, keeps every healthy file and its destination
RefIsClean(c) ==
  LET r == RefCase(c) IN
  /\ FaultySet(r) = {} /\ HealthySet(r) = HealthySet(c)
  /\ \A i \in HealthySet(c) : Dest(r, i) = Dest(c, i)
  /\ TreeOK(RefTree(c))
\* a file is never both
Partition(c) == FaultySet(c) \cap HealthySet(c) = {} /\ FaultySet(c) \cup HealthySet(c) = Work(c)

\* per-directory context: every Lua file of the universe has a .luaurc above it (the alias require of every healthy source
\* resolves), different .luaurc files name different targets, the targets lie outside `in`, and the universe discriminates:
\* two files of the universe must resolve the same alias differently, and some file has TWO .luaurc above it
RcSound(c) ==
  Rc(c) =>
    /\ \A i \in E : RcAbove(c, i) # {} /\ NearestRc(c, i) \in RcAbove(c, i)
    /\ \A d1, d2 \in RcDirs(c.cfg) : d1 # d2 => RcTarget(d1) # RcTarget(d2)
    /\ \A d \in RcDirs(c.cfg) : RcTarget(d)[1] # In
    /\ \E i, j \in E : AliasDir(c, i) # AliasDir(c, j)
    /\ \E i \in E : Cardinality(RcAbove(c, i)) >= 2
    /\ \A i \in E : ~Excluded(c, i)          \* no root-level filter in these configurations
\* the tree of a file processed alone is a tree, holds that file and none of the other files to process, and keeps whatever
\* is not a Lua file of the input
AloneIsClean(c) ==
  Rc(c) =>         \* (alone runs are made for these configurations)
  LET t == InitialTree(c) IN
  \A i \in HealthySet(c) :
    LET a == AloneTree(c, i) IN
    /\ F(Src(i), ContentOf(c, i)) \in a
    /\ \A j \in Work(c) \ {i} : \A r \in a : r.p # Src(j)
    /\ t \ a = {F(Src(j), ContentOf(c, j)) : j \in Work(c) \ {i}}      \* hence a subset of a tree: TreeOK(a)

Theorems(c) ==
  /\ DestInjective(c) /\ DestInsideOutput(c) /\ DestOutsideInput(c) /\ InPlaceIsSource(c)
  /\ MirrorIsOneToOne(c) /\ NoConflict(c) /\ DestStable(c) /\ RefIsClean(c) /\ Partition(c)
  /\ RcSound(c) /\ AloneIsClean(c)
=============================================================================
