---------------------------- MODULE Frontend ----------------------------
(* The resource tree, the WorkerTree scheduler and the watch loop (C10, C11).            *)
(* Nodes are graph slots: petgraph StableGraph indices are REUSED (most recently freed  *)
(* first), which is what makes stale indices in `external_dependencies` observable.     *)
(* One spec, named deviation flags: every flag FALSE = the ideal design (satisfies all  *)
(* invariants); a flag TRUE = one place where the code departs from it (DESIGN.md 4.8). *)
EXTENDS Integers, Sequences, FiniteSets, TLC, SequencesExt

CONSTANTS DevEarlyReturn,        \* process returns before clean_files when nothing is pending
          DevDirKeepsExt,        \* remove_source(dir) drops nodes without unlinking them from external_dependencies
          DevCleanAfterWrite,    \* a re-added source keeps its output queued for deletion
          DevDepsOnSuccessOnly,  \* dependencies are recorded only for modules that loaded
          DevDepsOnExistingOnly, \* dependencies are recorded only for modules that exist (a missing module is not tracked)
          DevCreateNoNotify,     \* a Create event only runs collect_work; dependents of the new file are not restarted
          DevRmdirNoRestart,     \* remove_source(dir) does not restart the work items that depend on a file of that directory
          Sources, Modules, DirOf, Dirs, Requires, Configs, SerKey, Eff, MaxVer, MaxSteps, MaxIdx,
          Reach(_, _)            \* Reach(inp, s): the modules the bundler meets from s under the contents inp (transitive; see the universe)

Files == Sources \cup Modules
NoVer == -1
NoStamp == [v |-> -1, c |-> "none", d |-> {}]
Vacant == [p |-> "", st |-> "vacant", deps |-> {}]
Idx == 1..MaxIdx

VARIABLES inp, out, slots, free, extmap, removeq, lasthash, cfg, fresh, panicked, steps
vars == <<inp, out, slots, free, extmap, removeq, lasthash, cfg, fresh, panicked, steps>>

Exists(f) == inp[f] # NoVer
Good(f)   == Exists(f) /\ inp[f] > 0
Live(i)   == slots[i].st # "vacant"
HasNode(p) == \E i \in Idx : Live(i) /\ slots[i].p = p
NodeOf(p) == CHOOSE i \in Idx : Live(i) /\ slots[i].p = p

Stamp(s, c) ==
  IF ~Good(s) THEN NoStamp
  ELSE IF \E m \in Reach(inp, s) : ~Good(m) THEN NoStamp
  ELSE [v |-> inp[s], c |-> Eff[c][s], d |-> {<<m, inp[m]>> : m \in Reach(inp, s)}]   \* Eff: what configuration c amounts to ON FILE s (rule filters)
Expected == [s \in Sources |-> IF Exists(s) THEN Stamp(s, cfg) ELSE NoStamp]

\* insert_source: reuse most recently freed slot, else the lowest never-used one
AddNode(sl, fr, p) ==
  IF fr # <<>> THEN [sl |-> [sl EXCEPT ![Head(fr)] = [p |-> p, st |-> "new", deps |-> {}]], fr |-> Tail(fr)]
  ELSE LET i == CHOOSE j \in Idx : ~(sl[j].st # "vacant") /\ \A k \in Idx : k < j => sl[k].st # "vacant" IN
       [sl |-> [sl EXCEPT ![i] = [p |-> p, st |-> "new", deps |-> {}]], fr |-> fr]

RECURSIVE AddAll(_, _, _)
AddAll(sl, fr, ps) == IF ps = {} THEN [sl |-> sl, fr |-> fr]
                      ELSE LET p == CHOOSE x \in ps : TRUE IN LET r == AddNode(sl, fr, p) IN AddAll(r.sl, r.fr, ps \ {p})

Init ==
  /\ inp \in [Files -> {1}]
  /\ out = [s \in Sources |-> NoStamp]
  /\ LET r == AddAll([i \in Idx |-> Vacant], <<>>, Sources) IN slots = r.sl /\ free = r.fr
  /\ extmap = [f \in Files |-> {}]
  /\ removeq = {}
  /\ lasthash = "none"
  /\ cfg \in Configs
  /\ fresh = FALSE /\ panicked = FALSE /\ steps = 0

\* restart_work(root) for each root in is: panics on a vacant slot; unlinks ROOT from the extmap entries of its deps; resets it
Restart(is, sl, em) ==
  [ sl |-> [i \in Idx |-> IF i \in is THEN [sl[i] EXCEPT !.st = "new", !.deps = {}] ELSE sl[i]],
    em |-> [f \in Files |-> em[f] \ {i \in is : f \in sl[i].deps}] ]
WouldPanic(is, sl) == \E i \in is : sl[i].st = "vacant"

Tick == steps' = steps + 1 /\ steps < MaxSteps /\ ~panicked /\ fresh' = FALSE /\ lasthash # "none"

Edit(f) ==   \* modify event -> source_changed(f)
  /\ Tick /\ Exists(f)
  /\ \E v \in 0..MaxVer : v # inp[f] /\ inp' = [inp EXCEPT ![f] = v]
  /\ LET own == IF HasNode(f) THEN {NodeOf(f)} ELSE {} IN
     LET r1 == Restart(own, slots, extmap) IN
     LET ext == r1.em[f] IN
     IF WouldPanic(ext, r1.sl) THEN panicked' = TRUE /\ UNCHANGED <<slots, extmap>>
     ELSE LET r2 == Restart(ext, r1.sl, r1.em) IN slots' = r2.sl /\ extmap' = r2.em /\ UNCHANGED panicked
  /\ UNCHANGED <<out, free, removeq, lasthash, cfg>>

Add(f) ==    \* create event -> collect_work (add_source_if_missing); ideal: dependents of f are restarted too
  /\ Tick /\ ~Exists(f)
  /\ \E v \in 1..MaxVer : inp' = [inp EXCEPT ![f] = v]
  /\ LET ext == IF DevCreateNoNotify THEN {} ELSE extmap[f] IN
     LET r0 == Restart(ext \cap {i \in Idx : Live(i)}, slots, extmap) IN
     /\ IF f \in Sources /\ ~HasNode(f)
        THEN LET r == AddNode(r0.sl, free, f) IN slots' = r.sl /\ free' = r.fr
        ELSE slots' = r0.sl /\ UNCHANGED free
     /\ extmap' = r0.em
     /\ removeq' = IF DevCleanAfterWrite THEN removeq ELSE removeq \ {f}
  /\ UNCHANGED <<out, lasthash, cfg, panicked>>

RemoveFile(f) ==   \* remove event on a file -> remove_source(f)
  /\ Tick /\ Exists(f)
  /\ inp' = [inp EXCEPT ![f] = NoVer]
  /\ IF HasNode(f)
     THEN LET i == NodeOf(f) IN
          LET r1 == Restart({i}, slots, extmap) IN
          LET sl1 == [r1.sl EXCEPT ![i] = Vacant] IN
          LET ext == r1.em[f] IN
          IF WouldPanic(ext, sl1) THEN panicked' = TRUE /\ UNCHANGED <<slots, free, extmap, removeq>>
          ELSE LET r2 == Restart(ext, sl1, r1.em) IN
               /\ slots' = r2.sl /\ extmap' = r2.em /\ free' = <<i>> \o free
               /\ removeq' = removeq \cup {f} /\ UNCHANGED panicked
     ELSE LET ext == extmap[f] IN
          IF WouldPanic(ext, slots) THEN panicked' = TRUE /\ UNCHANGED <<slots, free, extmap, removeq>>
          ELSE LET r2 == Restart(ext, slots, extmap) IN
               slots' = r2.sl /\ extmap' = r2.em /\ UNCHANGED <<free, removeq, panicked>>
  /\ UNCHANGED <<out, lasthash, cfg>>

RECURSIVE FreeAll(_, _)
FreeAll(fr, is) == IF is = {} THEN fr ELSE LET i == CHOOSE x \in is : TRUE IN FreeAll(<<i>> \o fr, is \ {i})

RemoveDir(d) ==   \* remove event on a directory -> remove_source(dir): nodes dropped WITHOUT restart_work
  /\ Tick /\ \E f \in Files : DirOf[f] = d /\ Exists(f)
  /\ LET gone == {f \in Files : DirOf[f] = d} IN
     LET gi == {i \in Idx : Live(i) /\ slots[i].p \in gone} IN
     LET sl1 == [i \in Idx |-> IF i \in gi THEN Vacant ELSE slots[i]] IN
     LET em1 == IF DevDirKeepsExt THEN extmap ELSE [f \in Files |-> extmap[f] \ gi] IN
     \* ideal: the surviving work items that depend on a file of the directory are restarted (their dependency is gone)
     LET dependents == IF DevRmdirNoRestart THEN {} ELSE (UNION {em1[f] : f \in gone}) \cap {i \in Idx : sl1[i].st # "vacant"} IN
     LET r == Restart(dependents, sl1, em1) IN
     /\ inp' = [f \in Files |-> IF f \in gone THEN NoVer ELSE inp[f]]
     /\ slots' = r.sl
     /\ \E ord \in SetToSeqs(gi) : free' = ord \o free   \* HashMap iteration order in remove_source: ANY order (SequencesExt)
     /\ removeq' = removeq \cup {slots[i].p : i \in gi}
     /\ extmap' = r.em
  /\ UNCHANGED <<out, lasthash, cfg, panicked>>

ChangeConfig ==
  /\ Tick /\ \E c \in Configs : c # cfg /\ cfg' = c
  /\ UNCHANGED <<inp, out, slots, free, extmap, removeq, lasthash, panicked>>

Process ==
  /\ steps' = steps + 1 /\ steps < MaxSteps /\ ~panicked
  /\ LET key == SerKey[cfg] IN
     LET changed == lasthash # "none" /\ lasthash # key IN
     LET sl0 == IF changed THEN [i \in Idx |-> IF Live(i) THEN [slots[i] EXCEPT !.st = "new", !.deps = {}] ELSE slots[i]] ELSE slots IN
     LET em0 == IF changed THEN [f \in Files |-> {}] ELSE extmap IN
     LET pend == {i \in Idx : sl0[i].st = "new"} IN
     /\ lasthash' = key
     /\ IF pend = {} /\ DevEarlyReturn
        THEN slots' = sl0 /\ extmap' = em0 /\ UNCHANGED <<out, removeq>>    \* early return skips clean_files
        ELSE LET res == [i \in pend |-> Stamp(sl0[i].p, cfg)] IN
             LET deps == [i \in pend |-> IF ~Good(sl0[i].p) THEN (IF DevDepsOnSuccessOnly \/ DevDepsOnExistingOnly THEN {} ELSE Requires[sl0[i].p])
                                        ELSE IF DevDepsOnSuccessOnly THEN {m \in Reach(inp, sl0[i].p) : Good(m)}
                                        ELSE IF DevDepsOnExistingOnly THEN {m \in Reach(inp, sl0[i].p) : Exists(m)}
                                        ELSE Reach(inp, sl0[i].p)] IN
             LET written == {sl0[i].p : i \in {j \in pend : res[j] # NoStamp}} IN
             /\ slots' = [i \in Idx |-> IF i \in pend THEN [sl0[i] EXCEPT !.st = IF res[i] = NoStamp THEN "err" ELSE "ok", !.deps = deps[i]] ELSE sl0[i]]
             /\ extmap' = [f \in Files |-> em0[f] \cup {i \in pend : f \in deps[i]}]
             \* writes happen in the work loop, deletions (clean_files) afterwards
             /\ out' = [s \in Sources |-> IF s \in removeq /\ (DevCleanAfterWrite \/ s \notin written) THEN NoStamp
                                          ELSE IF s \in written THEN Stamp(s, cfg) ELSE out[s]]
             /\ removeq' = {}
  /\ fresh' = TRUE
  /\ UNCHANGED <<inp, free, cfg, panicked>>

Next == (\E f \in Files : Edit(f) \/ Add(f) \/ RemoveFile(f)) \/ (\E d \in Dirs : RemoveDir(d)) \/ ChangeConfig \/ Process
Spec == Init /\ [][Next]_vars

NoPanic == ~panicked
IncrementalEqualsFresh == fresh => \A s \in Sources : (Exists(s) /\ Expected[s] # NoStamp => out[s] = Expected[s]) /\ (~Exists(s) => out[s] = NoStamp)
=============================================================================
