------------------------------- MODULE Pipeline -------------------------------
(* Configurations (C12, also used by C01/C04): sequences of at most MaxLen rules drawn from ALL 32 rules,  *)
(* each with a property variant, x generator x column span; and the LIFECYCLE every run must follow:        *)
(*                                                                                                          *)
(*   parse --ok--> rules --ok--> generate --> written --reparse ok--> Accept                                *)
(*     \--err(value naming the file)--> Accept        rules --err(value naming the file)--> Accept          *)
(*                                                                                                          *)
(* A panic, a hang (watchdog) or an output that does not parse again is NOT a behaviour of the lifecycle.    *)
EXTENDS Integers, Sequences, TLC

\* every rule name; rules that need or accept properties appear once per variant (json5 text of the rule entry)
Rules == <<
  "'append_text_comment:start'", "'append_text_comment:end'", "'compute_expression'", "'convert_function_to_assignment'",
  "'convert_index_to_field'", "'convert_local_function_to_assign'", "'convert_luau_number'", "'convert_require'",
  "'convert_square_root_call'", "'filter_after_early_return'", "'group_local_assignment'", "'inject_global_value'",
  "'make_assignment_local'", "'remove_assertions'", "'remove_assertions:drop'", "'remove_attribute'", "'remove_comments'", "'remove_comments:except'",
  "'remove_compound_assignment'", "'remove_debug_profiling'", "'remove_empty_do'", "'remove_floor_division'",
  "'remove_function_call_parens'", "'remove_interpolated_string'", "'remove_interpolated_string:tostring'", "'remove_method_call'",
  "'remove_method_definition'", "'remove_nil_declaration'", "'remove_spaces'", "'remove_types'", "'remove_unused_if_branch'",
  "'remove_unused_variable'", "'remove_unused_while'", "'rename_variables'", "'rename_variables:functions'", "'remove_if_expression'", "'remove_continue'" >>
Generators == << "retain_lines", "dense:0", "dense:1", "dense:80", "readable:0", "readable:1", "readable:80" >>

\* ---- lifecycle of one run (one file, one configuration)
Events == {"parse_ok", "parse_err", "rules_ok", "rules_err", "written", "reparse_ok", "reparse_fail", "panic", "hang", "err_unnamed"}
LifeInit == "start"
LifeNext(s, e) ==
  CASE s = "start"   /\ e = "parse_ok"   -> "parsed"
    [] s = "start"   /\ e = "parse_err"  -> "accept"
    [] s = "parsed"  /\ e = "rules_ok"   -> "transformed"
    [] s = "parsed"  /\ e = "rules_err"  -> "accept"
    [] s = "transformed" /\ e = "written" -> "written"
    [] s = "written" /\ e = "reparse_ok" -> "accept"
    [] OTHER -> "reject"
RECURSIVE RunLife(_, _, _)
RunLife(s, evs, k) == IF k > Len(evs) THEN s ELSE RunLife(LifeNext(s, evs[k]), evs, k + 1)
Accepted(evs) == RunLife(LifeInit, evs, 1) = "accept"
=============================================================================
