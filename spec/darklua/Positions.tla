------------------------------- MODULE Positions -------------------------------
(* C07: "each Luau-lowering rule removes every occurrence of its construct, wherever it   *)
(* was nested".  The quantifier over syntactic positions is made explicit: every Luau     *)
(* construct is placed in every expression position / statement position of the grammar   *)
(* (function bodies, table constructors, call arguments, conditions, loop headers, index   *)
(* keys, inside another instance of the same construct, inside another Luau construct,     *)
(* inside `typeof(...)` of a type annotation, inside closures nested in expressions).      *)
(* A case is a program text; the census of Luau constructs (counted by the independent     *)
(* parser) must be positive in the input and zero in the output of the rule that targets   *)
(* the construct; after all rules the text must be accepted by a strict Lua 5.1 grammar.   *)
EXTENDS Integers, Sequences, TLC

\* ---- expression-level constructs: <<construct, text>>; `c`, `a`, `b`, `t` are declared by the prelude
ExprConstructs == <<
  <<"if_expression", "if c then a else b">>,
  <<"if_expression", "if c then a elseif b then 1 else 2">>,
  <<"if_expression", "if (if c then a else b) then 1 else (if a then 2 else 3)">>,
  <<"interpolated_string", "`x{c}y`">>,
  <<"interpolated_string", "`{a}{b}`">>,
  <<"interpolated_string", "`p{`q{c}r`}s`">>,
  <<"floor_division", "a // b">>,
  <<"floor_division", "(a // b) // (c // 2)">>,
  <<"luau_number", "1_000">>,
  <<"luau_number", "0b1010 + 0B11 + 0x_ff + 1e1_0">>,
  <<"type_syntax", "c :: any">>,
  <<"type_syntax", "(c :: any) :: number?">>,
  <<"type_syntax", "function(p: number, ...: string): (number, ...string) return p end">>,
  <<"type_syntax", "function<T, U...>(p: T, ...: U...): T return p end">>,
  <<"if_expression", "`{if c then a else b}`">>,
  <<"interpolated_string", "if c then `{a}` else `{b}`">>,
  <<"floor_division", "if c then a // b else `{a // b}`">>,
  <<"if_expression", "function() return if c then a else b end">>,
  <<"interpolated_string", "{`k{a}`, [`{b}`] = `{c}`}">>
>>

\* ---- expression positions: <<before, after>>
ExprPositions == <<
  <<"return ", "">>, <<"return 1, ", "">>, <<"return (", ")">>,
  <<"local v = ", "">>, <<"local v, w = 1, ", "">>, <<"a = ", "">>, <<"a, b = b, ", "">>,
  <<"t.k = ", "">>, <<"t[", "] = 1">>, <<"ext1(t[", "])">>, <<"ext1(t[", "].k)">>,
  <<"ext1(", ")">>, <<"ext1(1, ", ", 2)">>, <<"t:m(", ")">>, <<"ext1 { ", " }">>,
  <<"ext1({", "})">>, <<"ext1({k = ", "})">>, <<"ext1({[", "] = 1})">>, <<"ext1({1, ", "; 2})">>,
  <<"if ", " then ext1() end">>, <<"if a then ext1() elseif ", " then ext1() end">>,
  <<"while ", " do break end">>, <<"repeat ext1() until ", "">>,
  <<"for i = ", ", 2 do end">>, <<"for i = 1, ", " do end">>, <<"for i = 1, 2, ", " do end">>,
  <<"for k, v in ext1(", ") do end">>, <<"for k, v in ", ", t do end">>,
  <<"ext1(-", ")">>, <<"ext1(not ", ")">>, <<"ext1(#", ")">>, <<"ext1(1 + ", ")">>, <<"ext1(", " .. 's')">>,
  <<"ext1(", " and 1 or 2)">>, <<"ext1((", "))">>,
  \* the RIGHT operand of every binary operator family (unparenthesised), also at the end of a chain and of a compound assignment
  <<"ext1('s' .. ", ")">>, <<"ext1(a .. b .. ", ")">>, <<"ext1(2 ^ ", ")">>, <<"ext1(a and ", ")">>, <<"ext1(a or ", ")">>, <<"ext1(a == ", ")">>,
  <<"ext1(a < ", ")">>, <<"ext1(a * ", ")">>, <<"a ..= ", "">>, <<"a ..= 's' .. ", "">>, <<"return 's' .. ", "">>,
  <<"ext1(function() return ", " end)">>, <<"ext1(function() ext1(", ") end)">>,
  <<"local function g(p) return ", " end">>, <<"function t.f(p) return p, ", " end">>, <<"function t:mm() return ", " end">>,
  <<"a += ", "">>, <<"t[", "] += 1">>,
  <<"local v: typeof(", ") = 1">>, <<"type TT = typeof(", ")">>, <<"ext1(1 :: typeof(", "))">>,
  <<"ext1(if a then ", " else 1)">>, <<"ext1(if ", " then 1 else 2)">>, <<"ext1(`{", "}`)">>,
  <<"ext1(", " // 2)">>, <<"const kk = ", "">>,
  \* surplus values: more expressions than names (evaluated and discarded, but still part of the program)
  <<"local v = 1, ", "">>, <<"local v, w = 1, 2, 3, ", "">>, <<"local v = ext1(), ", ", 2">>,
  <<"a = 1, ", "">>, <<"a, b = 1, 2, ", ", 3">>, <<"t.k = 1, ", "">>, <<"const kk = 1, ", "">>,
  <<"for k, v in ext1(), t, 1, 2, ", " do end">>, <<"local v = 1, function() return ", " end">>
>>

\* ---- statement-level constructs
StmtConstructs == <<
  <<"compound_assign", "a += 1">>,
  <<"compound_assign", "t.k ..= 's'">>,
  <<"compound_assign", "t[a] //= 2">>,
  <<"compound_assign", "t.k.j[a] -= b">>,
  <<"floor_division", "a //= 2">>,
  <<"continue_stmt", "for i = 1, 2 do if c then continue end ext1(i) end">>,
  <<"continue_stmt", "while c do c = nil if a then continue end ext1() end">>,
  <<"continue_stmt", "repeat if a then continue end ext1() until true">>,
  <<"continue_stmt", "for k, v in ext1() do for i = 1, 2 do if c then continue end end if a then continue end end">>,
  <<"continue_stmt", "for i = 1, 2 do local g = function() for j = 1, 2 do continue end end continue end">>,
  \* a closure in the HEADER of the loop whose body continues
  <<"continue_stmt", "for k, v in ext1(function() end) do if c then continue end end">>,
  <<"continue_stmt", "for i = 1, ext1(function() return 1 end) do if c then continue end end">>,
  <<"continue_stmt", "while ext1(function() end) do c = nil if a then continue end break end">>,
  <<"continue_stmt", "repeat if a then continue end until ext1(function() end)">>,
  <<"const_decl", "const kc = 1">>,
  <<"const_decl", "const k1, k2 = 1, 2">>,
  <<"const_decl", "const function cf() return 1 end">>,
  <<"type_syntax", "local tv: number = 1">>,
  <<"type_syntax", "local tv: {x: number, [string]: boolean}, tw: (number) -> ()? = {}, nil">>,
  <<"type_syntax", "type Alias<T> = {T} | nil">>,
  <<"type_syntax", "export type Exported = number & any">>,
  <<"type_syntax", "local function tf<T>(p: T, ...: any): (T, ...any) return p, ... end">>,
  <<"type_syntax", "function t.tg(p: number?): number return p end">>,
  <<"type_syntax", "for i: number = 1, 2 do end">>,
  <<"type_syntax", "for k: string, v: any in ext1() do end">>,
  <<"type_syntax", "ext1(t.f<<number>>(1))">>,
  <<"attributes", "@native local function nf() end">>,
  <<"attributes", "@native function t.ng() end">>
>>

\* ---- statement positions: <<before, after>>
StmtPositions == <<
  <<"", "">>,
  <<"do ", " end">>,
  <<"if a then ", " end">>, <<"if a then ext1() else ", " end">>, <<"if a then ext1() elseif b then ", " end">>,
  <<"while a do a = nil ", " end">>, <<"repeat ", " until true">>,
  <<"for i = 1, 2 do ", " end">>, <<"for k, v in ext1() do ", " end">>,
  <<"local function g() ", " end">>, <<"function t.f() ", " end">>, <<"function t:mm() ", " end">>,
  <<"ext1(function() ", " end)">>, <<"local o = {f = function() ", " end}">>,
  <<"for i = 1, 2 do if c then continue end ", " end">>,
  <<"local g = if a then function() ", " end else nil">>,
  <<"local g = nil, function() ", " end">>, <<"a = nil, function() ", " end">>
>>

\* ---- expression WRAPPERS: an expression around an expression (second nesting level): <<before, after>>
Wrappers == <<
  <<"(", ")">>, <<"-", "">>, <<"not ", "">>, <<"{", "}">>, <<"{k = ", "}">>, <<"{[", "] = 1}">>, <<"ext1(", ")">>, <<"t[", "]">>, <<"t[", "].k">>,
  <<"function() return ", " end">>, <<"(function() return ", " end)()">>, <<"function() ext1(", ") end">>,
  <<"if c then ", " else nil">>, <<"if ", " then 1 else 2">>, <<"`{", "}`">>, <<"`a{b}{", "}`">>, <<"", " :: any">>, <<"", " .. 'x'">>, <<"'x' .. ", "">>, <<"1 + ", "">>,
  <<"", " and 1 or 2">>, <<"", " // 2">>, <<"t:m(", ")">>, <<"ext1 { ", " }">>, <<"ext1(1, ", ", 2)">>, <<"{1, ", "; 2}">> >>

Prelude == "local a, b, c, t = ext1(), ext1(), ext1(), extt()\n"
\* ---- SIBLINGS: statements visited before (or after) the construct in the same block.  A rule keeps state while it walks
\* (loop stacks, scopes, counters): what it met earlier must not change what it does with the construct.
Siblings == <<
  "ext1(function() end)", "t:m(function() return 1 end)", "ext1 { f = function() end }", "ext1(1, function(...) return ... end)",
  "local q = function() end", "local function q() end", "function t.q() end", "function t:qq() end",
  "for j = 1, 2 do end", "for kk in ext1() do end", "while false do end", "repeat until true", "do end", "if a then end",
  "ext1(function() for j = 1, 2 do end end)", "ext1(function() return function() end end)", "a = {function() end, function() end}",
  "ext1(t.k(function() end)(function() end))", "local q = (function() end)()" >>
\* `continue` with the sibling INSIDE the loop, before the block that continues: <<before, after>>
SibContinue == <<
  <<"for i = 1, 2 do ", " if c then continue end ext1(i) end">>,
  <<"while c do c = nil ", " do continue end end">>,
  <<"repeat ", " if a then continue end until true">>,
  <<"for i = 1, 2 do if a then ", " continue end end">>,
  <<"for i = 1, 2 do if c then continue end ", " if a then continue end end">>,
  <<"for k, v in ext1() do ", " if a then ext1() else continue end end">> >>
SibPositions == {1, 8, 13}
SibCase(p, sib, s, order) == Prelude \o p[1] \o (IF order = 1 THEN sib \o " " \o s ELSE s \o " " \o sib) \o p[2] \o "\n"
SibContCase(p, sib, sc) == Prelude \o p[1] \o sc[1] \o sib \o sc[2] \o p[2] \o "\n"
\* three levels: statement position [ expression position [ wrapper [ construct ] ] ]
DeepCase(sp, p, w, e) == Prelude \o sp[1] \o p[1] \o w[1] \o e \o w[2] \o p[2] \o sp[2] \o "\n"
\* positions that are complete statements usable inside every statement position (no `return`, which must end a block)
IsReturnPos(p) == Len(p[1]) >= 6 /\ SubSeq(p[1], 1, 6) = "return"
ExprCase(p, e) == Prelude \o p[1] \o e \o p[2] \o "\n"
StmtCase(p, s) == Prelude \o p[1] \o s \o p[2] \o "\n"
ExprInStmtCase(p, e) == Prelude \o p[1] \o "ext1(" \o e \o ")" \o p[2] \o "\n"
=============================================================================
