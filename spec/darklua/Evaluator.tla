------------------------------ MODULE Evaluator ------------------------------
(* C08 -- "static evaluation never disagrees with real execution".                        *)
(*                                                                                        *)
(* This module is NOT a transcription of darklua's evaluator. It holds                    *)
(*   1. the expression language of the property as TEXT: leaf alphabet, operator classes, *)
(*      and the exhaustive enumeration by depth (AllCases(tier)), printed by MC_Evaluator; *)
(*   2. the concretisation of opaque leaves: the finite universe of values an identifier  *)
(*      may hold, the argument lists `...` may stand for, and Concretise(P, nx, va, rho)   *)
(*      which instantiates a template program (node table, NODEFORMAT.md) for one rho;     *)
(*   3. the soundness relation between an ANSWER of the evaluator                          *)
(*        [vt, hi, lo, s, se, multi]   (vt: nil true false num str table function unknown) *)
(*      and the RESULT of one execution under the TLA+ semantics LuaSem                    *)
(*        [st, ret, nlog, meta]        (ret: rendered values [t, hi, lo, s, sh])           *)
(*      ValueMatches / ClauseV / ClauseS / ClauseM / SoundRun / Sound, used by the trace    *)
(*      specification spec/trace/EvalTrace.tla which executes the programs.                *)
EXTENDS Integers, Sequences, FiniteSets, SequencesExt, LuaStr

Mx(a, b) == IF a > b THEN a ELSE b

\* ============================================================================ 1. expressions as text
\* an expression under construction: e = text usable as an OPERAND (composite operands are written in
\* parentheses by the constructors below), ux/uy/uv = 1 iff the identifier x / y / `...` occurs
Lf(t)            == [e |-> t, ux |-> 0, uy |-> 0, uv |-> 0]
Op(t, x, y, v)   == [e |-> t, ux |-> x, uy |-> y, uv |-> v]
Mk(t, a, b)      == [e |-> t, ux |-> Mx(a.ux, b.ux), uy |-> Mx(a.uy, b.uy), uv |-> Mx(a.uv, b.uv)]
Mk3(t, a, b, c)  == Mk(t, Mk("", a, b), c)
Par(a)           == [a EXCEPT !.e = "(" \o a.e \o ")"]
Bin(op, a, b)    == Mk(a.e \o " " \o op \o " " \o b.e, a, b)
Un(op, a)        == [a EXCEPT !.e = (IF op = "not" THEN "not " ELSE op) \o a.e]
Cast(a)          == [a EXCEPT !.e = a.e \o " :: any"]
IfE(c, a, b)     == Mk3("if " \o c.e \o " then " \o a.e \o " else " \o b.e, c, a, b)
IfEE(c, a, d, b, z) == Mk3("if " \o c.e \o " then " \o a.e \o " elseif " \o d.e \o " then " \o b.e \o " else " \o z.e, Mk("", c, a), Mk("", d, b), z)
\* interpolated strings with <= 2 segments (a value is written `{ v }`: `{{` is a syntax error in Luau)
Seg(v)           == "{ " \o v.e \o " }"
Interp1(v)       == [v EXCEPT !.e = "`" \o Seg(v) \o "`"]
InterpLV(l, v)   == [v EXCEPT !.e = "`" \o l \o Seg(v) \o "`"]
InterpVL(v, l)   == [v EXCEPT !.e = "`" \o Seg(v) \o l \o "`"]
InterpVV(v, w)   == Mk("`" \o Seg(v) \o Seg(w) \o "`", v, w)

\* ---------------------------------------------------------------- leaf alphabet (from the property text)
\* negative literals and the three divisions are written in parentheses so that they stay ONE operand
NumAll  == {Lf("0"), Lf("(-0)"), Lf("1"), Lf("(-1)"), Lf("0.5"), Lf("2"), Lf("3"), Lf("1e308"), Lf("5e-324"),
            Lf("0.1"), Lf("1e15"), Lf("1e-7"), Lf("255"), Lf("(1/0)"), Lf("(-1/0)"), Lf("(0/0)")}
NumCore == {Lf("0"), Lf("(-0)"), Lf("1"), Lf("(-1)"), Lf("0.5"), Lf("3"), Lf("1e308"), Lf("5e-324"), Lf("(1/0)"), Lf("(0/0)")}
NumFmt  == {Lf("0"), Lf("(-0)"), Lf("1"), Lf("0.5"), Lf("0.1"), Lf("1e15"), Lf("1e-7"), Lf("1e308"), Lf("(1/0)"), Lf("(0/0)")}
NumCmp  == {Lf("0"), Lf("(-0)"), Lf("1"), Lf("(1/0)"), Lf("(0/0)")}
NStrAll == {Lf("\"1\""), Lf("\" 2 \""), Lf("\"0x10\""), Lf("\"1e1\"")}
\* further numeric-looking strings (thorough tier): what darklua's own number syntax accepts vs. what Lua's coercion accepts
NStrExtra == {Lf("\"-1\""), Lf("\".5\""), Lf("\"0b1\""), Lf("\"1_0\""), Lf("\"\\t1\\n\""), Lf("\"0x\""), Lf("\"1e\""), Lf("\"- 1\"")}
\* literals whose VALUE depends on how escapes are read: `\z` followed by ASCII blanks (skipped), by a vertical tab (skipped: C's
\* isspace), by U+00A0 / U+0085 (NOT skipped: their UTF-8 bytes are not blanks for Lua), and hex / unicode / decimal escapes
StrEsc  == {Lf("\"a\\z   b\""), Lf(StrOfBytes(<<34, 97, 92, 122, 32, 160, 98, 34>>)), Lf(StrOfBytes(<<34, 92, 122, 133, 34>>)),
            Lf(StrOfBytes(<<34, 97, 92, 122, 11, 98, 34>>)), Lf("\"\\u{e9}\\x41\\065\""),
            \* long brackets: exactly ONE line break after the opening bracket is skipped
            Lf("[[\nab]]"), Lf("[[\n\nab]]"), Lf("[==[\n\n\n]==]"), Lf("[[ab\n]]"), Lf("[=[\n]]\n]=]")}
StrAll  == {Lf("\"\""), Lf("\"a\""), Lf("\"abc\""), Lf("\"\\255\"")} \cup StrEsc
StrCore == {Lf("\"\""), Lf("\"a\""), Lf("\"\\255\"")}
MiscAll == {Lf("nil"), Lf("true"), Lf("false"), Lf("{}"), Lf("{1}"), Lf("function() end")}
OpqAll  == {Op("x", 1, 0, 0), Op("y", 0, 1, 0), Op("x.k", 1, 0, 0), Op("x[1]", 1, 0, 0), Op("x()", 1, 0, 0),
            Op("x:m()", 1, 0, 0), Op("...", 0, 0, 1)}
OpqCore == {Op("x", 1, 0, 0), Op("x.k", 1, 0, 0), Op("x()", 1, 0, 0)}
OpqMid  == {Op("x", 1, 0, 0), Op("y", 0, 1, 0), Op("x.k", 1, 0, 0), Op("x()", 1, 0, 0), Op("...", 0, 0, 1)}
AllLeaves == NumAll \cup NStrAll \cup StrAll \cup MiscAll \cup OpqAll
Pick(S, names) == {r \in S : r.e \in names}

ArithOps == {"+", "-", "*", "/", "%", "^", "//"}
CmpOps   == {"==", "~=", "<", "<=", ">", ">="}
AllBinOps == ArithOps \cup CmpOps \cup {"..", "and", "or"}
UnOps    == {"-", "not", "#"}

\* leaf sets per operator class and tier
ArithL(t) == IF t = "quick" THEN NumCore \cup Pick(NStrAll, {"\" 2 \"", "\"0x10\""}) \cup Pick(StrAll, {"\"a\""}) \cup OpqCore \cup Pick(MiscAll, {"nil", "{}"})
             ELSE NumAll \cup NStrAll \cup NStrExtra \cup Pick(StrAll, {"\"\"", "\"a\""}) \cup OpqAll \cup Pick(MiscAll, {"nil", "true", "{}"})
CmpL(t)   == IF t = "quick" THEN NumCmp \cup StrCore \cup Pick(NStrAll, {"\"1\""}) \cup Pick(OpqAll, {"x", "x()"}) \cup Pick(MiscAll, {"nil", "true", "{}"})
             ELSE NumAll \cup StrAll \cup NStrAll \cup OpqAll \cup MiscAll
CatL(t)   == IF t = "quick" THEN NumFmt \cup StrCore \cup Pick(NStrAll, {"\"1\""}) \cup Pick(OpqAll, {"x", "x()"}) \cup Pick(MiscAll, {"nil", "{}"})
             ELSE NumAll \cup StrAll \cup NStrAll \cup OpqAll \cup Pick(MiscAll, {"nil", "true", "{}"})
LogL(t)   == IF t = "quick" THEN Pick(AllLeaves, {"nil", "false", "true", "0", "\"a\"", "\"\"", "{}", "function() end", "x", "x()", "...", "x.k"})
             ELSE AllLeaves
CondL(t)  == IF t = "quick" THEN Pick(AllLeaves, {"nil", "false", "true", "0", "x", "x()"})
             ELSE Pick(AllLeaves, {"nil", "false", "true", "0", "\"\"", "{}", "x", "x.k", "x()", "..."})
BranchL(t) == IF t = "quick" THEN Pick(AllLeaves, {"1", "\"a\"", "nil", "x", "x()", "..."})
              ELSE Pick(AllLeaves, {"1", "(-0)", "\"a\"", "nil", "false", "{}", "x", "y", "x()", "..."})
InterpL(t) == IF t = "quick" THEN Pick(AllLeaves, {"nil", "true", "false", "1", "0.5", "(0/0)", "\"a\"", "\"\"", "{}", "function() end", "x", "x()", "..."})
              ELSE AllLeaves
InterpVVL(t) == IF t = "quick" THEN Pick(AllLeaves, {"nil", "true", "1", "\"a\"", "x", "x()"}) ELSE InterpL("quick")
InterpLits == {"a ", "\\n", "\\{"}

\* ---------------------------------------------------------------- families of cases
\* The language is enumerated as a list of FAMILIES. A family is either an explicit list of expressions (E) or a
\* PRODUCT described by its factors (operator lists, operand lists) and decoded by position: the large products
\* (10^4..10^5 members) are never built as sets. Uniform record:
\*   [sh, d, kind, ops, ops2, A, B, C, E]   kind: "list" | "bin" (ops x A x B) | "left3" / "right3" (ops x ops2 x A x B x C)
AsSeq(S) == SetToSeq(S)
ListFam(sh, d, S)            == [sh |-> sh, d |-> d, kind |-> "list", ops |-> <<>>, ops2 |-> <<>>, A |-> <<>>, B |-> <<>>, C |-> <<>>, E |-> AsSeq(S)]
BinFam(sh, d, O, SA, SB)     == [sh |-> sh, d |-> d, kind |-> "bin", ops |-> AsSeq(O), ops2 |-> <<>>, A |-> AsSeq(SA), B |-> AsSeq(SB), C |-> <<>>, E |-> <<>>]
TriFam(sh, d, kd, O, SL)     == [sh |-> sh, d |-> d, kind |-> kd, ops |-> AsSeq(O), ops2 |-> AsSeq(O), A |-> AsSeq(SL), B |-> AsSeq(SL), C |-> AsSeq(SL), E |-> <<>>]
FamSize(f) == CASE f.kind = "list" -> Len(f.E)
                [] f.kind = "bin"  -> Len(f.ops) * Len(f.A) * Len(f.B)
                [] OTHER           -> Len(f.ops) * Len(f.ops2) * Len(f.A) * Len(f.B) * Len(f.C)
\* member k (1-based) of family f, mixed-radix decoding, last factor fastest
FamAt(f, k) ==
  LET z == k - 1 IN
  CASE f.kind = "list" -> f.E[k]
    [] f.kind = "bin"  -> LET ib == z % Len(f.B) IN LET z1 == z \div Len(f.B) IN LET ia == z1 % Len(f.A) IN LET io == z1 \div Len(f.A) IN
                          Bin(f.ops[io + 1], f.A[ia + 1], f.B[ib + 1])
    [] OTHER -> LET ic == z % Len(f.C) IN LET z1 == z \div Len(f.C) IN LET ib == z1 % Len(f.B) IN LET z2 == z1 \div Len(f.B) IN
                LET ia == z2 % Len(f.A) IN LET z3 == z2 \div Len(f.A) IN LET i2 == z3 % Len(f.ops2) IN LET i1 == z3 \div Len(f.ops2) IN
                IF f.kind = "left3" THEN Bin(f.ops2[i2 + 1], Par(Bin(f.ops[i1 + 1], f.A[ia + 1], f.B[ib + 1])), f.C[ic + 1])
                ELSE Bin(f.ops[i1 + 1], f.A[ia + 1], Par(Bin(f.ops2[i2 + 1], f.B[ib + 1], f.C[ic + 1])))

\* ---------------------------------------------------------------- depth 1: one operator over leaves
D1Un        == {Un(op, a) : op \in UnOps, a \in AllLeaves}
D1Par       == {Par(a) : a \in AllLeaves}
D1Cast      == {Cast(a) : a \in AllLeaves}
D1If(t)     == {IfE(c, a, b) : c \in CondL(t), a \in BranchL(t), b \in BranchL(t)}
D1IfElse(t) == LET C == IF t = "quick" THEN Pick(AllLeaves, {"false", "x"}) ELSE Pick(AllLeaves, {"true", "false", "x"}) IN
               LET B == IF t = "quick" THEN Pick(AllLeaves, {"1", "x()"}) ELSE Pick(AllLeaves, {"1", "nil", "x()"}) IN
               {IfEE(c, a, d, b, z) : c \in C, d \in C, a \in B, b \in B, z \in B}
D1Interp(t) == {Lf("`" \o l \o "`") : l \in InterpLits \cup {""}}
               \cup {Interp1(v) : v \in InterpL(t)}
               \cup {InterpLV(l, v) : l \in InterpLits, v \in InterpL(t)}
               \cup {InterpVL(v, "b") : v \in InterpL(t)}
               \cup {InterpVV(v, w) : v \in InterpVVL(t), w \in InterpVVL(t)}

\* ---------------------------------------------------------------- depth 2: operators over a pool of depth-1 operands
\* the pool: representative depth-1 expressions of every result type (number, string, boolean, unknown,
\* multi-value, parenthesised / cast / if / interpolated), written as operands (parenthesised)
X == Op("x", 1, 0, 0)   Y == Op("y", 0, 1, 0)   XC == Op("x()", 1, 0, 0)   VA == Op("...", 0, 0, 1)   XK == Op("x.k", 1, 0, 0)
PoolQuick == {
  Par(Bin("+", Lf("1"), Lf("2"))), Par(Bin("*", Lf("0"), Lf("(-1)"))), Par(Bin("/", Lf("1"), Lf("0"))), Par(Bin("/", Lf("0"), Lf("0"))),
  Par(Bin("%", Lf("(-1)"), Lf("3"))), Par(Bin("+", Lf("\" 2 \""), Lf("1"))), Par(Bin("+", X, Lf("1"))), Par(Un("-", X)), Par(Un("#", Lf("\"abc\""))),
  Par(Bin("..", Lf("\"a\""), Lf("1"))), Par(Bin("..", X, Lf("\"\""))), Par(Bin("..", Lf("0.5"), Lf("\"\""))),
  Par(Bin("<", Lf("1"), Lf("2"))), Par(Bin("==", X, Lf("nil"))), Par(Un("not", X)), Par(Bin("==", Lf("\"1\""), Lf("1"))),
  Par(Bin("and", X, Lf("1"))), Par(Bin("or", Lf("nil"), X)), Par(Bin("and", Lf("true"), XC)), Par(Bin("or", X, Y)),
  Par(XC), Par(VA), Par(Cast(XC)), Par(IfE(X, Lf("1"), Lf("nil"))), Par(IfE(Lf("true"), XC, Lf("2"))), InterpLV("a ", Lf("true")), Interp1(X) }
PoolMore == {
  Par(Bin("-", Lf("0.1"), Lf("0.5"))), Par(Bin("^", Lf("2"), Lf("0.5"))), Par(Bin("^", Lf("3"), Lf("2"))), Par(Bin("//", Lf("(-1)"), Lf("2"))),
  Par(Bin("%", Lf("1"), Lf("(1/0)"))), Par(Bin("*", Lf("1e308"), Lf("3"))), Par(Bin("-", Lf("5e-324"), Lf("5e-324"))), Par(Bin("/", Lf("(-1)"), Lf("0"))),
  Par(Bin("*", Lf("\"0x10\""), Lf("\"1e1\""))), Par(Un("-", Lf("\"1\""))), Par(Un("-", Lf("0"))), Par(Un("#", X)), Par(Un("#", Lf("{}"))),
  Par(Bin("..", Lf("1"), Lf("2"))), Par(Bin("..", Lf("(0/0)"), Lf("\"\""))), Par(Bin("..", Lf("1e15"), Lf("\"\""))), Par(Bin("..", Lf("\"\\255\""), Lf("\"\""))),
  Par(Bin("..", Lf("(-0)"), Lf("\"\""))), Par(Bin("<", Lf("\"a\""), Lf("\"abc\""))), Par(Bin("<=", Lf("(0/0)"), Lf("(0/0)"))), Par(Bin("==", Lf("0"), Lf("(-0)"))),
  Par(Bin("~=", Lf("(0/0)"), Lf("(0/0)"))), Par(Bin("==", Lf("{}"), Lf("{}"))), Par(Bin("<", X, Lf("1"))), Par(Un("not", Lf("nil"))), Par(Un("not", XC)),
  Par(Bin("and", Lf("false"), XC)), Par(Bin("or", Lf("1"), XC)), Par(Bin("and", X, VA)), Par(Bin("or", XK, Lf("\"a\""))), Par(Bin("and", Lf("nil"), Lf("1"))),
  Par(Op("x:m()", 1, 0, 0)), Par(XK), Par(Cast(X)), Par(Cast(Lf("1"))), Par(IfE(Lf("false"), Lf("1"), VA)), Par(IfE(XC, X, Y)),
  InterpVV(Lf("nil"), Lf("\"a\"")), Interp1(Lf("1")), Lf("`\\n`"), Par(Lf("{}")), Par(Lf("function() end")) }
Pool(t) == IF t = "quick" THEN PoolQuick ELSE PoolQuick \cup PoolMore
PoolSmall == {p \in PoolQuick : p.e \in {"(1 + 2)", "(x + 1)", "(\"a\" .. 1)", "(x == nil)", "(x and 1)", "(true and x())", "(x())", "(...)"}}
\* leaves combined with pool members at depth 2
D2Leaf(t) == IF t = "quick" THEN Pick(AllLeaves, {"1", "(-0)", "\" 2 \"", "\"a\"", "nil", "x", "x()"})
             ELSE Pick(AllLeaves, {"0", "1", "(-0)", "0.5", "(0/0)", "\" 2 \"", "\"a\"", "\"\"", "nil", "false", "true", "{}", "x", "y", "x()", "..."})
D2Ops(t)  == IF t = "quick" THEN {"+", "^", "..", "==", "<", "and", "or"} ELSE AllBinOps
D2PPOps(t) == IF t = "quick" THEN {"+", "..", "==", "and", "or"} ELSE AllBinOps
D2Un(t)   == {Un(op, p) : op \in UnOps, p \in Pool(t)}
D2Wrap(t) == {Par(p) : p \in Pool(t)} \cup {Cast(p) : p \in Pool(t)}
D2If(t)   == LET B == IF t = "quick" THEN Pick(AllLeaves, {"1", "x()"}) ELSE Pick(AllLeaves, {"1", "nil", "x()", "..."}) IN
             {IfE(p, a, b) : p \in Pool(t), a \in B, b \in B}
             \cup {IfE(c, p, b) : c \in Pick(AllLeaves, {"true", "false", "x"}), p \in Pool(t), b \in B}
             \cup {IfE(c, a, p) : c \in Pick(AllLeaves, {"true", "false", "x"}), p \in Pool(t), a \in B}
D2Interp(t) == {Interp1(p) : p \in Pool(t)} \cup {InterpLV("a ", p) : p \in Pool(t)}
               \cup {InterpVV(p, l) : p \in Pool(t), l \in Pick(AllLeaves, {"1", "x"})}

\* ---------------------------------------------------------------- depth 3: selected shapes over a small leaf set
D3Leaf(t) == IF t = "quick" THEN Pick(AllLeaves, {"1", "\" 2 \"", "x"}) ELSE Pick(AllLeaves, {"1", "0.5", "\" 2 \"", "nil", "x", "x()"})
D3Ops(t)  == IF t = "quick" THEN {"+", "^", "..", "==", "and", "or"} ELSE AllBinOps
D3Un(t)    == {Un(u, Par(Bin(o, a, b))) : u \in UnOps, o \in D3Ops(t), a \in D3Leaf(t), b \in D3Leaf(t)}
              \cup {Un(u, Par(Un(w, a))) : u \in UnOps, w \in UnOps, a \in AllLeaves}
\* and/or chains WITHOUT parentheses (`a and b or c` is `(a and b) or c`, `a or b and c` is `a or (b and c)`)
ChainL(t)  == IF t = "quick" THEN Pick(AllLeaves, {"nil", "false", "1", "x", "x()"})
              ELSE Pick(AllLeaves, {"nil", "false", "true", "1", "\"a\"", "{}", "x", "y", "x()", "..."})
D3Chain(t) == {Bin(o2, Bin(o1, a, b), c) : o1 \in {"and", "or"}, o2 \in {"and", "or"}, a \in ChainL(t), b \in ChainL(t), c \in ChainL(t)}

\* powers whose mathematical result is a power of two (exactly representable, or clearly out of range): every conforming pow
\* returns exactly that value, however large the exponent; an evaluator that multiplies step by step underflows / overflows
\* on the way (`2 ^ -1074` is the smallest subnormal, not 0)
PowPairs == { <<"2", "(-1074)">>, <<"2", "(-1073)">>, <<"2", "(-1024)">>, <<"2", "(-1023)">>, <<"2", "(-1022)">>, <<"2", "1023">>, <<"2", "1024">>,
              <<"2", "53">>, <<"2", "(-52)">>, <<"2", "63">>, <<"2", "(-63)">>, <<"2", "64">>, <<"2", "(-1100)">>,
              <<"4", "(-537)">>, <<"4", "(-512)">>, <<"4", "511">>, <<"4", "512">>, <<"8", "(-358)">>, <<"8", "(-342)">>, <<"8", "341">>,
              <<"0.5", "1074">>, <<"0.5", "1022">>, <<"0.5", "(-1023)">>, <<"0.5", "(-1024)">>, <<"(-2)", "(-1074)">>, <<"(-2)", "(-1073)">>, <<"(-2)", "1023">>,
              <<"16", "(-268)">>, <<"1024", "(-107)">>, <<"2", "(-1)">>, <<"3", "33">>, <<"10", "22">>, <<"10", "15">>, <<"5", "22">>, <<"7", "18">> }
PowExprs == {Bin("^", Lf(p[1]), Lf(p[2])) : p \in PowPairs}
PowCmp   == {Bin(op, Par(e), z) : op \in {">", "==", "<"}, e \in PowExprs, z \in {Lf("0"), Lf("5e-324"), Lf("(1/0)")}}
            \cup {Bin("*", Par(e), Lf("2")) : e \in PowExprs} \cup {Bin("/", Lf("1"), Par(e)) : e \in PowExprs}
            \cup {Bin("..", Par(Bin(">", Par(e), Lf("0"))), Lf("\"\"")) : e \in PowExprs}

\* ---------------------------------------------------------------- all cases
Families(t) == <<
  ListFam("leaf", 0, AllLeaves),
  ListFam("pow", 1, PowExprs), ListFam("powcmp", 2, PowCmp),
  BinFam("arith", 1, ArithOps, ArithL(t), ArithL(t)), BinFam("cmp", 1, CmpOps, CmpL(t), CmpL(t)),
  BinFam("concat", 1, {".."}, CatL(t), CatL(t)), BinFam("andor", 1, {"and", "or"}, LogL(t), LogL(t)),
  ListFam("unary", 1, D1Un), ListFam("paren", 1, D1Par), ListFam("cast", 1, D1Cast),
  ListFam("ifexp", 1, D1If(t) \cup D1IfElse(t)), ListFam("interp", 1, D1Interp(t)),
  BinFam("d2bin", 2, D2Ops(t), Pool(t), D2Leaf(t)), BinFam("d2bin", 2, D2Ops(t), D2Leaf(t), Pool(t)),
  BinFam("d2bin", 2, D2PPOps(t), IF t = "quick" THEN PoolSmall ELSE Pool(t), IF t = "quick" THEN PoolSmall ELSE PoolQuick),
  ListFam("d2unary", 2, D2Un(t)), ListFam("d2wrap", 2, D2Wrap(t)), ListFam("d2ifexp", 2, D2If(t)), ListFam("d2interp", 2, D2Interp(t)),
  TriFam("d3left", 3, "left3", D3Ops(t), D3Leaf(t)), TriFam("d3right", 3, "right3", D3Ops(t), D3Leaf(t)),
  ListFam("d3unary", 3, D3Un(t)), ListFam("d3chain", 3, D3Chain(t)) >>
RECURSIVE SumSizes(_, _)
SumSizes(F, j) == IF j = 0 THEN 0 ELSE SumSizes(F, j - 1) + FamSize(F[j])
Total(F) == SumSizes(F, Len(F))
Offsets(F) == [j \in 1..Len(F) |-> SumSizes(F, j - 1)]
CaseOf(f, r) == [expr |-> r.e, depth |-> f.d, shape |-> f.sh, ux |-> r.ux, uy |-> r.uy, uv |-> r.uv]
\* case number g (1..Total(F)); off = Offsets(F)
CaseAt(F, off, g) == LET j == CHOOSE q \in 1..Len(F) : off[q] < g /\ g <= off[q] + FamSize(F[q]) IN CaseOf(F[j], FamAt(F[j], g - off[j]))
\* the language of the property at tier t, as a set (never built by the tools: MC_Evaluator walks 1..Total)
AllCases(t) == LET F == Families(t) IN LET off == Offsets(F) IN {CaseAt(F, off, g) : g \in 1..Total(F)}

\* ============================================================================ 2. concretisation of opaque leaves
\* the values an opaque identifier may hold (Lua text of the initialiser); logs = number of external-call log
\* entries the initialiser itself produces (baseline for clause S); loud = 1 iff the value carries a metatable
U(t, logs, loud) == [t |-> t, logs |-> logs, loud |-> loud]
Universe == << U("nil", 0, 0), U("true", 0, 0), U("false", 0, 0), U("0", 0, 0), U("1", 0, 0), U("(0 * -1)", 0, 0),
               U("\"a\"", 0, 0), U("\"1\"", 0, 0), U("{}", 0, 0),
               U("{k = \"v\", [1] = 2, m = function() return 1, 2 end}", 0, 0),
               U("extt()", 1, 1),                              \* table whose metatable logs every metamethod
               U("function() return 1, 2 end", 0, 0),
               U("ext2", 0, 0) >>                              \* external function: calling it is an external call
\* `...` stands for one of these argument lists: positions in the template call f(nil, 1, 2)
VarargText == "nil, 1, 2"
VarargChoice == << <<>>, <<1>>, <<2, 3>> >>

\* Template program (built by the harness from the expression text, parsed by the independent parser):
\*     local <x|y|x, y> = <all universe texts>      -- only when nx > 0
\*     return <e>                                   -- when va = 0
\*     local function f(...) return <e> end  return f(nil, 1, 2)        -- when va = 1
\* rho = <<i1, i2, iv>>: universe index of the 1st / 2nd declared name, vararg choice (0 where not applicable)
TemplateOk(P, nx, va) ==
  LET blk == P.nodes[P.root] IN
  /\ blk.k = "block" /\ Len(blk.l) = (IF nx > 0 THEN 1 ELSE 0) + (IF va = 1 THEN 2 ELSE 1)
  /\ nx > 0 => LET ln == P.nodes[blk.l[1]] IN ln.k = "local" /\ Len(ln.ns) = nx /\ Len(ln.l) = Len(Universe)
  /\ LET rn == P.nodes[blk.l[Len(blk.l)]] IN
     /\ rn.k = "ret" /\ Len(rn.l) = 1
     /\ va = 1 => LET cn == P.nodes[rn.l[1]] IN cn.k = "call" /\ Len(cn.l) = 3
Concretise(P, nx, va, rho) ==
  LET blk == P.nodes[P.root] IN
  LET P1 == IF nx = 0 THEN P
            ELSE LET ln == blk.l[1] IN LET ul == P.nodes[ln].l IN
                 [P EXCEPT !.nodes[ln].l = IF nx = 1 THEN <<ul[rho[1]]>> ELSE <<ul[rho[1]], ul[rho[2]]>>] IN
  IF va = 0 THEN P1
  ELSE LET cn == P.nodes[blk.l[Len(blk.l)]].l[1] IN LET al == P.nodes[cn].l IN LET ch == VarargChoice[rho[3]] IN
       [P1 EXCEPT !.nodes[cn].l = [j \in 1..Len(ch) |-> al[ch[j]]]]
RhoOk(nx, va, rho) == /\ Len(rho) = 3
                      /\ \A j \in 1..2 : IF j <= nx THEN rho[j] \in 1..Len(Universe) ELSE rho[j] = 0
                      /\ IF va = 1 THEN rho[3] \in 1..Len(VarargChoice) ELSE rho[3] = 0
BaseLog(nx, rho) == (IF nx >= 1 THEN Universe[rho[1]].logs ELSE 0) + (IF nx >= 2 THEN Universe[rho[2]].logs ELSE 0)
IsLoud(nx, rho)  == (nx >= 1 /\ Universe[rho[1]].loud = 1) \/ (nx >= 2 /\ Universe[rho[2]].loud = 1)

\* ============================================================================ 3. the soundness relation
\* numbers travel as the two signed 32-bit halves of the binary64 pattern
\* (TLC integers are 32-bit: the sign bit is cleared without ever writing 2^31)
Low31(w) == IF w < 0 THEN (w + 2147483647) + 1 ELSE w
IsNaNBits(hi, lo) == Low31(hi) \div 1048576 = 2047 /\ (Low31(hi) % 1048576 # 0 \/ lo # 0)
Definite(ans)  == ans.vt \in {"nil", "true", "false", "num", "str"}
TypeKnown(ans) == ans.vt \in {"table", "function"}
RNil == [t |-> "nil", hi |-> 0, lo |-> 0, s |-> "", sh |-> <<>>]
\* the value of an expression that yields a value list is its first value (nil when the list is empty)
FirstOf(ret) == IF ret = <<>> THEN RNil ELSE ret[1]
\* rv: rendered value of LuaSem [t, hi, lo, s, sh]. Numbers bit-exact (so -0 # 0), NaN matches NaN, strings byte-exact.
ValueMatches(ans, rv) ==
  CASE ans.vt = "nil"      -> rv.t = "nil"
    [] ans.vt = "true"     -> rv.t = "bool" /\ rv.hi = 1
    [] ans.vt = "false"    -> rv.t = "bool" /\ rv.hi = 0
    [] ans.vt = "num"      -> rv.t = "num" /\ (IF IsNaNBits(ans.hi, ans.lo) THEN IsNaNBits(rv.hi, rv.lo) ELSE rv.hi = ans.hi /\ rv.lo = ans.lo)
    [] ans.vt = "str"      -> rv.t = "str" /\ rv.s = ans.s
    [] ans.vt = "table"    -> rv.t = "tab"
    [] ans.vt = "function" -> rv.t = "fn"
    [] OTHER               -> TRUE
\* r = [st, ret, nlog, meta]; base = log entries produced by the concretisation itself.
\* Outcome of one clause on one run: "na" (the evaluator claims nothing), "none" (the run imposes nothing:
\* error / unspec / fuel), "ok", "viol".
ClauseV(ans, r) == IF ans.vt = "unknown" THEN "na" ELSE IF r.st # "done" THEN "none"
                   ELSE IF ValueMatches(ans, FirstOf(r.ret)) THEN "ok" ELSE "viol"
ClauseS(se, r, base) == IF se # 0 THEN "na" ELSE IF r.st # "done" THEN "none"
                        ELSE IF r.nlog = base /\ r.meta = 0 THEN "ok" ELSE "viol"
ClauseM(ans, r) == IF ans.multi # 0 THEN "na" ELSE IF r.st # "done" THEN "none"
                   ELSE IF Len(r.ret) = 1 THEN "ok" ELSE "viol"
SoundRun(ans, r, base) == ClauseV(ans, r) # "viol" /\ ClauseS(ans.se, r, base) # "viol" /\ ClauseM(ans, r) # "viol"
\* runs: sequence of [r, base], one per concretisation
Sound(ans, runs) == \A k \in DOMAIN runs : SoundRun(ans, runs[k].r, runs[k].base)

\* self-test of the relation (evaluated by TLC at start-up)
ASSUME LET n(hi, lo) == [t |-> "num", hi |-> hi, lo |-> lo, s |-> "", sh |-> <<>>] IN
       LET a(vt, hi, lo, s) == [vt |-> vt, hi |-> hi, lo |-> lo, s |-> s, se |-> 0, multi |-> 0] IN
       /\ ValueMatches(a("num", 0, 0, ""), n(0, 0))
       /\ ~ValueMatches(a("num", 0, 0, ""), n(-2147483647 - 1, 0))                      \* 0 vs -0
       /\ ValueMatches(a("num", -524288, 0, ""), n(2146959360, 0))                    \* NaN (sign set) vs canonical NaN
       /\ ~ValueMatches(a("num", 2146435072, 0, ""), n(2146959360, 0))                \* inf vs NaN
       /\ ~IsNaNBits(2146435072, 0) /\ IsNaNBits(2146435072, 1) /\ ~IsNaNBits(-1048576, 0)
       /\ ClauseV(a("nil", 0, 0, ""), [st |-> "done", ret |-> <<>>, nlog |-> 0, meta |-> 0]) = "ok"
       /\ ClauseV(a("nil", 0, 0, ""), [st |-> "error", ret |-> <<>>, nlog |-> 0, meta |-> 0]) = "none"
       /\ ClauseM(a("nil", 0, 0, ""), [st |-> "done", ret |-> <<>>, nlog |-> 0, meta |-> 0]) = "viol"
       /\ ClauseS(0, [st |-> "done", ret |-> <<n(0, 0)>>, nlog |-> 1, meta |-> 0], 1) = "ok"
       /\ ClauseS(0, [st |-> "done", ret |-> <<n(0, 0)>>, nlog |-> 2, meta |-> 1], 1) = "viol"
=============================================================================
