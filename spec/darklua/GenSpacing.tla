----------------------------- MODULE GenSpacing -----------------------------
(* Transcription of the spacing decisions of darklua's code generators                      *)
(* (src/generator/utils.rs: should_break_with_space, break_long_string,                     *)
(*  break_variable_arguments, break_minus, break_equal, break_concat) and of the way the    *)
(* dense / readable / token-based generators consult them                                   *)
(* (dense.rs, readable.rs: push_str / push_char -> push_space_if_needed -> needs_space;     *)
(*  push_str_and_break_if / push_char_and_break_if -> ONLY the given predicate, applied to  *)
(*  the previously pushed string; raw_push_* / merge_char -> nothing;                       *)
(*  token_based.rs: write_token / write_symbol -> needs_space).                             *)
(* A lexeme is a byte sequence.  Modes (how the SECOND lexeme of a pair is pushed):         *)
(*   std      push_str / push_char / write_token / write_symbol                              *)
(*   concat   dense `..`              (push_str_and_break_if(.., break_concat))             *)
(*   varargs  dense, readable `...`   (break_variable_arguments)                            *)
(*   minus    dense, readable unary - (break_minus)                                         *)
(*   equal    dense `=` of assignments, local, numeric for, type declarations (break_equal) *)
(*   longstr  dense, readable long-bracket strings (break_long_string)                      *)
(*   raw      `.` of a field access, `(` of call arguments (merge_char / raw_push_char)      *)
EXTENDS Integers, Sequences, IOUtils
IsDigitC(c) == c >= 48 /\ c <= 57
IsAlphaC(c) == (c >= 65 /\ c <= 90) \/ (c >= 97 /\ c <= 122)
\* should_break_with_space(ending_character, next_character)
ShouldBreak(a, n) ==
  IF IsDigitC(a) THEN IsDigitC(n) \/ IsAlphaC(n) \/ n = 95 \/ n = 46
  ELSE IF IsAlphaC(a) \/ a = 95 THEN IsAlphaC(n) \/ IsDigitC(n) \/ n = 95
  ELSE IF a = 62 THEN n = 61                 \* > =
  ELSE IF a = 45 THEN n = 45                 \* - -
  ELSE IF a = 91 THEN n = 91                 \* [ [
  ELSE IF a = 93 THEN n = 93                 \* ] ]
  ELSE IF a = 46 THEN n = 46 \/ IsDigitC(n)  \* . .   . digit
  ELSE FALSE
LastOf(s)  == IF Len(s) = 0 THEN -1 ELSE s[Len(s)]
FirstOf(s) == IF Len(s) = 0 THEN -1 ELSE s[1]
BreakLongString(last) == LastOf(last) = 91
BreakVariableArguments(last) == IF LastOf(last) = 46 THEN TRUE ELSE IF Len(last) > 0 THEN (last[1] = 46 \/ IsDigitC(last[1])) ELSE FALSE
BreakMinus(last) == LastOf(last) = 45
BreakEqual(last) == LastOf(last) = 62
\* the leading minus signs of a negative number are skipped (repaired finding F-C02-b; DEV_NEG_CONCAT=1 in the
\* environment restores the old rule, which looked at the very first character, for demonstrations)
DevNegConcat == "DEV_NEG_CONCAT" \in DOMAIN IOEnv /\ IOEnv.DEV_NEG_CONCAT = "1"
RECURSIVE TrimMinus(_)
TrimMinus(s) == IF Len(s) > 0 /\ s[1] = 45 THEN TrimMinus(Tail(s)) ELSE s
BreakConcat(last) == LET l == IF DevNegConcat THEN last ELSE TrimMinus(last) IN
                     IF LastOf(last) = 46 THEN TRUE ELSE IF Len(l) > 0 THEN (l[1] = 46 \/ IsDigitC(l[1])) ELSE FALSE
Modes == {"std", "concat", "varargs", "minus", "equal", "longstr", "raw"}
\* does the generator put a separator (space or newline) between `last` (already written) and `next`?
Separates(mode, last, next) ==
  CASE mode = "std"     -> ShouldBreak(LastOf(last), FirstOf(next))
    [] mode = "concat"  -> BreakConcat(last)
    [] mode = "varargs" -> BreakVariableArguments(last)
    [] mode = "minus"   -> BreakMinus(last)
    [] mode = "equal"   -> BreakEqual(last)
    [] mode = "longstr" -> BreakLongString(last)
    [] mode = "raw"     -> FALSE
=============================================================================
