------------------------------- MODULE Layout -------------------------------
(* Marker programs for C04: template programs whose literal slots (@) are filled, at     *)
(* render time, with the string 'L<n>' where n is the line the slot ends up on.  A layout *)
(* is the template plus the choice of which gaps hold line breaks / comments; every      *)
(* surviving marker must be on line n (+ a uniform shift) in darklua's output.           *)
EXTENDS Integers, Sequences, TLC

\* statements of the Lua 5.1 template (redexes of every default rule, literals in every list position)
TA == <<
  << "local", "a", "=", "@" >>,
  << "local", "unused", "=", "@" >>,
  << "local", "t", "=", "{", "@", ",", "k", "=", "@", ",", "[", "'x'", "]", "=", "@", "}" >>,
  << "if", "true", "then", "m", "(", "@", ")", "else", "m", "(", "@", ")", "end" >>,
  << "while", "false", "do", "m", "(", "@", ")", "end" >>,
  << "do", "end" >>,
  << "do", "m", "(", "@", ")", "end" >>,
  << "function", "t", ":", "f", "(", "x", ")", "return", "x", ",", "@", "end" >>,
  << "m", "(", "t", "[", "'k'", "]", ",", "@", ")" >>,
  << "local", "n", "=", "nil" >>,
  << "m", "(", "1", "+", "2", ",", "@", ",", "n", ")" >>,
  << "m", "(", "@", "..", "'x'", ",", "not", "true", ")" >>,
  << "m", "(", "@", ")", "m", "{", "@", "}" >>,
  << "for", "i", "=", "1", ",", "2", "do", "m", "(", "i", ",", "@", ")", "end" >>,
  << "repeat", "m", "(", "@", ")", "until", "a" >>,
  << "local", "function", "g", "(", "...", ")", "if", "a", "then", "return", "@", "end", "return", "@", ",", "...", "end" >>,
  << "t", ".", "k", "=", "a", "and", "@", "or", "@" >>,
  \* declarations of several names of which some are unused / nil / without a value (rules that rebuild the declaration),
  \* conditions with an `elseif true` between other branches, method definitions with several parameters, a string folded
  \* from long pieces, two statements sharing a line after a statement that a rule deletes
  << "local", "ua", ",", "ub", ",", "uc", "=", "m", "(", "@", ")", ",", "@" >>,
  << "m", "(", "ua", ",", "uc", ")" >>,
  << "local", "na", ",", "nb", "=", "nil", ",", "@" >>,
  << "m", "(", "na", ",", "nb", ")" >>,
  << "local", "da", ",", "db", "=", "@", ",", "nil" >>,
  << "m", "(", "da", ",", "db", ")" >>,
  << "if", "a", "then", "m", "(", "@", ")", "elseif", "true", "then", "m", "(", "@", ")", "else", "m", "(", "@", ")", "end" >>,
  << "if", "false", "then", "m", "(", "@", ")", "elseif", "a", "then", "m", "(", "@", ")", "else", "m", "(", "@", ")", "end" >>,
  << "function", "t", ":", "mg", "(", "pa", ",", "pb", ")", "return", "pa", ",", "pb", ",", "@", "end" >>,
  << "m", "(", "'aaaaaaaaaaaaaaaaaaaaaaaaaaaaaaaaaaaaaaaaaaaaaaaaaaaaaaaaaaaaaaaaaa\\n'", "..", "'b'", ",", "@", ")" >>,
  << "local", "dead", "=", "1", "m", "(", "@", ")" >>,
  << "local", "dead2", "=", "2", "do", "end", "m", "(", "@", ")" >>,
  << "return", "a", ",", "g", "(", "@", ")", ",", "(", "t", ")", ".", "k" >> >>
\* Luau template (redexes of the lowering, removal and injection rules and of the optional refactorings)
TB == <<
  << "local", "x", "=", "@" >>,
  << "x", "..=", "@" >>,
  << "local", "n", "=", "0b11", "+", "1_0" >>,
  << "t", "[", "@", "]", "+=", "n", "//", "2" >>,
  << "for", "i", "=", "1", ",", "2", "do", "if", "i", "then", "continue", "end", "m", "(", "@", ")", "end" >>,
  << "local", "y", "=", "if", "x", "then", "@", "else", "@" >>,
  << "local", "s", "=", "`a{", "x", "}b{", "@", "}`" >>,
  << "assert", "(", "x", ",", "@", ")" >>,
  << "debug", ".", "profilebegin", "(", "@", ")" >>,
  << "m", "(", "INJECTED", ",", "@", ")" >>,
  << "local", "function", "h", "(", "p", ")", "return", "p", ",", "@", "end" >>,
  << "function", "G", "(", ")", "return", "@", "end" >>,
  << "m", "(", "x", ":", "up", "(", "@", ")", ",", "math", ".", "sqrt", "(", "n", ")", ")" >>,
  \* argument lists that rules extend or shorten (remove_method_call inserts the receiver, remove_assertions keeps the
  \* arguments): several markers, so that a separator written on another line than in the source moves a neighbour
  << "x", ":", "up", "(", "@", ",", "@", ",", "@", ")" >>,
  << "m", "(", "s", ":", "rep", "(", "@", ",", "@", ")", ",", "@", ")" >>,
  << "assert", "(", "@", ",", "@", ",", "m", "(", "@", ")", ")" >>,
  << "debug", ".", "profilebegin", "(", "m", "(", "@", ")", ",", "@", ")" >>,
  << "local", "z", "=", "if", "x", "then", "@", "elseif", "true", "then", "@", "else", "@" >>,
  << "local", "w", "=", "if", "false", "then", "@", "elseif", "x", "then", "@", "else", "@" >>,
  << "local", "function", "hh", "(", "qa", ":", "number", ",", "qb", ":", "string", ")", ":", "(", "number", ",", "string", ")", "return", "qa", ",", "qb", ",", "@", "end" >>,
  \* tokens that span several lines: strings continued with backslash + line feed (quoted and interpolated, before the first
  \* value and after it), long strings -- markers behind them on the same line and on the next statement
  << "local", "s2", "=", "`p\\\nq\\\nr{", "x", "}t{", "@", "}u\\\nv`", ",", "@" >>,
  << "local", "s3", "=", "`only\\\ntext`", ",", "@" >>,
  << "m", "(", "[[\nx\ny]]", ",", "@", ",", "'a\\\nb'", ",", "@", ")" >>,
  << "return", "y", ",", "s", ",", "h", "(", "@", ")" >> >>
Templates == << TA, TB >>

\* gap kinds and the number of line feeds in each
\* (new kinds are appended: recorded replay files refer to the first six by index)
\* kinds 9-11: comment BLOCKS of single-line comments (a rule that deletes the statement below moves them to the next one and
\* has to re-create their line breaks: four lines, two lines, lines with blank lines between)
GapKinds == << " ", "\n", "\n\n", " --c\n", " --[[c\nd]] ", "\n\t", " --[a[ odd\n", "\n--[[ a\nb\nc ]]\n-- d\n",
               " -- one\n-- two\n-- three\n-- four\n", " -- p\n-- q\n", " -- r\n\n-- s\n\n\n-- u\n" >>
GapNl    == << 0,   1,    2,      1,         1,              1,      1,              5,
               4, 2, 6 >>

RECURSIVE IntStr(_)
Digit(d) == SubSeq("0123456789", d + 1, d + 1)
IntStr(n) == IF n < 10 THEN Digit(n) ELSE IntStr(n \div 10) \o Digit(n % 10)

\* flatten: tokens of all statements; stmtStart[i] = TRUE when token i starts a statement
RECURSIVE Flat(_, _)
Flat(stmts, i) == IF i > Len(stmts) THEN <<>> ELSE stmts[i] \o Flat(stmts, i + 1)
RECURSIVE Starts(_, _)
Starts(stmts, i) == IF i > Len(stmts) THEN <<>> ELSE <<TRUE>> \o [k \in 1..(Len(stmts[i]) - 1) |-> FALSE] \o Starts(stmts, i + 1)

\* render: gap before token i is "\n" at statement starts (nothing before the first token), " " otherwise, unless
\* `choice` overrides gap i with a kind; `tight`: no spaces at all between tokens that may touch (not modelled: always " ")
\* a marker is the string 'L<line>s<slot>': <line> = the line it is rendered on, <slot> = index of the token (unique per program)
RECURSIVE TokNl(_, _)
TokNl(t, k) == IF k > Len(t) THEN 0 ELSE (IF SubSeq(t, k, k) = "\n" THEN 1 ELSE 0) + TokNl(t, k + 1)
RECURSIVE Render(_, _, _, _, _, _)
Render(toks, starts, choice, i, line, acc) ==
  IF i > Len(toks) THEN acc \o "\n"
  ELSE LET k == IF i \in DOMAIN choice THEN choice[i] ELSE 0 IN
       LET base == IF i = 1 THEN "" ELSE IF starts[i] THEN "\n" ELSE " " IN
       LET baseNl == IF i > 1 /\ starts[i] THEN 1 ELSE 0 IN
       LET gap == IF k = 0 THEN base ELSE (IF starts[i] /\ i > 1 THEN "\n" ELSE "") \o GapKinds[k] IN
       LET nl == IF k = 0 THEN baseNl ELSE baseNl + GapNl[k] IN
       LET ln == line + nl IN
       LET tok == IF toks[i] = "@" THEN "'L" \o IntStr(ln) \o "s" \o IntStr(i) \o "'" ELSE toks[i] IN
       \* a token may span several lines (continued strings, long strings): the next token starts after its line feeds
       Render(toks, starts, choice, i + 1, ln + TokNl(toks[i], 1), acc \o gap \o tok)
\* the statement of the template that contains token i, named by its first three tokens (triage of recorded findings)
RECURSIVE StmtOfTok(_, _, _)
StmtOfTok(stmts, k, i) == IF k > Len(stmts) THEN 0 ELSE IF i <= Len(stmts[k]) THEN k ELSE StmtOfTok(stmts, k + 1, i - Len(stmts[k]))
StmtTag(tp, i) ==
  LET k == IF i = 0 THEN 0 ELSE StmtOfTok(Templates[tp], 1, i) IN
  IF k = 0 THEN "" ELSE LET st == Templates[tp][k] IN st[1] \o (IF Len(st) >= 2 THEN " " \o st[2] ELSE "") \o (IF Len(st) >= 3 THEN " " \o st[3] ELSE "")
Text(tp, choice) == LET s == Templates[tp] IN Render(Flat(s, 1), Starts(s, 1), choice, 1, 1, "")
NTokens(tp) == Len(Flat(Templates[tp], 1))
=============================================================================
