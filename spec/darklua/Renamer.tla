------------------------------- MODULE Renamer -------------------------------
(* rename_variables as a machine over SCOPE EVENTS (C09).                                   *)
(*                                                                                          *)
(* A program is seen as the sequence of scope events in the order the rule visits them:    *)
(*   push / pop              a lexical scope opens / closes                                 *)
(*   decl x                  a local variable, parameter or loop variable named x           *)
(*   declfn x                `local function x` (its name is kept unless include_functions) *)
(*   self                    the implicit `self` of a method                                *)
(*   use x                   an identifier occurrence in expression / assignment position   *)
(*   keep x                  a field or method name (never renamed)                         *)
(* Lua's visibility rules live in the ORDER of the events (initialisers before the          *)
(* declaration, `local function` visible in its own body, the `until` condition inside the  *)
(* repeat scope, loop variables only in the body); the program builder of MC_Renamer emits  *)
(* events and program text together.                                                        *)
(*                                                                                          *)
(* The reference resolver keeps two stacks of scopes, `old` (original names) and `new`      *)
(* (names in the output), both mapping names to declaration ids.  The property is           *)
(* evaluated at every event:                                                                *)
(*   use x written y:  Resolve(new, y) = Resolve(old, x); a global (no declaration) keeps   *)
(*                     its name; a local never takes the name of a keyword, of a listed     *)
(*                     global or of a global the file uses.                                 *)
(* Names are chosen either by the recorded output (trace validation: whatever darklua chose *)
(* is judged only by the property) or by the transcription of darklua's generator           *)
(* (Strategy "darklua": name stream, avoid set, sorted reuse pool) for design-level model   *)
(* checking.                                                                                *)
EXTENDS Integers, Sequences, FiniteSets, TLC

Keywords == {"and", "break", "do", "else", "elseif", "end", "false", "for", "function", "if", "in", "local",
             "nil", "not", "or", "repeat", "return", "then", "true", "until", "while"}

\* ---- reference resolver.  A scope is a sequence of [n |-> name, id |-> declaration id]; a stack is a sequence of scopes.
RECURSIVE FindIn(_, _, _)
FindIn(scope, n, i) == IF i = 0 THEN 0 ELSE IF scope[i].n = n THEN scope[i].id ELSE FindIn(scope, n, i - 1)
RECURSIVE ResolveFrom(_, _, _)
ResolveFrom(stack, n, d) == IF d = 0 THEN 0
                            ELSE LET r == FindIn(stack[d], n, Len(stack[d])) IN IF r # 0 THEN r ELSE ResolveFrom(stack, n, d - 1)
Resolve(stack, n) == ResolveFrom(stack, n, Len(stack))       \* 0 = global
PushScope(stack) == Append(stack, <<>>)
PopScope(stack) == SubSeq(stack, 1, Len(stack) - 1)
Declare(stack, n, id) == [stack EXCEPT ![Len(stack)] = Append(@, [n |-> n, id |-> id])]

\* ---- judging one event, given the name written in the output (trace validation and design checking share this)
\* st = [old, new, nextId, ok, why];  ev = [e, x];  y = name in the output;  forbidden = listed globals \cup globals of the file
InitJudge == [old |-> <<<<>>>>, new |-> <<<<>>>>, nextId |-> 1, ok |-> TRUE, why |-> ""]
Fail(st, why) == IF st.ok THEN [st EXCEPT !.ok = FALSE, !.why = why] ELSE st
JudgeEvent(st, ev, y, forbidden, keepFunctions) ==
  CASE ev.e = "push" -> [st EXCEPT !.old = PushScope(@), !.new = PushScope(@)]
    [] ev.e = "pop"  -> IF Len(st.old) <= 1 THEN Fail(st, "pop of the root scope") ELSE [st EXCEPT !.old = PopScope(@), !.new = PopScope(@)]
    [] ev.e \in {"decl", "declfn", "self"} ->
         LET kept == ev.e = "self" \/ (ev.e = "declfn" /\ keepFunctions) IN
         LET s1 == [st EXCEPT !.old = Declare(@, ev.x, st.nextId), !.new = Declare(@, y, st.nextId), !.nextId = @ + 1] IN
         IF kept /\ y # ev.x THEN Fail(s1, "a kept name was renamed: " \o ev.x \o " -> " \o y)
         ELSE IF ~kept /\ y \in Keywords THEN Fail(s1, "local renamed to a keyword: " \o y)
         ELSE IF ~kept /\ y \in forbidden THEN Fail(s1, "local renamed to a global name: " \o y)
         ELSE s1
    [] ev.e = "use" ->
         LET d == Resolve(st.old, ev.x) IN
         IF Resolve(st.new, y) # d THEN Fail(st, "use of " \o ev.x \o " written " \o y \o " resolves to another binding")
         ELSE IF d = 0 /\ y # ev.x THEN Fail(st, "global " \o ev.x \o " renamed to " \o y)
         ELSE st
    [] ev.e = "keep" -> IF y # ev.x THEN Fail(st, "field or method name " \o ev.x \o " renamed to " \o y) ELSE st
    [] OTHER -> Fail(st, "unknown event " \o ev.e)

\* ---- darklua's name generator (transcription of RenameProcessor).  Gen = the permutator's stream (a prefix of it).
Gen == <<"a", "b", "c", "d", "e", "f", "g", "h", "i", "j", "k", "l", "m", "n", "o", "p", "q", "r", "s", "t", "u", "v", "w", "x", "y", "z", "A", "B", "C", "D", "E", "F", "G", "H", "I", "J", "K", "L", "M", "N", "O", "P", "Q", "R", "S", "T", "U", "V", "W", "X", "Y", "Z", "_">>
GenIndex(n) == IF \E i \in 1..Len(Gen) : Gen[i] = n THEN CHOOSE i \in 1..Len(Gen) : Gen[i] = n ELSE 1000
RECURSIVE NextFree(_, _)
NextFree(k, avoid) == IF k > Len(Gen) THEN k ELSE IF Gen[k] \in avoid THEN NextFree(k + 1, avoid) ELSE k
\* dict: stack of scopes of [x |-> original, y |-> obfuscated, reuse |-> BOOLEAN] (a HashMap per scope: a redeclared name overwrites)
RECURSIVE LookupScope(_, _, _)
LookupScope(scope, x, i) == IF i = 0 THEN "" ELSE IF scope[i].x = x THEN scope[i].y ELSE LookupScope(scope, x, i - 1)
RECURSIVE LookupD(_, _, _)
LookupD(dict, x, d) == IF d = 0 THEN "" ELSE LET r == LookupScope(dict[d], x, Len(dict[d])) IN IF r # "" THEN r ELSE LookupD(dict, x, d - 1)
InsertD(dict, x, y, reuse) ==
  LET top == dict[Len(dict)] IN
  LET without == SelectSeq(top, LAMBDA r : r.x # x) IN              \* HashMap::insert replaces the entry of the same key
  [dict EXCEPT ![Len(dict)] = Append(without, [x |-> x, y |-> y, reuse |-> reuse])]
\* reuse pool: kept sorted so that the smallest name (stream order) is taken first
RECURSIVE InsertSorted(_, _)
InsertSorted(pool, n) == IF pool = <<>> THEN <<n>> ELSE IF GenIndex(n) <= GenIndex(pool[1]) THEN <<n>> \o pool ELSE <<pool[1]>> \o InsertSorted(Tail(pool), n)
RECURSIVE Refill(_, _, _)
Refill(pool, scope, i) == IF i > Len(scope) THEN pool ELSE Refill(IF scope[i].reuse THEN InsertSorted(pool, scope[i].y) ELSE pool, scope, i + 1)

\* g = [dict, k, avoid, pool]
InitGen(avoid0) == [dict |-> <<<<>>>>, k |-> 1, avoid |-> Keywords \cup avoid0, pool |-> <<>>]
Fresh(g) == IF g.pool # <<>> THEN [name |-> g.pool[1], g |-> [g EXCEPT !.pool = Tail(@)]]
            ELSE LET i == NextFree(g.k, g.avoid) IN
                 [name |-> IF i <= Len(Gen) THEN Gen[i] ELSE "!exhausted", g |-> [g EXCEPT !.k = i + 1]]
\* the name darklua writes for an event, and the generator state afterwards
GenEvent(g, ev, keepFunctions) ==
  CASE ev.e = "push" -> [name |-> "", g |-> [g EXCEPT !.dict = Append(@, <<>>)]]
    [] ev.e = "pop"  -> [name |-> "", g |-> [g EXCEPT !.pool = Refill(g.pool, g.dict[Len(g.dict)], 1), !.dict = SubSeq(@, 1, Len(@) - 1)]]
    [] ev.e = "self" -> [name |-> "self", g |-> [g EXCEPT !.dict = InsertD(@, "self", "self", FALSE)]]
    [] ev.e = "declfn" /\ keepFunctions -> [name |-> ev.x, g |-> [g EXCEPT !.dict = InsertD(@, ev.x, ev.x, FALSE)]]
    [] ev.e \in {"decl", "declfn"} -> LET f == Fresh(g) IN [name |-> f.name, g |-> [f.g EXCEPT !.dict = InsertD(@, ev.x, f.name, TRUE)]]
    [] ev.e = "use" -> LET y == LookupD(g.dict, ev.x, Len(g.dict)) IN
                       IF y # "" THEN [name |-> y, g |-> g] ELSE [name |-> ev.x, g |-> [g EXCEPT !.avoid = @ \cup {ev.x}]]
    [] ev.e = "keep" -> [name |-> ev.x, g |-> g]
    [] OTHER -> [name |-> "", g |-> g]
=============================================================================
