------------------------------- MODULE Bundle -------------------------------
(* C05 -- the inlining mechanism of the bundler as a state machine shaped like the code      *)
(* (src/rules/bundle/path_require_mode/mod.rs: RequirePathProcessor).                        *)
(*                                                                                          *)
(*   cache   : path -> module name        module_cache        (0 = absent)                   *)
(*   stack   : Seq(path)                  require_stack                                      *)
(*   defs    : Seq([name, path])          module_definitions  (IndexMap, insertion ordered)  *)
(*   errors  : Seq([kind, files, from])   errors                                             *)
(*   skip    : SUBSET path                skip_module_paths                                  *)
(*   walk    : Seq([f, p])                the recursion of the visitor: file being walked    *)
(*                                        and the index of its next require-like call        *)
(*   inl     : SUBSET (file x index)      calls that were replaced by a module accessor      *)
(*                                                                                          *)
(* Actions mirror try_inline_call / inline_require / require_resource:                       *)
(*   NoMatch, Match (is_require_call + match_path_require_call), Excluded (is_excluded),     *)
(*   LocateFail / Locate (find_require_path), SkipErrored (skip_module_paths.contains),      *)
(*   CacheHit, CycleDetected, Enter (require_stack.push + require_resource),                 *)
(*   LeaveOk / LeaveErr (require_stack.pop + build_module_from_resource), Finish (apply).    *)
(*                                                                                          *)
(* The module graph is a VALUE G, so the same operators serve the model checker (MC_Bundle:  *)
(* invariants over every reachable state of every small graph) and the trace judge          *)
(* (BundleTrace: Final(G) says which graphs MUST end in an error and which files it names).  *)
(*   G.n      number of files; file 1 is the ENTRY                                           *)
(*   G.kind   per file: "lua" | "data" | "broken" (syntax error) | "ret0" | "ret2" (returns  *)
(*            0 / 2 values) | "missing" (the request resolves to no file)                    *)
(*   G.calls  per file: the require-like calls of its text in source order, each             *)
(*            [t: target file, lit: one literal string argument, shadow: a local `require`   *)
(*             is in scope at the call, excl: the literal matches bundle.excludes]  (0/1)    *)
(*                                                                                          *)
(* Named deviation (DESIGN.md 4.7, finding F-C05-a):                                         *)
(*   DevModuleScopeNotTracked  required modules are walked with DefaultVisitor while the     *)
(*     identifier tracker still holds the scope of the call site in the entry, so inside a   *)
(*     required module a shadowed `require` still matches.                                   *)
EXTENDS Integers, Sequences, FiniteSets, TLC

CONSTANT DevModuleScopeNotTracked

Entry == 1
Files(G) == 1..G.n
Parsed(G, f) == G.kind[f] \in {"lua", "ret0", "ret2"}            \* the text parses: its body is walked
CallsOf(G, f) == IF Parsed(G, f) THEN G.calls[f] ELSE <<>>
SeqToSet(q) == {q[i] : i \in 1..Len(q)}
IndexIn(q, x) == IF \E i \in 1..Len(q) : q[i] = x THEN CHOOSE i \in 1..Len(q) : q[i] = x /\ \A j \in 1..(i - 1) : q[j] # x ELSE 0

\* ---------------------------------------------------------------- machine state (a record, see Vars below)
InitSt(G) == [ cache |-> [f \in Files(G) |-> 0], stack |-> <<>>, defs |-> <<>>, errors |-> <<>>, skip |-> {},
               walk |-> << [f |-> Entry, p |-> 1] >>, pc |-> "scan", inl |-> {}, entered |-> [f \in Files(G) |-> 0], steps |-> 0 ]

Top(s) == s.walk[Len(s.walk)]
InModule(s) == Len(s.walk) > 1                      \* the file being walked was reached through a require
AtEnd(G, s) == Top(s).p > Len(CallsOf(G, Top(s).f))
Cur(G, s) == CallsOf(G, Top(s).f)[Top(s).p]
Advance(s) == [s EXCEPT !.walk[Len(s.walk)].p = @ + 1, !.pc = "scan"]
Err(k, files, from) == [kind |-> k, files |-> files, from |-> from]

\* is_require_call: an identifier `require` that is not a local in scope; match_path_require_call: one literal string.
\* The entry is walked by ScopeVisitor (scopes tracked); required modules by DefaultVisitor (not tracked).
Matches(G, s) == LET c == Cur(G, s) IN
  /\ c.lit = 1
  /\ (c.shadow = 0 \/ (DevModuleScopeNotTracked /\ InModule(s)))

\* ---------------------------------------------------------------- actions: enabling condition + effect
En_NoMatch(G, s) == s.pc = "scan" /\ ~AtEnd(G, s) /\ ~Matches(G, s)
Do_NoMatch(G, s) == Advance(s)

En_Match(G, s) == s.pc = "scan" /\ ~AtEnd(G, s) /\ Matches(G, s)
Do_Match(G, s) == [s EXCEPT !.pc = "matched"]

En_Excluded(G, s) == s.pc = "matched" /\ Cur(G, s).excl = 1
Do_Excluded(G, s) == Advance(s)                                     \* the call stays a run-time require

En_LocateFail(G, s) == s.pc = "matched" /\ Cur(G, s).excl = 0 /\ G.kind[Cur(G, s).t] = "missing"
Do_LocateFail(G, s) == Advance([s EXCEPT !.errors = Append(@, Err("notfound", <<Cur(G, s).t>>, Top(s).f))])

En_Locate(G, s) == s.pc = "matched" /\ Cur(G, s).excl = 0 /\ G.kind[Cur(G, s).t] # "missing"
Do_Locate(G, s) == [s EXCEPT !.pc = "located"]

En_SkipErrored(G, s) == s.pc = "located" /\ Cur(G, s).t \in s.skip
Do_SkipErrored(G, s) == Advance(s)

En_CacheHit(G, s) == s.pc = "located" /\ Cur(G, s).t \notin s.skip /\ s.cache[Cur(G, s).t] # 0
Do_CacheHit(G, s) == Advance([s EXCEPT !.inl = @ \cup {<<Top(s).f, Top(s).p>>}])

En_CycleDetected(G, s) == s.pc = "located" /\ Cur(G, s).t \notin s.skip /\ s.cache[Cur(G, s).t] = 0 /\ Cur(G, s).t \in SeqToSet(s.stack)
Do_CycleDetected(G, s) ==
  LET t == Cur(G, s).t IN LET i == IndexIn(s.stack, t) IN
  Advance([s EXCEPT !.errors = Append(@, Err("cycle", SubSeq(s.stack, i, Len(s.stack)) \o <<t>>, Top(s).f)),
                    !.skip = @ \cup {t}])

En_Enter(G, s) == s.pc = "located" /\ Cur(G, s).t \notin s.skip /\ s.cache[Cur(G, s).t] = 0 /\ Cur(G, s).t \notin SeqToSet(s.stack)
Do_Enter(G, s) ==
  LET t == Cur(G, s).t IN
  [s EXCEPT !.stack = Append(@, t), !.entered[t] = @ + 1, !.walk = Append(@, [f |-> t, p |-> 1]), !.pc = "scan"]

\* the walk of a required file is over: pop the stack, then build_module_from_resource decides
Leaving(G, s) == s.pc = "scan" /\ AtEnd(G, s) /\ InModule(s)
Parent(s) == s.walk[Len(s.walk) - 1]
Popped(s) == [s EXCEPT !.walk = SubSeq(@, 1, Len(@) - 1), !.stack = SubSeq(@, 1, Len(@) - 1)]
En_LeaveOk(G, s) == Leaving(G, s) /\ G.kind[Top(s).f] \in {"lua", "data"}
Do_LeaveOk(G, s) ==
  LET f == Top(s).f IN LET name == Len(s.defs) + 1 IN
  Advance([Popped(s) EXCEPT !.defs = Append(@, [name |-> name, path |-> f]), !.cache[f] = name,
                            !.inl = @ \cup {<<Parent(s).f, Parent(s).p>>}])
En_LeaveErr(G, s) == Leaving(G, s) /\ G.kind[Top(s).f] \in {"broken", "ret0", "ret2"}
Do_LeaveErr(G, s) ==
  LET f == Top(s).f IN
  Advance([Popped(s) EXCEPT !.errors = Append(@, Err(IF G.kind[f] = "broken" THEN "parse" ELSE "module", <<f>>, Parent(s).f)),
                            !.skip = @ \cup {f}])

En_Finish(G, s) == s.pc = "scan" /\ AtEnd(G, s) /\ ~InModule(s)
Do_Finish(G, s) == [s EXCEPT !.pc = "done"]

\* deterministic successor (the guards are mutually exclusive)
StepM(G, s0) ==
  LET s == [s0 EXCEPT !.steps = @ + 1] IN
  CASE En_NoMatch(G, s) -> Do_NoMatch(G, s)     [] En_Match(G, s) -> Do_Match(G, s)
    [] En_Excluded(G, s) -> Do_Excluded(G, s)   [] En_LocateFail(G, s) -> Do_LocateFail(G, s)
    [] En_Locate(G, s) -> Do_Locate(G, s)       [] En_SkipErrored(G, s) -> Do_SkipErrored(G, s)
    [] En_CacheHit(G, s) -> Do_CacheHit(G, s)   [] En_CycleDetected(G, s) -> Do_CycleDetected(G, s)
    [] En_Enter(G, s) -> Do_Enter(G, s)         [] En_LeaveOk(G, s) -> Do_LeaveOk(G, s)
    [] En_LeaveErr(G, s) -> Do_LeaveErr(G, s)   [] En_Finish(G, s) -> Do_Finish(G, s)
    [] OTHER -> s0
RECURSIVE RunM(_, _, _)
RunM(G, s, fuel) == IF s.pc = "done" \/ fuel = 0 THEN s ELSE RunM(G, StepM(G, s), fuel - 1)
TotalCalls(G) == LET F[f \in 0..G.n] == IF f = 0 THEN 0 ELSE F[f - 1] + Len(G.calls[f]) IN F[G.n]
\* every call costs at most 3 steps (Match, Locate, outcome), every file at most one Leave, plus Finish
StepBound(G) == 3 * (TotalCalls(G) + Len(G.calls[Entry])) + G.n + 2
Final(G) == RunM(G, InitSt(G), StepBound(G) + 1)

\* ---------------------------------------------------------------- the documented contract, independent of the machine
\* an effective edge: a call the bundler must follow (asModule: the requiring text is itself a required module)
Follows(G, c, asModule) == c.lit = 1 /\ c.excl = 0 /\ (c.shadow = 0 \/ (DevModuleScopeNotTracked /\ asModule))
Succ(G, f, asModule) == {CallsOf(G, f)[i].t : i \in {j \in 1..Len(CallsOf(G, f)) : Follows(G, CallsOf(G, f)[j], asModule)}}
\* files whose body is inlined (or attempted): the least set containing the entry's targets, closed under module edges
RECURSIVE Closure(_, _)
Closure(G, S) == LET T == S \cup UNION {Succ(G, f, TRUE) : f \in {x \in S : G.kind[x] # "missing"}} IN IF T = S THEN S ELSE Closure(G, T)
Reached(G) == Closure(G, Succ(G, Entry, FALSE))
RECURSIVE ReachFrom(_, _)
ReachFrom(G, S) == LET T == S \cup UNION {Succ(G, f, TRUE) : f \in S} IN IF T = S THEN S ELSE ReachFrom(G, T)
OnCycle(G, f) == f \in ReachFrom(G, Succ(G, f, TRUE))
HasCycle(G) == \E f \in Reached(G) : G.kind[f] # "missing" /\ OnCycle(G, f)
HasFault(G) == \E f \in Reached(G) : G.kind[f] \in {"missing", "broken", "ret0", "ret2"}
MustError(G) == HasCycle(G) \/ HasFault(G)

\* ---------------------------------------------------------------- invariants (over states s of graph G)
Injective(G, s) == \A f, h \in Files(G) : s.cache[f] # 0 /\ s.cache[f] = s.cache[h] => f = h
DefsMatchCache(G, s) ==
  /\ \A i, j \in 1..Len(s.defs) : i # j => s.defs[i].path # s.defs[j].path /\ s.defs[i].name # s.defs[j].name
  /\ \A f \in Files(G) : s.cache[f] # 0 <=> \E i \in 1..Len(s.defs) : s.defs[i].path = f /\ s.defs[i].name = s.cache[f]
EnteredOnce(G, s) == \A f \in Files(G) : s.entered[f] <= 1
StackBounded(G, s) ==
  /\ Len(s.stack) <= G.n
  /\ \A i, j \in 1..Len(s.stack) : i # j => s.stack[i] # s.stack[j]
  /\ s.stack = [i \in 1..(Len(s.walk) - 1) |-> s.walk[i + 1].f]
  /\ s.steps <= StepBound(G)
\* every dependency's definition precedes its user's definition
DefIndex(s, f) == IF \E i \in 1..Len(s.defs) : s.defs[i].path = f THEN CHOOSE i \in 1..Len(s.defs) : s.defs[i].path = f ELSE 0
\* (stated for graphs whose entry is not itself required as a module: there a call <<file, index>> identifies one walk)
DepsPrecede(G, s) ==
  Entry \notin Reached(G) =>
    \A i \in 1..Len(s.defs) : \A c \in s.inl :
       c[1] = s.defs[i].path => LET t == CallsOf(G, c[1])[c[2]].t IN DefIndex(s, t) # 0 /\ DefIndex(s, t) < i
\* errors name the files involved
IsEdge(G, f, t) == t \in Succ(G, f, TRUE)
ErrorsWellNamed(G, s) ==
  \A i \in 1..Len(s.errors) : LET e == s.errors[i] IN
    /\ Len(e.files) >= 1
    /\ e.kind = "cycle" => /\ Len(e.files) >= 2 /\ e.files[1] = e.files[Len(e.files)]
                           /\ \A k \in 1..(Len(e.files) - 1) : IsEdge(G, e.files[k], e.files[k + 1])
    /\ e.kind = "notfound" => G.kind[e.files[1]] = "missing"
    /\ e.kind = "parse" => G.kind[e.files[1]] = "broken"
    /\ e.kind = "module" => G.kind[e.files[1]] \in {"ret0", "ret2"}
\* at the end: an error exactly when the contract demands one; a cyclic graph always names a cycle; every faulty file
\* that is reached is named; nothing is left on the stack
AtDone(G, s) == s.pc = "done" =>
  /\ s.stack = <<>> /\ Len(s.walk) = 1
  /\ (s.errors # <<>>) <=> MustError(G)
  /\ HasCycle(G) => \E i \in 1..Len(s.errors) : s.errors[i].kind = "cycle"
  /\ \A f \in Reached(G) : G.kind[f] \in {"missing", "broken", "ret0", "ret2"} => \E i \in 1..Len(s.errors) : f \in SeqToSet(s.errors[i].files)
  /\ (s.errors = <<>> => \A f \in Reached(G) : s.cache[f] # 0)
\* the documented contract: a call under a local `require` is never inlined (holds with the deviation flag off)
ShadowRespected(G, s) == \A c \in s.inl : CallsOf(G, c[1])[c[2]].shadow = 0
\* where the deviation shows: trigger of F-C05-a
ShadowedCallInModule(G) == \E f \in Reached(G) : \E i \in 1..Len(CallsOf(G, f)) : CallsOf(G, f)[i].shadow = 1 /\ CallsOf(G, f)[i].lit = 1
=============================================================================
