------------------------------- MODULE Filters -------------------------------
(* File and rule filters (C20).                                                                      *)
(*                                                                                                   *)
(* A path is a sequence of segments [stem, ext] ("src/sub/a.lua" = <<[src,""], [sub,""], [a,lua]>>): *)
(* the path of the source file exactly as darklua passes it to the filter                            *)
(* (Worker::apply_rules: configuration.should_apply_rule(work_item.data.source()) and                *)
(* rule.metadata().should_apply(work_item.data.source())), i.e. the input location joined with the   *)
(* relative path of the file -- `src/a.lua` for `darklua process src out`.                           *)
(*                                                                                                   *)
(* A pattern is a sequence of pattern segments (the glob subset of the property):                    *)
(*   lit   a literal component (name with its extension)        src , a.lua                          *)
(*   star  `*`      exactly one component, whatever its name                                         *)
(*   ext   `*.ext`  exactly one component whose extension is ext                                     *)
(*   dstar `**`     zero or more components (wax: a tree wildcard also matches nothing)              *)
(*   glob  a component with wildcards inside it: `test_*.lua`, `ma?n.lua`, `te*` -- `*` is zero or   *)
(*         more characters of the component, `?` exactly one (never a separator); `stem` holds the  *)
(*         component pattern as written                                                             *)
(* wax::Glob::is_match matches the WHOLE path (no implicit prefix or suffix).                        *)
EXTENDS Integers, Sequences, FiniteSets, TLC

Seg(stem, ext) == [stem |-> stem, ext |-> ext]
Lit(stem, ext) == [kind |-> "lit", stem |-> stem, ext |-> ext]
Star  == [kind |-> "star", stem |-> "", ext |-> ""]
Ext(e) == [kind |-> "ext", stem |-> "", ext |-> e]
DStar == [kind |-> "dstar", stem |-> "", ext |-> ""]
Glob(g) == [kind |-> "glob", stem |-> g, ext |-> ""]

SegStr(s) == IF s.ext = "" THEN s.stem ELSE s.stem \o "." \o s.ext
\* wildcards inside one component, on the characters of the component's name
RECURSIVE GlobStr(_, _)
GlobStr(p, s) ==
  IF p = "" THEN s = ""
  ELSE LET h == SubSeq(p, 1, 1) IN
       IF h = "*" THEN GlobStr(Tail(p), s) \/ (s # "" /\ GlobStr(p, Tail(s)))
       ELSE IF h = "?" THEN s # "" /\ GlobStr(Tail(p), Tail(s))
       ELSE s # "" /\ SubSeq(s, 1, 1) = h /\ GlobStr(Tail(p), Tail(s))
SegMatches(ps, seg) ==
  CASE ps.kind = "lit"  -> ps.stem = seg.stem /\ ps.ext = seg.ext
    [] ps.kind = "glob" -> GlobStr(ps.stem, SegStr(seg))
    [] ps.kind = "star" -> TRUE
    [] ps.kind = "ext"  -> seg.ext = ps.ext
    [] OTHER -> FALSE

RECURSIVE Matches(_, _)
Matches(pattern, path) ==
  IF pattern = <<>> THEN path = <<>>
  ELSE IF Head(pattern).kind = "dstar"
       THEN Matches(Tail(pattern), path) \/ (path # <<>> /\ Matches(pattern, Tail(path)))
       ELSE path # <<>> /\ SegMatches(Head(pattern), Head(path)) /\ Matches(Tail(pattern), Tail(path))

\* Configuration::should_apply_rule and RuleMetadata::should_apply, the abstract pipeline (RuleRuns, RanSet, Delete,
\* WithFilter) and the proofs of the theorems below for ANY matching relation live in FiltersCore.tla
INSTANCE FiltersCore WITH Matches <- Matches

\* The output of a file is a function of (its source, the set of rules that ran): rules only see the file they run on.
\* Theorems (model-checked by MC_Filters over the bounded universe):
\* a rule filtered out on a file = that rule deleted from the pipeline, for that file
RuleFilterIsDeletion(cfg, k, path) == ~RuleRuns(cfg, k, path) => RanSet(cfg, path) = RanSet(Delete(cfg, k), path)
\* ... and where it runs, deleting it removes exactly its own effect
RuleRunsIsItsOwnEffect(cfg, k, path) == RuleRuns(cfg, k, path) => RanSet(Delete(cfg, k), path) = RanSet(cfg, path) \ {k}
\* the filter of a rule never changes which OTHER rules run on a file
FilterIsLocal(cfg, k, a, s, path) == RanSet(WithFilter(cfg, k, a, s), path) \ {k} = RanSet(cfg, path) \ {k}
\* a file excluded by the top-level filter is not transformed at all
RootExcludedUntouched(cfg, path) == ~ShouldApply(path, cfg.apply, cfg.skip) => RanSet(cfg, path) = {}

\* rendering (shared by the model-checking instance and the trace specification)
PatSegStr(p) == CASE p.kind = "lit" -> SegStr(p) [] p.kind = "glob" -> p.stem [] p.kind = "star" -> "*" [] p.kind = "ext" -> "*." \o p.ext [] OTHER -> "**"
RECURSIVE Join(_, _)
Join(strs, k) == IF k > Len(strs) THEN "" ELSE IF k = Len(strs) THEN strs[k] ELSE strs[k] \o "/" \o Join(strs, k + 1)
PathStr(path) == Join([i \in DOMAIN path |-> SegStr(path[i])], 1)
PatStr(pattern) == Join([i \in DOMAIN pattern |-> PatSegStr(pattern[i])], 1)
=============================================================================
