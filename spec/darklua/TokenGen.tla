------------------------------ MODULE TokenGen ------------------------------
(* The retain_lines generator (TokenBasedLuaGenerator::{write_trivia, write_token_options, uncomment}) as a machine *)
(* over a sequence of items (tokens and trivia, original or created by a rule): line discipline only.            *)
(* Design theorem LineKept (C04): under the precondition Pre -- what parsing guarantees about ORIGINAL items and   *)
(* what rules must respect for CREATED ones -- every line-carrying token is written on its recorded line.         *)
(* TLC refutes weaker preconditions: a created line comment before an original token, and a created token        *)
(* between an original line comment and an original token of the same line, both push the token down.            *)
EXTENDS Integers, Sequences, FiniteSets, TLC
CONSTANTS MaxLine, MaxLen

\* an item is a token or a trivia:
\*  k    : "tok" | "ws" | "lc" (line comment) | "mc" (long comment)
\*  pos  : "ref"/"line" (carries a line number) | "any" (created by a rule)
\*  line : recorded line (0 when pos = "any")
\*  nl   : number of newline characters inside the content (0..1 here)
Items == [k : {"tok"}, pos : {"ref", "any"}, line : 0..MaxLine, nl : {0, 1}]
         \cup [k : {"ws"}, pos : {"ref"}, line : 0..MaxLine, nl : {0, 1}]
         \cup [k : {"lc"}, pos : {"ref", "any"}, line : 0..MaxLine, nl : {0}]
WellFormedItem(x) == (x.pos = "any") = (x.line = 0)

VARIABLES seq, i, cur, commenting, placed, lastWasNl
vars == <<seq, i, cur, commenting, placed, lastWasNl>>

Init == /\ seq \in UNION {[1..n -> {x \in Items : WellFormedItem(x)}] : n \in 1..MaxLen}
        /\ i = 1 /\ cur = 1 /\ commenting = FALSE /\ placed = <<>> /\ lastWasNl = TRUE

\* write_trivia
WriteTrivia(x) ==
  /\ cur' = cur + x.nl
  /\ commenting' = IF x.k = "lc" THEN TRUE ELSE IF x.k = "ws" /\ commenting /\ x.nl > 0 THEN FALSE ELSE commenting
  /\ placed' = placed
  /\ lastWasNl' = (x.nl > 0)

\* write_token_options: uncomment (newline) if a line comment is open; pad with newlines up to the recorded line; write
WriteToken(x) ==
  LET afterUncomment == IF commenting THEN cur + 1 ELSE cur IN
  LET start == IF x.pos # "any" /\ x.line > afterUncomment THEN x.line ELSE afterUncomment IN
  /\ placed' = Append(placed, [want |-> x.line, got |-> start, swallowed |-> FALSE])
  /\ cur' = start + x.nl
  /\ commenting' = FALSE
  /\ lastWasNl' = (x.nl > 0)

Next == /\ i <= Len(seq)
        /\ IF seq[i].k = "tok" THEN WriteToken(seq[i]) ELSE WriteTrivia(seq[i])
        /\ i' = i + 1 /\ seq' = seq

\* ---- the precondition rules must maintain, and the theorem
Lines(s) == [j \in 1..Len(s) |-> s[j].line]
\* a token may only be asked to land on a line >= the line reached by everything written before it
Monotone(s) == \A a, b \in 1..Len(s) : a < b /\ s[a].line # 0 /\ s[b].line # 0 => s[a].line + s[a].nl <= s[b].line
AnyHasNoNewline(s) == \A a \in 1..Len(s) : s[a].pos = "any" => s[a].nl = 0
\* in a source text nothing follows a line comment on its line: every later original token is on a later line
LineCommentsEndTheirLine(s) == \A a, b \in 1..Len(s) : a < b /\ s[a].k = "lc" /\ s[a].line # 0 /\ s[b].k = "tok" /\ s[b].line # 0 => s[b].line > s[a].line
NoCreatedLineComment(s) == \A a \in 1..Len(s) : s[a].k = "lc" => s[a].pos # "any"
Pre(s) == NoCreatedLineComment(s) /\ Monotone(s) /\ AnyHasNoNewline(s) /\ LineCommentsEndTheirLine(s) /\ (\A a \in 1..Len(s) : s[a].line # 0 => s[a].line >= 1)
LineKept == Pre(seq) => \A p \in 1..Len(placed) : placed[p].want # 0 => placed[p].got = placed[p].want
=============================================================================
